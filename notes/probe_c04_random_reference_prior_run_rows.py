import io, warnings, tempfile, os
warnings.simplefilter("ignore")
from snowfakery import generate_data
def run(recipe, fmt="txt", **kw):
    out = io.StringIO()
    generate_data(io.StringIO(recipe), output_file=out, output_format=fmt, **kw)
    return out.getvalue()
r = """
- object: P
  fields:
    y:
      random_reference: T
    z: ${{y.name}}
- object: T
  fields:
    name: t${{id}}
"""
r1 = """
- object: T
  just_once: true
  fields:
    name: first
""" + r
try: print("unsplit\n", run(r1, target_number=("P", 2)))
except Exception as e: print("ERR unsplit", type(e).__name__, str(e)[:120])
d = tempfile.mkdtemp(); c = d+"/c.yml"
try:
    print("run1\n", run(r1, generate_continuation_file=c))
    print("run2\n", run(r1, continuation_file=c))
except Exception as e: print("ERR split", type(e).__name__, str(e)[:160])
