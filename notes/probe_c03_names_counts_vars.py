import io, warnings, json
warnings.simplefilter("ignore")
from snowfakery import generate_data
from snowfakery.output_streams import OutputStream
from snowfakery.object_rows import ObjectRow, ObjectReference
class Cap(OutputStream):
    def __init__(self): self.rows=[]
    def write_row(self, t, row):
        def c(v):
            if isinstance(v,(ObjectRow,ObjectReference)):
                try: return ("REF", v._tablename, v.id, type(v).__name__)
                except Exception as e: return ("REFERR", type(v).__name__, str(e))
            return (type(v).__name__, v)
        self.rows.append((t, {k:c(v) for k,v in row.items()}))
    def write_single_row(self,*a): pass
    def close(self, **kw): return []
def run(recipe, **kw):
    cap = Cap()
    from snowfakery.data_generator import generate
    from snowfakery.api import SnowfakeryApplication, stopping_criteria_from_target_number
    tn = kw.pop("target_number", None)
    generate(io.StringIO(recipe), kw.pop("user_options", {}), cap, SnowfakeryApplication(stopping_criteria_from_target_number(tn)), **kw)
    return cap.rows
def show(name, body, **kw):
    for ver in (2,3):
        r = f"- snowfakery_version: {ver}\n" + body
        try:
            rows = run(r, **kw)
            print(f"[{name} v{ver}]")
            for t,row in rows: print("   ", t, row)
        except Exception as e:
            print(f"[{name} v{ver}] ERR {type(e).__name__}: {str(e)[:140]!r}")

show("bare_slot_formula", """
- object: A
  fields:
    x: ${{B}}
    y: ${{B.id}}
- object: B
""")
show("count_forms", """
- object: A
  count: "2"
- object: B
  count: ${{ 1 + 1 }}
- object: C
  count: "1.9"
- object: D
  count: -1
- object: E
  count: ${{ A.id }}
""")
show("nested_count0", """
- object: P
  fields:
    k:
      - object: K
        count: 0
    kk: ${{k}}
""")
show("field_shadows_table", """
- object: B
  fields:
    n: 7
- object: A
  fields:
    B: 5
    x: ${{B}}
    y:
      reference: B
""")
show("id_count_this", """
- object: A
  count: 2
  fields:
    i: ${{id}}
    c: ${{count}}
    t: ${{this.i + 1}}
    ci: ${{child_index}}
    tn: ${{template.tablename}}
""")
show("var_object", """
- var: V
  value:
    - object: Q
      fields:
        n: 1
- object: A
  count: 2
  fields:
    q:
      reference: V
    qn: ${{V.n}}
""", target_number=("A", 4))
show("option_vs_name", """
- option: B
  default: 9
- object: B
- object: A
  fields:
    x: ${{B}}
""")
show("just_once_count3", """
- object: J
  just_once: true
  nickname: jj
  count: 3
  fields:
    n: ${{child_index}}
- object: J
  fields:
    n: 100
- object: A
  fields:
    a:
      reference: jj
    b:
      reference: J
""", target_number=("A", 2))
