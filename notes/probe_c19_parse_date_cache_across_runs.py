import io
from snowfakery import generate_data
def run(y):
    out=io.StringIO(); generate_data(io.StringIO(y), output_file=out, output_format="txt"); return out.getvalue().strip()
a="""
- snowfakery_version: 3
- object: A
  fields:
    d: ${{ date(datetime(year=2020, month=1, day=2, hour=4, timezone=relativedelta(hours=0))) }}
"""
b="""
- snowfakery_version: 3
- object: B
  fields:
    d: ${{ date(datetime(year=2020, month=1, day=1, hour=23, timezone=relativedelta(hours=-5))) }}
"""
import sys
if len(sys.argv)>1: print("alone:", run(b))
else: print("after A:", run(a), "|", run(b))
