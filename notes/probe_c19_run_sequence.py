import io, warnings
warnings.simplefilter("ignore")
from snowfakery import generate_data
def run(recipe, fmt="json", **kw):
    out = io.StringIO()
    generate_data(io.StringIO(recipe), output_file=out, output_format=fmt, **kw)
    return out.getvalue()
R = """
- plugin: snowfakery.standard_plugins.Counters
- var: v
  value: 5
- object: P
  just_once: true
  nickname: pp
  fields:
    n: ${{v}}
- object: A
  count: 2
  fields:
    c:
      Counters.NumberCounter:
        start: 3
    d: ${{date('2020-01-0' ~ (child_index+1))}}
    p:
      reference: pp
    f:
      reference: Z
- object: Z
"""
BAD = """
- var: v
  value: 99
- object: A
  nickname: pp
  fields:
    x: ${{nope}}
"""
a = run(R, target_number=("A",4))
try: run(BAD)
except Exception as e: print("bad:", type(e).__name__)
b = run(R, target_number=("A",4))
print("same:", a == b); print(a)
