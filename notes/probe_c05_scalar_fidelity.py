import io, warnings, tempfile, os
warnings.simplefilter("ignore")
from snowfakery import generate_data
def run(recipe, fmt="json", **kw):
    out = io.StringIO()
    generate_data(io.StringIO(recipe), output_file=out, output_format=fmt, **kw)
    return out.getvalue()
fields = {
 "dec": "${{ fake.pydecimal(left_digits=3, right_digits=2) }}",
 "dt": "${{ datetime(year=2020, month=2, day=29, hour=5) }}",
 "d": "${{ date('2020-02-29') }}",
 "big": "${{ 2**80 }}",
 "flt": "${{ 1.0 / 3 }}",
 "b": "${{ 1 == 1 }}",
 "n": "${{ None }}",
 "s_num": "'0012'",
 "s_yes": "'yes'",
 "s_null": "'null'",
 "s_colon": "'a: b # c'",
 "s_nl": "\"line1\\nline2 \\t\\u2028 \\x85 end \"",
 "s_emoji": "\"\\U0001F600\"",
 "rd": "${{ relativedelta(days=3) }}",
}
for k, v in fields.items():
    r = f"""
- snowfakery_version: 3
- object: J
  just_once: true
  nickname: jj
  fields:
    f: {v}
- object: A
  fields:
    g: ${{{{jj.f}}}}
    t: ${{{{jj.f.__class__.__name__}}}}
"""
    d = tempfile.mkdtemp(); cont = os.path.join(d, "c.yml")
    try:
        a = run(r, "txt", generate_continuation_file=cont)
        b = run(r, "txt", continuation_file=cont)
        print(k, "|", a.strip().splitlines()[-1], "|", b.strip().splitlines()[-1])
    except Exception as e:
        print(k, "ERR", type(e).__name__, str(e)[:150])
