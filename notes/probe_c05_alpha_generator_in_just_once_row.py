import io
from snowfakery import generate_data
R = """
- plugin: snowfakery.standard_plugins.UniqueId
- object: Cfg
  just_once: true
  nickname: cfg
  fields:
    __gen:
      UniqueId.AlphaCodeGenerator:
        alphabet: ABCDEF123
        min_chars: 6
    __num:
      UniqueId.NumericIdGenerator: {}
- object: A
  count: 2
  fields:
    code: ${{cfg.__gen.unique_id}}
    n: ${{cfg.__num.unique_id}}
"""
c = io.StringIO(); o1 = io.StringIO()
generate_data(io.StringIO(R), generate_continuation_file=c, output_file=o1, output_format="json")
o2 = io.StringIO()
generate_data(io.StringIO(R), continuation_file=io.StringIO(c.getvalue()), output_file=o2, output_format="json")
import json
r1 = [r["code"] for r in json.loads(o1.getvalue()) if r["_table"] == "A"]; r2 = [r["code"] for r in json.loads(o2.getvalue()) if r["_table"] == "A"]
print(r1, r2, set("".join(r1 + r2)) <= set("ABCDEF123"), all(len(x) >= 6 for x in r1 + r2))
print([l for l in c.getvalue().splitlines() if "Alpha" in l or "alphabet" in l])
