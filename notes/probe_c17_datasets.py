import io, warnings, tempfile, os
warnings.simplefilter("ignore")
from snowfakery import generate_data
from snowfakery.data_gen_exceptions import DataGenError
d = tempfile.mkdtemp()
def run(recipe, fmt="txt", **kw):
    out = io.StringIO()
    p = os.path.join(d, "r.yml"); open(p,"w").write(recipe)
    generate_data(p, output_file=out, output_format=fmt, **kw)
    return out.getvalue()
def csvf(name, text, bom=False):
    with open(os.path.join(d,name),"w",encoding="utf-8-sig" if bom else "utf-8", newline="") as f: f.write(text)
csvf("e.csv","a,b\n")
csvf("one.csv","a,b\n1,x\n", bom=True)
csvf("three.csv",'a,b\r\n1,"x,1"\r\n2,"y\n2"\r\n3,zé\r\n')
csvf("blank.csv",'a,b\n1,x\n\n2,y\n')
csvf("short.csv",'a,b\n1\n2,y\n')
def t(name, body, **kw):
    r = "- plugin: snowfakery.standard_plugins.datasets.Dataset\n" + body
    try: print(name, "->", repr(run(r, **kw)))
    except DataGenError as e: print(name, "DGE", str(e)[:100].replace("\n"," "))
    except BaseException as e: print(name, "CRASH", type(e).__name__, str(e)[:100])
it = lambda f, n, extra="": f"""- object: A
  count: {n}
  fields:
    __r:
      Dataset.iterate:
        dataset: {f}{extra}
    a: ${{{{__r.a}}}}
    b: ${{{{__r.b}}}}
"""
t("empty_iter", it("e.csv",1))
t("one_iter3", it("one.csv",3))
t("three_iter7", it("three.csv",7))
t("three_norepeat4", it("three.csv",4,"\n        repeat: false"))
t("blank", it("blank.csv",3))
t("short", it("short.csv",2))
fe = lambda f: f"""- object: A
  for_each:
    var: r
    value:
      Dataset.iterate:
        dataset: {f}
  fields:
    a: ${{{{r.a}}}}
    ci: ${{{{child_index}}}}
"""
t("foreach_empty", fe("e.csv"))
t("foreach_three", fe("three.csv"))
t("foreach_three_2iter", fe("three.csv"), target_number=("A", 5))
