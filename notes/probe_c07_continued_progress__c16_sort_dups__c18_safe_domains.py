import io, warnings, tempfile, os
warnings.simplefilter("ignore")
from snowfakery import generate_data
def run(recipe, fmt="txt", **kw):
    out = io.StringIO()
    generate_data(io.StringIO(recipe), output_file=out, output_format=fmt, **kw)
    return out.getvalue()
# K7: continued run, first iteration makes no T
r = """
- object: M
- object: T
  count: ${{ 0 if M.id in (2,) else 1 }}
"""
d = tempfile.mkdtemp(); c = d+"/c.yml"
print(run(r, generate_continuation_file=c))
try: print("continued:", run(r, continuation_file=c, target_number=("T", 2)))
except Exception as e: print("ERR", type(e).__name__, e)
r0 = """
- object: M
- object: T
  count: 0
"""
try: print("fresh zero:", run(r0, target_number=("T", 2)))
except Exception as e: print("ERR", type(e).__name__, str(e)[:80])
# sort duplicates
from snowfakery.generate_mapping_from_recipe import sort_dependencies
from snowfakery.data_generator_runtime import Dependency
from snowfakery.utils.collections import OrderedSet
def os_(*d):
    s = OrderedSet()
    for x in d: s.add(x)
    return s
inf = {"A": os_(Dependency("A","B","f")), "B": os_(Dependency("B","A","g"))}
dec = {"B": os_(Dependency("B","A","(none)"))}
print(sort_dependencies(inf, dec, {"A":1,"B":1,"C":1}))
print(sort_dependencies(inf, {}, {"A":1,"B":1,"C":1}))
# C18 data
import faker
from faker.config import AVAILABLE_LOCALES
bad=[]
for loc in AVAILABLE_LOCALES:
    f = faker.Faker(loc)
    for prov in f.get_providers():
        if hasattr(prov, "safe_domain_names"):
            if not set(prov.safe_domain_names) <= {"example.org","example.com","example.net"}:
                bad.append((loc, prov.safe_domain_names))
print(len(AVAILABLE_LOCALES), "locales; bad safe domains:", bad)
