import io, warnings
warnings.simplefilter("ignore")
from snowfakery import generate_data
from snowfakery.output_streams import DebugOutputStream
import sys
def run(recipe, **kw):
    out = io.StringIO()
    generate_data(io.StringIO(recipe), output_file=out, output_format="txt", **kw)
    return out.getvalue()

r = """
- plugin: snowfakery.standard_plugins.Schedule
- object: E
  count: 5
  fields:
    d:
      Schedule.Event:
        start_date: 2023-03-01T10:00:00
        freq: minutely
        bysecond: 30
"""
print(run(r))
r = """
- plugin: snowfakery.standard_plugins.Schedule
- object: E
  count: 5
  fields:
    d:
      Schedule.Event:
        start_date: 2023-03-01T10:00:00
        freq: minutely
        bysecond: 5,30
"""
print(run(r))
