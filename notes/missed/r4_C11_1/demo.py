"""C11 demo 1: random_number with large bounds, used through a formula.

Every value must satisfy min <= x <= max and (x - min) % step == 0, also when the
call is written as a ${{ }} formula or when a bound comes from a variable.
"""
import io
import json
import sys

from snowfakery import generate_data

LO = 2**53 + 1  # 9007199254740993: the first integer a double cannot hold
HI = LO + 6
STEP = 2

RECIPE = f"""
- var: lo
  value: {LO}
- var: hi
  value: {HI}
- object: Big
  count: 40
  fields:
    literal:
      random_number:
        min: {LO}
        max: {HI}
        step: {STEP}
    in_formula: ${{{{random_number(min={LO}, max={HI}, step={STEP})}}}}
    bounds_from_vars:
      random_number:
        min: ${{{{lo}}}}
        max: ${{{{hi}}}}
        step: {STEP}
    pinned: ${{{{random_number(min={LO}, max={LO})}}}}
"""


def main():
    out = io.StringIO()
    generate_data(io.StringIO(RECIPE), output_file=out, output_format="json")
    rows = json.loads(out.getvalue())
    problems = []
    for row in rows:
        for name in ("literal", "in_formula", "bounds_from_vars"):
            x = row[name]
            if not (isinstance(x, int) and LO <= x <= HI and (x - LO) % STEP == 0):
                problems.append(f"row {row['id']}: {name}={x!r} is not on the lattice {LO}..{HI} step {STEP}")
        if row["pinned"] != LO:
            problems.append(f"row {row['id']}: pinned={row['pinned']!r}, min = max = {LO}")
    if problems:
        print("FAIL")
        for p in problems[:8]:
            print("  ", p)
        print(f"   ({len(problems)} violations in {len(rows)} rows)")
        return 1
    print("PASS")
    return 0


if __name__ == "__main__":
    sys.exit(main())
