"""unique random_reference scoped to a `parent` row that lives across iterations (just_once parent).

Targets and the parent are just_once; two Child rows are made per iteration, each
picking a Target with `unique: true, parent: Parent`.  The single Parent row is the
scope, so over the whole run no Target may be used twice and the 5th pick (third
iteration, only 4 targets) must fail.
"""
import io
import json
import sys

from snowfakery import generate_data
from snowfakery.data_gen_exceptions import DataGenError

RECIPE = """
- object: Target
  just_once: true
  count: 4
- object: Parent
  just_once: true
- object: Child
  count: 2
  fields:
    parent:
      reference: Parent
    target:
      random_reference:
        to: Target
        parent: Parent
        unique: true
"""


def run(children):
    out = io.StringIO()
    generate_data(
        io.StringIO(RECIPE),
        output_file=out,
        output_format="json",
        target_number=(children, "Child"),
    )
    rows = json.loads(out.getvalue())
    return [r["target"] for r in rows if r["_table"] == "Child"]


problems = []

# two iterations: 4 picks under the one Parent row, 4 targets -> a permutation of 1..4
for attempt in range(12):
    picks = run(4)
    if sorted(picks) != [1, 2, 3, 4]:
        problems.append(
            f"attempt {attempt}: 4 unique picks under one parent row were {picks} "
            "(a Target was used twice / one never used)"
        )
        break

# three iterations: 6 picks, only 4 targets -> must be an error
try:
    picks = run(6)
except DataGenError:
    pass
else:
    problems.append(
        f"6 unique picks from 4 targets under one parent row succeeded: {picks}"
    )

if problems:
    print("FAIL")
    for p in problems:
        print("  " + p)
    sys.exit(1)
print("PASS")
