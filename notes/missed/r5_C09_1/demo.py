"""C09 / change 1: a child row parked in a hidden field must stay reachable
through a random_reference to its parent, exactly as through a visible field."""
import io
import json
import sys

from snowfakery import generate_data

RECIPE = """
- snowfakery_version: 3
- object: Account
  count: 3
  fields:
    Name: Account ${{id}}
    %(field)s:
      - object: Contact
        fields:
          LastName: Primary of ${{Account.id}}
- object: Opportunity
  count: 4
  fields:
    __acc:
      random_reference: Account
    AccountId:
      reference: __acc
    ContactName: ${{__acc.%(field)s.LastName}}
    ContactId:
      reference: __acc.%(field)s
"""


def run(field):
    out = io.StringIO()
    generate_data(
        io.StringIO(RECIPE % {"field": field}), output_file=out, output_format="json"
    )
    rows = json.loads(out.getvalue())
    return [
        {k: v for k, v in row.items() if k != field}
        for row in rows
        if row["_table"] == "Opportunity"
    ]


def check(field):
    try:
        opps = run(field)
    except Exception as e:  # noqa
        return f"field `{field}`: generation failed: {type(e).__name__}: {str(e)[:300]}"
    if len(opps) != 4:
        return f"field `{field}`: expected 4 Opportunity rows, got {len(opps)}"
    for opp in opps:
        if any(key.startswith("__") for key in opp):
            return f"hidden name in output: {opp}"
        # Contact N is the child of Account N
        if opp["ContactId"] != opp["AccountId"] or opp[
            "ContactName"
        ] != f"Primary of {opp['AccountId']}":
            return f"field `{field}`: wrong child reached: {opp}"
    return None


visible_problem = check("primary")  # the same recipe with a visible field
hidden_problem = check("__primary")
if visible_problem:
    print("FAIL (visible variant is broken too):", visible_problem)
    sys.exit(1)
if hidden_problem:
    print("FAIL: the visible variant works, the hidden one does not ->", hidden_problem)
    sys.exit(1)
print("PASS")
