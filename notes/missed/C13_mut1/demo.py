"""C13 demo 1: ids handed out before and after a burst of differently-sized codes must not collide.

One recipe, one iteration, one process:
  * `Ticket` rows draw from a single NumericIdGenerator (template `index`),
  * then 140 `Coupon` rows each build an AlphaCodeGenerator with a different min_chars
    (8, 9, ... 147) and draw one code from it,
  * then `LateTicket` rows keep drawing from the *same* NumericIdGenerator.
All values must be pairwise distinct.
"""
import io
import json
import sys
from collections import Counter

from snowfakery import generate_data

RECIPE = """
- plugin: snowfakery.standard_plugins.UniqueId
- var: TicketNumbers
  value:
    UniqueId.NumericIdGenerator:
      template: index
- object: Ticket
  count: 2000
  fields:
    number: ${{TicketNumbers.unique_id}}
- object: Coupon
  count: 140
  fields:
    __codes:
      UniqueId.AlphaCodeGenerator:
        template: context,index
        min_chars: ${{7 + child_index}}
    code: ${{__codes.unique_id}}
- object: LateTicket
  count: 2000
  fields:
    number: ${{TicketNumbers.unique_id}}
"""


def main():
    out = io.StringIO()
    generate_data(io.StringIO(RECIPE), output_file=out, output_format="json")
    rows = json.loads(out.getvalue())
    values = []
    for row in rows:
        if row["_table"] in ("Ticket", "LateTicket"):
            values.append((row["number"], f"{row['_table']}#{row['id']}"))
        else:
            values.append((row["code"], f"Coupon#{row['id']}"))
    assert len(values) == 4140, len(values)
    counts = Counter(v for v, _ in values)
    dups = {v: [w for x, w in values if x == v] for v, n in counts.items() if n > 1}
    if dups:
        print(f"FAIL: {len(dups)} value(s) were handed out more than once in one run, e.g.")
        for v, who in list(dups.items())[:5]:
            print(f"   {v!r} -> {who}")
        return 1
    print(f"PASS: {len(values)} unique ids/codes, all pairwise distinct")
    return 0


if __name__ == "__main__":
    sys.exit(main())
