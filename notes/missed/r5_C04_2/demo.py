"""Split runs vs. one uninterrupted run: two just_once templates on one table, the later one
reached first through a forward reference, and a reference to the table by its name.

`Log.cfg` refers forward to `second`, so the row of `second` takes id 1 although it is
created after the row of `first` (id 2).  "The T row" (`reference: T`, `${{T.name}}`) is
the most recently created just_once row of T, i.e. `second` -- in every iteration of an
uninterrupted run, and therefore in every continued run too.
"""
import io
import json
import sys

from snowfakery import generate_data

RECIPE = """
- object: Log
  fields:
    cfg:
      reference: second
- object: T
  just_once: true
  nickname: first
  fields:
    name: one
- object: T
  just_once: true
  nickname: second
  fields:
    name: two
- object: Use
  fields:
    t:
      reference: T
    t_name: ${{T.name}}
    first_ref:
      reference: first
    second_ref:
      reference: second
"""


def run(reps, continuation=None):
    out, new_cont = io.StringIO(), io.StringIO()
    generate_data(
        io.StringIO(RECIPE),
        target_number=("__REPS__", reps),  # same as --reps
        output_format="json",
        output_file=out,
        continuation_file=io.StringIO(continuation) if continuation else None,
        generate_continuation_file=new_cont,
    )
    return json.loads(out.getvalue()), new_cont.getvalue()


failures = []
for cuts in ((2, 1), (1, 1, 1), (1, 2)):
    unsplit, _ = run(sum(cuts))
    split, cont = [], None
    for reps in cuts:
        rows, cont = run(reps, cont)
        split.extend(rows)
    if split != unsplit:
        diff = [(a, b) for a, b in zip(unsplit, split) if a != b]
        failures.append((cuts, diff))

if not failures:
    print("PASS: every split history equals the uninterrupted run")
    sys.exit(0)
print("FAIL: split runs differ from the uninterrupted run")
for cuts, diff in failures:
    print("  cuts", cuts)
    for a, b in diff:
        print("    uninterrupted:", a)
        print("    split        :", b)
sys.exit(1)
