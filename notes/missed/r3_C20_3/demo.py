"""C20 demo 3: a (valid) recipe that shares a YAML anchor many times, level upon level.

The document is a DAG of ~40 small lists; PyYAML loads it in linear time and the recipe
never looks into the structure (it is the default of an option / sits in an unused macro).

Unchanged code: data is generated in a few milliseconds.
Changed code: the recursive-alias check walks every *path* through the DAG (2**40) -> hang.
"""
import signal
import sys
import time
from io import StringIO

from snowfakery import generate_data
from snowfakery.data_gen_exceptions import DataGenError

LEVELS = 40
TIME_LIMIT = 10  # seconds; the unchanged code needs well under one


def shared_levels(indent):
    lines = [f"{indent}l0: &l0 [a, b]"]
    for i in range(1, LEVELS + 1):
        lines.append(f"{indent}l{i}: &l{i} [*l{i-1}, *l{i-1}]")
    return "\n".join(lines)


RECIPES = {
    "option default": f"""
- option: lookup
  default:
{shared_levels("    ")}
- object: Account
  fields:
    name: Acme
""",
    "unused macro": f"""
- macro: unused
  fields:
{shared_levels("    ")}
- object: Account
  fields:
    name: Acme
""",
}


class Timeout(BaseException):
    pass


def on_alarm(signum, frame):
    raise Timeout()


signal.signal(signal.SIGALRM, on_alarm)


def outcome(recipe):
    out = StringIO()
    start = time.time()
    signal.alarm(TIME_LIMIT)
    try:
        generate_data(StringIO(recipe), output_file=out, output_format="txt")
        kind = "generated " + repr(out.getvalue())
    except DataGenError as e:
        kind = "recipe error " + repr(str(e).splitlines()[0])
    except Timeout:
        kind = f"HANG (no answer after {TIME_LIMIT}s)"
    except BaseException as e:
        kind = f"INTERNAL {type(e).__name__}: {e}"
    finally:
        signal.alarm(0)
    return kind, time.time() - start


failures = []
for name, recipe in RECIPES.items():
    kind, seconds = outcome(recipe)
    print(f"{name}: {kind} after {seconds:.2f}s")
    if kind.startswith(("HANG", "INTERNAL")):
        failures.append(f"{name}: {kind}")

if failures:
    print("FAIL")
    for f in failures:
        print("  " + f)
    sys.exit(1)
print("PASS")
