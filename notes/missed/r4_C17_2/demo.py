"""One `Dataset.iterate` call whose `dataset:` argument is a formula.

Even rows of the template name `words_en.csv`, odd rows name `words_fr.csv`
(a per-row "pick the file by language" recipe).  Each file must be handed out
in its own order: the j-th row that names a file gets record (j mod n) of THAT
file.  A plain recipe with a fixed file name is run as well, as a control.
"""
import io
import json
import shutil
import sys
import tempfile
from pathlib import Path

from snowfakery import generate_data

work = Path(tempfile.mkdtemp(prefix="c17_demo2_", dir="/tmp"))
en = ["hello", "goodbye", "please"]  # n = 3
fr = ["bonjour", "au revoir"]  # n = 2
(work / "words_en.csv").write_text("word,lang\n" + "".join(f"{w},en\n" for w in en))
(work / "words_fr.csv").write_text("word,lang\n" + "".join(f"{w},fr\n" for w in fr))

RECIPE = f"""
- plugin: snowfakery.standard_plugins.datasets.Dataset
- object: Greeting
  count: 9
  fields:
    lang: ${{{{ 'en' if child_index % 2 == 0 else 'fr' }}}}
    __rec:
      Dataset.iterate:
        dataset: {work}/words_${{{{lang}}}}.csv
    word: ${{{{__rec.word}}}}
    file_lang: ${{{{__rec.lang}}}}
- object: Control
  count: 5
  fields:
    __rec:
      Dataset.iterate:
        dataset: {work}/words_fr.csv
    word: ${{{{__rec.word}}}}
"""

out = io.StringIO()
generate_data(io.StringIO(RECIPE), output_format="json", output_file=out)
rows = json.loads(out.getvalue())
shutil.rmtree(work, ignore_errors=True)

got = [(r["lang"], r["file_lang"], r["word"]) for r in rows if r["_table"] == "Greeting"]
seen = {"en": 0, "fr": 0}
want = []
for k in range(9):
    lang = "en" if k % 2 == 0 else "fr"
    words = en if lang == "en" else fr
    want.append((lang, lang, words[seen[lang] % len(words)]))
    seen[lang] += 1

control = [r["word"] for r in rows if r["_table"] == "Control"]
control_want = [fr[k % 2] for k in range(5)]

problems = []
if got != want:
    problems.append(f"Greeting rows: expected {want}\n                 got      {got}")
if control != control_want:
    problems.append(f"Control rows: expected {control_want}, got {control}")

if problems:
    print("FAIL")
    for p in problems:
        print("  " + p)
    sys.exit(1)
print("PASS")
