"""C02 demo 2: `random_reference` with `unique: true` to a table that grows between the picks
while the lower bound of the pick range stays the same."""
import random
import re
import sys
import warnings
from io import StringIO

from snowfakery import generate_data

# every Owner gets a Pet right away; the Pet picks a not-yet-used Owner
FRIENDS = """
- object: Owner
  count: 4
  friends:
    - object: Pet
      fields:
        owner:
          random_reference:
            to: Owner
            unique: true
"""

# the same thing over several iterations with the experimental global scope
GLOBAL_SCOPE = """
- object: Owner
  count: 2
- object: Pet
  count: 2
  fields:
    owner:
      random_reference:
        to: Owner
        unique: true
        scope: prior-and-current-iterations
"""

warnings.simplefilter("ignore")  # 'Global scope is an experimental feature'

ROW = re.compile(r"^(\w+)\((.*)\)$")
REF = re.compile(r"(\w+)=(\w+)\((\d+|None)\)")


def run(recipe, **kwargs):
    out = StringIO()
    generate_data(StringIO(recipe), output_file=out, output_format="txt", **kwargs)
    rows, refs = set(), []
    for line in out.getvalue().splitlines():
        m = ROW.match(line)
        table, body = m.group(1), m.group(2)
        rows.add((table, re.search(r"\bid=(\d+)", body).group(1)))
        for field, tgt_table, tgt_id in REF.findall(body):
            refs.append((table, field, tgt_table, tgt_id))
    return rows, refs


problems = []
for name, recipe, kwargs in [
    ("friends", FRIENDS, {}),
    ("global-scope", GLOBAL_SCOPE, {"target_number": ("Pet", 6)}),
]:
    for seed in range(25):
        random.seed(seed)
        rows, refs = run(recipe, **kwargs)
        dangling = [r for r in refs if (r[2], r[3]) not in rows]
        if dangling:
            owners = sorted(int(i) for t, i in rows if t == "Owner")
            problems.append(
                f"{name}, seed {seed}: Pet.owner -> {dangling[0][2]}({dangling[0][3]}) "
                f"but the Owner rows written are {owners}"
            )
            break

if problems:
    print("FAIL")
    print("\n".join(problems))
    sys.exit(1)
print("PASS")
