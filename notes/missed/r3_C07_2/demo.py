"""C07 demo 2: with a target of N rows of T the run must not stop before N rows
of T have really been created (whole iterations, first boundary that meets N)."""
import json
import sys
from io import StringIO

from snowfakery import generate_data

# Holder refers forward to the T rows of the same iteration twice:
# once through the nickname and once through the table name.
RECIPE = """
- object: Marker
- object: Holder
  fields:
    by_nick:
      reference: first_t
    by_table:
      reference: T
- object: T
  nickname: first_t
  count: 2
"""

N = 3


def main():
    out = StringIO()
    generate_data(
        StringIO(RECIPE), target_number=("T", N), output_format="json", output_file=out
    )
    rows = json.loads(out.getvalue())
    iterations = sum(1 for r in rows if r["_table"] == "Marker")
    t_ids = [r["id"] for r in rows if r["_table"] == "T"]
    # 2 rows of T per iteration: the first boundary with >= 3 rows is after iteration 2
    if iterations == 2 and len(t_ids) == 4 and t_ids == [1, 2, 3, 4]:
        print(f"PASS: {iterations} iterations, T ids {t_ids}")
        return 0
    print(
        f"FAIL: target T {N}: run stopped after {iterations} iteration(s) with "
        f"{len(t_ids)} rows of T (ids {t_ids}); expected 2 iterations / 4 rows"
    )
    return 1


if __name__ == "__main__":
    sys.exit(main())
