"""C07 demo 3: "a target naming a table the recipe cannot create is rejected before
any row is written".

The target names `acct` -- a NICKNAME used by the recipe, not a table. No template
creates rows of a table called `acct`, so the run must be rejected up front
(DataGenNameError "No template creating acct") with an empty output.
Also checked in a continued run.
"""
import sys
from io import StringIO

from snowfakery import generate_data

RECIPE = """
- object: Account
  nickname: acct
- object: Contact
  count: 2
  fields:
    AccountId:
      reference: acct
"""


def count_rows(text):
    return sum(1 for line in text.splitlines() if "(" in line)


def run(target, continuation=None):
    out, cont = StringIO(), StringIO()
    error = None
    try:
        generate_data(
            StringIO(RECIPE),
            target_number=target,
            output_file=out,
            output_format="txt",
            continuation_file=continuation,
            generate_continuation_file=cont,
        )
    except Exception as e:  # noqa
        error = e
    return out.getvalue(), cont.getvalue(), error


def main():
    problems = []

    text, _, error = run(("acct", 2))
    obs1 = f"fresh: error={type(error).__name__} rows_written={count_rows(text)}"
    if error is None or count_rows(text) != 0:
        problems.append(obs1)

    text1, cont1, error1 = run(("Account", 1))
    assert error1 is None and count_rows(text1) == 3, (text1, error1)
    text2, _, error2 = run(("acct", 2), continuation=StringIO(cont1))
    obs2 = f"continued: error={type(error2).__name__} rows_written={count_rows(text2)}"
    if error2 is None or count_rows(text2) != 0:
        problems.append(obs2)

    if problems:
        print("FAIL", "; ".join(problems), "(expected rejection with 0 rows written)")
        return 1
    print("PASS", obs1, ";", obs2)
    return 0


if __name__ == "__main__":
    sys.exit(main())
