"""C15 demo 3: every template that uses Schedule.Event gets the whole recurrence.

A macro holds a `Due` field defined with Schedule.Event (monthly, on the 31st / last
days: bymonthday 31).  Two templates include the macro.  Each template has its own
schedule, so each must list the first four occurrences in order and without gaps.
The same recipe with the field written out in both templates is the control.
"""
import json
import sys
from datetime import datetime, timezone
from io import StringIO

from dateutil import rrule

from snowfakery import generate_data

WITH_MACRO = """
- snowfakery_version: 3
- plugin: snowfakery.standard_plugins.Schedule
- macro: has_due_date
  fields:
    Due:
      Schedule.Event:
        start_date: 2024-01-15
        freq: monthly
        bymonthday: 31
- object: Invoice
  count: 4
  include: has_due_date
  fields:
    Name: invoice
- object: Reminder
  count: 4
  include: has_due_date
  fields:
    Name: reminder
"""

WRITTEN_OUT = """
- snowfakery_version: 3
- plugin: snowfakery.standard_plugins.Schedule
- object: Invoice
  count: 4
  fields:
    Name: invoice
    Due:
      Schedule.Event:
        start_date: 2024-01-15
        freq: monthly
        bymonthday: 31
- object: Reminder
  count: 4
  fields:
    Name: reminder
    Due:
      Schedule.Event:
        start_date: 2024-01-15
        freq: monthly
        bymonthday: 31
"""


def run(recipe):
    out = StringIO()
    generate_data(StringIO(recipe), output_format="json", output_file=out)
    rows = json.loads(out.getvalue())
    return {
        table: [r["Due"] for r in rows if r["_table"] == table]
        for table in ("Invoice", "Reminder")
    }


def main():
    start = datetime(2024, 1, 15, tzinfo=timezone.utc)
    want = [
        str(d.date())
        for d in rrule.rrule(rrule.MONTHLY, dtstart=start, bymonthday=[31], count=4)
    ]
    failures = []
    for name, recipe in (("macro", WITH_MACRO), ("written out", WRITTEN_OUT)):
        for table, got in run(recipe).items():
            if got != want:
                failures.append(
                    f"{name}, {table}: expected {want}, observed {got}"
                )
    if failures:
        print("FAIL")
        for f in failures:
            print("  " + f)
        return 1
    print("PASS")
    return 0


if __name__ == "__main__":
    sys.exit(main())
