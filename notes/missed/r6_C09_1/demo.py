"""C09 demo 1: a hidden table must not show up as a node of the diagram outputs (dot / svg / png ...)."""
import io
import sys

from snowfakery import generate_data

RECIPE = """
- object: __Region            # hidden helper table: never written anywhere
  nickname: region
  fields:
    name: EMEA
- object: Account
  count: 2
  fields:
    name: Acme ${{id}}
    region_name: ${{region.name}}
    region_ref:               # a VISIBLE field that refers to the hidden row
      reference: region
"""


def run(fmt):
    out = io.StringIO()
    generate_data(io.StringIO(RECIPE), output_file=out, output_format=fmt)
    return out.getvalue()


def main():
    # sanity: the row streams never had the hidden table as a row/table
    json_out = run("json")
    assert '"_table": "__Region"' not in json_out, json_out
    assert '"_table": "Account"' in json_out, json_out

    dot = run("dot")
    leaked = [line.strip() for line in dot.splitlines() if "__Region" in line]
    if leaked:
        print("FAIL: hidden table __Region is drawn in the dot output:")
        for line in leaked:
            print("   ", line)
        return 1
    print("PASS: no node / label of the dot output names the hidden table")
    return 0


if __name__ == "__main__":
    sys.exit(main())
