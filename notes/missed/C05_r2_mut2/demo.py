"""C05 demo 2: the just_once row reachable by TABLE NAME must be the same row before and after a load,
also when the table has several just_once templates."""
import json
import sys
from io import StringIO

import yaml

from snowfakery import generate_data

# Two just_once templates of the table Region. In a live run the table name `Region`
# means the row registered last (id 2).
RECIPES = {
    "nicknames in reverse alphabetical order": """
- object: Region
  nickname: West
  just_once: true
  fields:
    name: west
- object: Region
  nickname: East
  just_once: true
  fields:
    name: east
- object: Shop
  fields:
    by_table: ${{Region.name}}
    region:
      reference: Region
    west: ${{West.name}}
    east: ${{East.name}}
""",
    "nicknamed template followed by an anonymous one": """
- object: Region
  nickname: Home
  just_once: true
  fields:
    name: home
- object: Region
  just_once: true
  fields:
    name: abroad
- object: Shop
  fields:
    by_table: ${{Region.name}}
    region:
      reference: Region
    home: ${{Home.name}}
""",
}


def run(recipe, continuation=None):
    out, cont = StringIO(), StringIO()
    generate_data(
        StringIO(recipe),
        output_file=out,
        output_format="json",
        continuation_file=StringIO(continuation) if continuation else None,
        generate_continuation_file=cont,
    )
    rows = json.loads(out.getvalue())
    (shop,) = [r for r in rows if r["_table"] == "Shop"]
    shop = {k: v for k, v in shop.items() if k not in ("id", "_table")}
    return shop, cont.getvalue()


problems = []
for title, recipe in RECIPES.items():
    expected, file1 = run(recipe)
    by_table1 = yaml.safe_load(file1)["persistent_objects_by_table"]["Region"]["_values"]
    prev = file1
    for step in (2, 3):
        shop, nxt = run(recipe, prev)
        if shop != expected:
            problems.append(f"{title}: run {step} Shop sees {shop}, run 1 saw {expected}")
        by_table = yaml.safe_load(nxt)["persistent_objects_by_table"]["Region"]["_values"]
        if by_table != by_table1:
            problems.append(
                f"{title}: file {step} says Region is {by_table}, file 1 said {by_table1}"
            )
        prev = nxt

if problems:
    print("FAIL")
    for p in problems:
        print("  " + p)
    sys.exit(1)
print("PASS")
