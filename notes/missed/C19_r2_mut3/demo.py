"""C19 demo 3: a recipe must be generated from the files as they are now, whatever ran before.

An embedding application keeps a work directory with two job recipes that both include a
`settings.yml` which the application (re)writes before every job.

Run 1: settings say EMEA / 2 accounts, job A is generated.
Then the application rewrites settings.yml (APAC / 3 accounts) and
Run 2: generates job B. Job B's rows must reflect the settings file that is on disk.
"""
import sys
import tempfile
import textwrap
from io import StringIO
from pathlib import Path

from snowfakery import generate_data

SETTINGS = """
- var: region
  value: {region}
- var: how_many
  value: {how_many}
- macro: audit_fields
  fields:
    source: {region}-import
"""

JOB_A = """
- include_file: settings.yml
- object: Account
  count: ${{how_many}}
  include: audit_fields
  fields:
    region: ${{region}}
"""

JOB_B = """
- include_file: settings.yml
- object: Contact
  count: ${{how_many}}
  include: audit_fields
  fields:
    region: ${{region}}
"""


def run(recipe_path):
    out = StringIO()
    generate_data(recipe_path, output_file=out, output_format="txt")
    return out.getvalue().splitlines()


def main():
    with tempfile.TemporaryDirectory(dir="/tmp", prefix="c19demo3_") as tmp:
        work = Path(tmp)
        (work / "job_a.yml").write_text(textwrap.dedent(JOB_A))
        (work / "job_b.yml").write_text(textwrap.dedent(JOB_B))
        settings = work / "settings.yml"

        settings.write_text(textwrap.dedent(SETTINGS).format(region="EMEA", how_many=2))
        first = run(work / "job_a.yml")

        settings.write_text(textwrap.dedent(SETTINGS).format(region="APAC", how_many=3))
        second = run(work / "job_b.yml")

    expected_first = [
        f"Account(id={i}, source=EMEA-import, region=EMEA)" for i in (1, 2)
    ]
    expected_second = [
        f"Contact(id={i}, source=APAC-import, region=APAC)" for i in (1, 2, 3)
    ]
    if first == expected_first and second == expected_second:
        print("PASS: job B was generated from the current settings.yml:", second)
        return 0
    print("FAIL: job B's output depends on the job that was generated before it")
    print("  run 1 (job A, settings EMEA/2):", first)
    print("  run 2 (job B, settings APAC/3):", second)
    print("  run 2 expected                :", expected_second)
    return 1


if __name__ == "__main__":
    sys.exit(main())
