"""C05 demo 1: id counters after loading a continuation file.

A table (Account) has one just_once row and ordinary rows, and is the target
of a random_reference.  A continued run must go on numbering Account where the
previous run stopped, and the continuation files must record those counters.
"""
import io
import json
import sys
import warnings

import yaml

from snowfakery import generate_data

warnings.simplefilter("ignore")

RECIPE = """
- object: Account
  just_once: true
  nickname: hq
  fields:
    name: Headquarters
- object: Account
  count: 2
  fields:
    name: Branch
- object: Contact
  fields:
    employer:
      random_reference: Account
"""


def run(continuation_text=None):
    out, cont = io.StringIO(), io.StringIO()
    generate_data(
        io.StringIO(RECIPE),
        output_file=out,
        output_format="json",
        continuation_file=io.StringIO(continuation_text) if continuation_text else None,
        generate_continuation_file=cont,
    )
    rows = json.loads(out.getvalue())
    account_ids = [r["id"] for r in rows if r["_table"] == "Account"]
    counters = yaml.safe_load(cont.getvalue())["id_manager"]["last_used_ids"]
    return account_ids, counters, cont.getvalue()


problems = []
seen = []
text = None
expected_next = 1
for step in range(1, 4):  # first run, continuation, continuation of the continuation
    ids, counters, text = run(text)
    n = 3 if step == 1 else 2
    expected = list(range(expected_next, expected_next + n))
    expected_next += n
    if ids != expected:
        problems.append(f"run {step}: Account ids {ids}, expected {expected}")
    if counters.get("Account") != expected[-1]:
        problems.append(
            f"run {step}: continuation file says Account={counters.get('Account')}, expected {expected[-1]}"
        )
    seen.extend(ids)

if len(seen) != len(set(seen)):
    problems.append(f"duplicate Account ids over the chain of runs: {seen}")

if problems:
    print("FAIL")
    for p in problems:
        print("  " + p)
    sys.exit(1)
print("PASS")
