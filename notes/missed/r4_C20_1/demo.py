"""C20 demo 1: a `for_each` that lacks `var`, in a recipe that also has a `var` statement.

PASS: every malformed recipe below is rejected with a DataGenError and no row is written.
FAIL: an internal exception escapes, or rows are written before the rejection.
"""
import io
import sys

from snowfakery import generate_data
from snowfakery.data_gen_exceptions import DataGenError

# the var statement comes first; the for_each further down has lost its `var` key
MISSING_VAR = """
- var: greeting
  value: hello
- object: Parent
  fields:
    name: ${{greeting}}
- object: Child
  for_each:
    value:
      Dataset.iterate:
        dataset: nothing.csv
  fields:
    name: x
"""

# same, but the for_each value was replaced by a number
NUMBER_VALUE = """
- var: greeting
  value: hello
- object: Parent
  fields:
    name: ${{greeting}}
- object: Child
  for_each:
    var: row
    value: 5
  fields:
    name: x
"""

# control: the same two faults without the var statement
MISSING_VAR_ALONE = MISSING_VAR.replace("- var: greeting\n  value: hello\n", "").replace(
    "${{greeting}}", "hello"
)


def attempt(label, recipe):
    out = io.StringIO()
    try:
        generate_data(io.StringIO(recipe), output_file=out, output_format="json")
    except DataGenError as e:
        rows = out.getvalue().strip()
        if rows:
            return f"{label}: {type(e).__name__} only after rows were written: {rows[:70]!r}"
        return None
    except Exception as e:  # internal failure
        return f"{label}: internal {type(e).__name__}: {e}"
    return f"{label}: accepted, wrote {out.getvalue()[:70]!r}"


problems = [
    p
    for p in (
        attempt("for_each without var, after a var statement", MISSING_VAR),
        attempt("for_each value 5, after a var statement", NUMBER_VALUE),
        attempt("for_each without var, no var statement", MISSING_VAR_ALONE),
    )
    if p
]
if problems:
    print("FAIL")
    for p in problems:
        print("  " + p)
    sys.exit(1)
print("PASS")
