"""C05 demo 2: a continuation file is loaded by a fresh process.

A just_once row keeps a value produced by a recipe-local plugin (a PluginResult
subclass).  Each run happens in its own Python process, as it does when the
`snowfakery` command line is used: run 1 writes a continuation file, run 2 and
run 3 (a continuation of the continuation) must load it and see the value.
"""
import io
import json
import shutil
import subprocess
import sys
import tempfile
import warnings
from pathlib import Path

PLUGIN = '''
from snowfakery import SnowfakeryPlugin
from snowfakery.plugins import PluginResult


class Point(PluginResult):
    def __init__(self, lat, lon):
        super().__init__({"lat": lat, "lon": lon})


class Geo(SnowfakeryPlugin):
    class Functions:
        def point(self, lat, lon):
            return Point(lat, lon)
'''

RECIPE = """
- plugin: c05_geo_plugin.Geo
- object: Office
  just_once: true
  nickname: hq
  fields:
    name: Headquarters
    __where:
      Geo.point:
        lat: 48.5
        lon: 2.25
- object: Visit
  fields:
    lat: ${{hq.__where.lat}}
    lon: ${{hq.__where.lon}}
    kind: ${{hq.__where.__class__.__name__}}
"""


def one_run(workdir, step):
    """Executed in a child process: one call of generate_data."""
    warnings.simplefilter("ignore")
    from snowfakery import generate_data

    workdir = Path(workdir)
    out = io.StringIO()
    previous = workdir / f"cont{step - 1}.yml"
    generate_data(
        workdir / "recipe.yml",
        output_file=out,
        output_format="json",
        continuation_file=previous if step > 1 else None,
        generate_continuation_file=workdir / f"cont{step}.yml",
    )
    rows = json.loads(out.getvalue())
    print(json.dumps([r for r in rows if r["_table"] == "Visit"]))


def main():
    workdir = Path(tempfile.mkdtemp(prefix="c05_demo2_", dir="/tmp"))
    try:
        (workdir / "plugins").mkdir()
        (workdir / "plugins" / "c05_geo_plugin.py").write_text(PLUGIN)
        (workdir / "recipe.yml").write_text(RECIPE)
        problems = []
        for step in (1, 2, 3):
            proc = subprocess.run(
                [sys.executable, __file__, "--child", str(workdir), str(step)],
                capture_output=True,
                text=True,
            )
            if proc.returncode != 0:
                last = proc.stderr.strip().splitlines()[-3:]
                problems.append(f"run {step} failed: " + " | ".join(last))
                break
            visits = json.loads(proc.stdout.strip().splitlines()[-1])
            want = {"lat": 48.5, "lon": 2.25, "kind": "Point"}
            got = {k: visits[0].get(k) for k in want} if visits else None
            if len(visits) != 1 or got != want or visits[0]["id"] != step:
                problems.append(f"run {step}: Visit rows {visits}, expected id {step} with {want}")
        if problems:
            print("FAIL")
            for p in problems:
                print("  " + p)
            return 1
        print("PASS")
        return 0
    finally:
        shutil.rmtree(workdir, ignore_errors=True)


if __name__ == "__main__":
    if len(sys.argv) == 4 and sys.argv[1] == "--child":
        one_run(sys.argv[2], int(sys.argv[3]))
    else:
        sys.exit(main())
