"""C07 demo 3: the target counts ROWS of T created in this run. A template may
assign the `id` field of its rows itself (a fixed root row, ids taken from another
system); that must not change how many rows the run thinks it has created."""
import sys
from io import StringIO

from snowfakery import generate_data

# one fixed, hand-numbered root row (created once) and ordinary rows every iteration
ROOT_AND_LEAVES = """
- object: Marker
  fields:
    x: 1
- object: T
  just_once: true
  fields:
    id: 1000
    name: root
- object: T
  count: 2
  fields:
    name: leaf
"""

# every row of T carries an id from "another system"; U is an ordinary table
FOREIGN_IDS = """
- object: Marker
  fields:
    x: 1
- object: T
  fields:
    id: ${{ 500 + this.id }}
    name: imported
- object: U
  count: 2
  fields:
    x: 1
"""


def run(recipe, target, continuation=None):
    out, cont = StringIO(), StringIO()
    error = None
    try:
        generate_data(
            StringIO(recipe),
            target_number=target,
            continuation_file=StringIO(continuation) if continuation else None,
            generate_continuation_file=cont,
            output_file=out,
            output_format="txt",
        )
    except Exception as e:  # noqa
        error = e
    text = out.getvalue()
    return error, text.count("Marker("), text.count("T("), cont.getvalue()


def main():
    problems = []

    def check(label, result, iterations, min_rows):
        error, seen, t_rows, _ = result
        if error is not None or seen != iterations or t_rows < min_rows:
            problems.append(
                f"{label}: expected {iterations} iterations and >= {min_rows} rows of T; observed "
                f"{seen} iteration(s), {t_rows} rows of T"
                + (f", {type(error).__name__}: {str(error)[:80]}" if error else "")
            )

    # fresh: root + 2 leaves in iteration 1, 2 leaves afterwards -> 7 rows need 3 iterations
    first = run(ROOT_AND_LEAVES, ("T", 7))
    check("fresh run, root row with id 1000, target (T, 7)", first, 3, 7)
    # continued: the root row is not made again; 5 rows need 3 iterations of 2 leaves
    if first[0] is None:
        second = run(ROOT_AND_LEAVES, (5, "T"), continuation=first[3])
        check("continued run, target (5, T)", second, 3, 5)
    # all rows of T carry explicit ids, one row per iteration
    check("fresh run, every T row sets its id, target (T, 3)", run(FOREIGN_IDS, ("T", 3)), 3, 3)
    # control: a table without explicit ids in the same recipe
    error, seen, _, _ = run(FOREIGN_IDS, ("U", 5))
    if error is not None or seen != 3:
        problems.append(f"control target (U, 5): expected 3 iterations, observed {seen}, {error}")

    if problems:
        print("FAIL")
        for p in problems:
            print("  -", p)
        sys.exit(1)
    print("PASS")


if __name__ == "__main__":
    main()
