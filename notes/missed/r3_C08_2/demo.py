"""C08 change 2: the SQL/CSV schema must contain every field of every template of a
table, also when the templates come from different files (include_file)."""
import csv
import io
import json
import sqlite3
import sys
import tempfile
from pathlib import Path

from snowfakery import generate_data

INCLUDED = """\
- snowfakery_version: 3
- object: Account
  fields:
    Name: Included Inc.
- object: Contact
  fields:
    LastName: Smith
"""

# `- object: Account` is on line 2 here as well as in the included file
MAIN = """\
- include_file: c08_included.yml
- object: Account
  fields:
    Website: https://main.example.com
    Employees: 17
"""

EXPECTED = {
    ("Account", 1): {"Name": "Included Inc."},
    ("Account", 2): {"Website": "https://main.example.com", "Employees": "17"},
    ("Contact", 1): {"LastName": "Smith"},
}


def normalise(rows):
    """{(table, id): {field: str(value)}} without nulls / empty cells"""
    return {
        key: {k: str(v) for k, v in fields.items() if v not in (None, "")}
        for key, fields in rows.items()
    }


problems = []
with tempfile.TemporaryDirectory(prefix="c08_r3_demo2_") as tmp:
    tmp = Path(tmp)
    (tmp / "c08_included.yml").write_text(INCLUDED)
    recipe = tmp / "c08_main.yml"
    recipe.write_text(MAIN)

    # reference: JSON has no schema
    out = io.StringIO()
    generate_data(recipe, output_file=out, output_format="json")
    got = {}
    for row in json.loads(out.getvalue()):
        table, id_ = row.pop("_table"), row.pop("id")
        got[table, id_] = row
    if normalise(got) != EXPECTED:
        problems.append(f"json: {normalise(got)}")

    # SQL database
    db = tmp / "out.db"
    try:
        generate_data(recipe, dburl=f"sqlite:///{db}")
        con = sqlite3.connect(db)
        con.row_factory = sqlite3.Row
        got = {}
        for table in ("Account", "Contact"):
            for row in con.execute(f"select * from {table}"):
                row = dict(row)
                got[table, row.pop("id")] = row
        con.close()
        if normalise(got) != EXPECTED:
            problems.append(f"dburl: run succeeded but database holds {normalise(got)}")
    except Exception as e:
        problems.append(f"dburl: {type(e).__name__}: {e}")

    # CSV folder
    folder = tmp / "csvs"
    try:
        generate_data(recipe, output_format="csv", output_folder=folder)
        got = {}
        for table in ("Account", "Contact"):
            with open(folder / f"{table}.csv", newline="") as f:
                for row in csv.DictReader(f):
                    got[table, int(row.pop("id"))] = row
        if normalise(got) != EXPECTED:
            problems.append(f"csv: run succeeded but files hold {normalise(got)}")
    except Exception as e:
        problems.append(f"csv: {type(e).__name__}: {e}")

if problems:
    print("FAIL")
    for p in problems:
        print("  " + p)
    sys.exit(1)
print("PASS")
