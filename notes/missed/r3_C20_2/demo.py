"""C20 demo 2: a template whose table name / nickname contains `{` or `}` and whose
generation fails outside of field rendering (count taken from a plugin function that
does not exist; unknown Faker locale).

Unchanged code: DataGenError "Cannot generate <name> : ...".
Changed code: KeyError / IndexError / ValueError from str.format escape.
"""
import sys
from io import StringIO

from snowfakery import generate_data
from snowfakery.data_gen_exceptions import DataGenError

RECIPES = {
    "count from a missing plugin function, nickname with braces": """
- plugin: snowfakery.standard_plugins.Counters
- object: Account
  nickname: acct{main}
  count:
    Counters.no_such_function: 3
  fields:
    name: Acme
""",
    "unknown locale, table name with {}": """
- var: snowfakery_locale
  value: xx_QQ
- object: Row{}
  fields:
    name: x
""",
    "count from a missing plugin function, lone brace in table name": """
- plugin: snowfakery.standard_plugins.Counters
- object: "Set}"
  count:
    Counters.no_such_function: 3
""",
    # control: same faults, ordinary names -> must be a recipe error in both versions
    "control: ordinary name": """
- plugin: snowfakery.standard_plugins.Counters
- object: Account
  nickname: main
  count:
    Counters.no_such_function: 3
""",
}


def outcome(recipe):
    out = StringIO()
    try:
        generate_data(StringIO(recipe), output_file=out, output_format="txt")
    except DataGenError as e:
        return "recipe error", str(e).splitlines()[0]
    except BaseException as e:  # internal failure
        return "INTERNAL " + type(e).__name__, str(e)
    return "generated", out.getvalue()


failures = []
for name, recipe in RECIPES.items():
    kind, message = outcome(recipe)
    print(f"{name}: {kind}: {message!r}")
    if kind != "recipe error":
        failures.append(f"{name}: expected a recipe error, observed {kind}: {message}")

if failures:
    print("FAIL")
    for f in failures:
        print("  " + f)
    sys.exit(1)
print("PASS")
