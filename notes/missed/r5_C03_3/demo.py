"""The version-2 dialect turns strings of ASCII digits into numbers -- and only those."""
import io
import json
import sys

from snowfakery import generate_data

RECIPE = """
- snowfakery_version: %d
- var: arabic_indic
  value: "٤٢"
- object: Row
  count: 2
  fields:
    ascii: "42"
    literal: "٤٢"
    formula: ${{ arabic_indic }}
    fullwidth: ${{ "１２" if child_index else "१२" }}
    mixed: "٤٢ items"
"""


def run(recipe):
    out = io.StringIO()
    generate_data(io.StringIO(recipe), output_format="json", output_file=out)
    return [
        (r["_table"], {k: v for k, v in r.items() if k != "_table"})
        for r in json.loads(out.getvalue())
    ]


def expected(ascii_value):
    return [
        (
            "Row",
            {
                "id": i + 1,
                "ascii": ascii_value,
                "literal": "٤٢",
                "formula": "٤٢",
                "fullwidth": "１２" if i else "१२",
                "mixed": "٤٢ items",
            },
        )
        for i in range(2)
    ]


problems = []
for version, ascii_value in ((2, 42), (3, "42")):
    observed = run(RECIPE % version)
    if observed != expected(ascii_value):
        problems.append((version, expected(ascii_value), observed))

if not problems:
    print("PASS")
    sys.exit(0)
for version, exp, obs in problems:
    print(f"FAIL (snowfakery_version {version}): expected {exp!a}")
    print(f"      observed {obs!a}")
sys.exit(1)
