"""C07 demo 1: relative counting in a continued run when one SnowfakeryApplication
object drives both the first run and its continuation (the embedding pattern).

Run 1: target 4 rows of A (2 per iteration)  -> 2 iterations, A ids 1..4
Run 2: continuation, same application object, same target -> must again create
       >= 4 NEW rows of A, stopping at the first boundary: 2 iterations, ids 5..8.
"""
import sys
from io import StringIO

from snowfakery import generate_data
from snowfakery.api import SnowfakeryApplication
from snowfakery.data_generator_runtime import StoppingCriteria

RECIPE = """
- object: A
  count: 2
- object: B
"""


def count_rows(text, table):
    return sum(1 for line in text.splitlines() if line.startswith(table + "("))


def main():
    app = SnowfakeryApplication(StoppingCriteria("A", 4))

    out1, cont1 = StringIO(), StringIO()
    generate_data(
        StringIO(RECIPE),
        parent_application=app,
        output_file=out1,
        output_format="txt",
        generate_continuation_file=cont1,
    )
    a1, b1 = count_rows(out1.getvalue(), "A"), count_rows(out1.getvalue(), "B")

    out2, cont2 = StringIO(), StringIO()
    generate_data(
        StringIO(RECIPE),
        parent_application=app,
        output_file=out2,
        output_format="txt",
        continuation_file=StringIO(cont1.getvalue()),
        generate_continuation_file=cont2,
    )
    a2, b2 = count_rows(out2.getvalue(), "A"), count_rows(out2.getvalue(), "B")

    observed = f"run1: A={a1} iterations={b1}; run2 (continued): A={a2} iterations={b2}"
    if (a1, b1, a2, b2) == (4, 2, 4, 2):
        print("PASS", observed)
        return 0
    print("FAIL", observed, "(expected A=4 iterations=2 in both runs)")
    return 1


if __name__ == "__main__":
    sys.exit(main())
