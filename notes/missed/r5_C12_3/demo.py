"""C12 demo 3: unique random_reference scoped by `parent`, the parent being a plain value.

Members come in batches of four (`batch` is a field of the Member row computed by a
formula); within a batch every Member must get a different Campaign, and since there
are four Campaigns every batch must use each Campaign exactly once.  The same recipe
is run with small batch numbers (0, 1, 2) and with large ones (1000, 1001, 1002).
"""
import io
import json
import random
import sys

from snowfakery import generate_data

RECIPE = """
- object: Campaign
  count: 4
- object: Member
  count: 12
  fields:
    batch: ${{{{ {base} + (child_index / 4) | int }}}}
    CampaignId:
      random_reference:
        to: Campaign
        parent: batch
        unique: true
"""


def run(base, seed):
    random.seed(seed)
    out = io.StringIO()
    try:
        generate_data(
            io.StringIO(RECIPE.format(base=base)), output_format="json", output_file=out
        )
    except Exception as e:
        return f"{type(e).__name__}: {str(e).splitlines()[0]}"
    rows = [r for r in json.loads(out.getvalue()) if r["_table"] == "Member"]
    batches = {}
    for r in rows:
        batches.setdefault(r["batch"], []).append(r["CampaignId"])
    return batches


problems = []
for base in (0, 100, 1000, 70000):
    for seed in range(5):
        got = run(base, seed)
        ok = isinstance(got, dict) and all(
            sorted(v) == [1, 2, 3, 4] for v in got.values()
        )
        if not ok:
            problems.append((base, seed, got))

if problems:
    print(f"FAIL: {len(problems)} runs used a Campaign twice within one batch")
    for base, seed, got in problems[:4]:
        print(f"  batch numbers from {base}, seed {seed}: {got}")
    sys.exit(1)
print("PASS: every batch referenced each of the 4 Campaigns exactly once")
