"""C07 demo 2: target_number may be given as (number, name) or (name, number); both
orders must behave the same for every legal table name - also for a table whose
name consists of digits (`- object: "2024"`)."""
import sys
from io import StringIO

from snowfakery import generate_data

RECIPE = """
- object: Marker
  fields:
    x: 1
- object: "2024"          # a table named after a year: legal, quoted so YAML reads text
  count: 2
  fields:
    amount: 10
- object: Account
  fields:
    x: 1
"""


def run(target):
    out = StringIO()
    error = None
    try:
        generate_data(
            StringIO(RECIPE), target_number=target, output_file=out, output_format="txt"
        )
    except Exception as e:  # noqa
        error = e
    text = out.getvalue()
    return error, text.count("Marker("), text.count("2024("), text.count("Account(")


def main():
    problems = []
    cases = [
        # target, expected iterations, table index in the counts (1: "2024", 2: Account), n
        ((5, "2024"), 3, 1, 5),  # number first: ceil(5/2)
        (("2024", 5), 3, 1, 5),  # name first: must be the same run
        (("2024", 2), 1, 1, 2),
        (("Account", 3), 3, 2, 3),
        ((3, "Account"), 3, 2, 3),
    ]
    for target, iterations, idx, n in cases:
        result = run(target)
        error, seen = result[0], result[1]
        rows = result[1 + idx]
        if error is not None or seen != iterations or rows < n:
            problems.append(
                f"target {target!r}: expected {iterations} iterations and >= {n} rows, no error; "
                f"observed {seen} iteration(s), {rows} rows, "
                f"error={type(error).__name__ if error else None}: {str(error)[:70] if error else ''}"
            )

    if problems:
        print("FAIL")
        for p in problems:
            print("  -", p)
        sys.exit(1)
    print("PASS")


if __name__ == "__main__":
    main()
