"""Hidden (`__`) fields that reach a template through an included macro must not be emitted."""
import io
import json
import sys

from snowfakery import generate_data

RECIPE = """
- snowfakery_version: 3
- macro: with_base
  fields:
    __base: 10
- object: Plain
  fields:
    __own: 5
    value: ${{ __own + 1 }}
- object: Mixed
  include: with_base
  fields:
    __own: 1
    total: ${{ __base + __own }}
- object: ViaMacro
  include: with_base
  count: 2
  fields:
    total: ${{ __base + child_index }}
"""


def run(recipe):
    out = io.StringIO()
    generate_data(io.StringIO(recipe), output_format="json", output_file=out)
    return [
        (r["_table"], {k: v for k, v in r.items() if k != "_table"})
        for r in json.loads(out.getvalue())
    ]


expected = [
    ("Plain", {"id": 1, "value": 6}),
    ("Mixed", {"id": 1, "total": 11}),
    ("ViaMacro", {"id": 1, "total": 10}),
    ("ViaMacro", {"id": 2, "total": 11}),
]
observed = run(RECIPE)
if observed == expected:
    print("PASS")
    sys.exit(0)
print("FAIL: expected", expected)
print("      observed", observed)
sys.exit(1)
