"""C17 demo 3: for_each nested in another for_each template, where the inner dataset file
is named by the outer record; and update mode asked for more rows than the input file has.

A for_each template must emit exactly one row per record of *its* input, in input order,
and stop; running out of input records is an error, never silent reuse.
"""
import json
import sys
import tempfile
from io import StringIO
from pathlib import Path

from snowfakery import generate_data

NESTED_RECIPE = """
- snowfakery_version: 3
- plugin: snowfakery.standard_plugins.datasets.Dataset
- object: Region
  for_each:
    var: region
    value:
      Dataset.iterate:
        dataset: regions.csv
  fields:
    name: ${{region.name}}
  friends:
    - object: Town
      for_each:
        var: town
        value:
          Dataset.iterate:
            dataset: ${{region.towns_file}}
      fields:
        region: ${{region.name}}
        name: ${{town.name}}
"""

UPDATE_RECIPE = """
- snowfakery_version: 3
- object: Contact
  fields:
    City: ${{input.City}}
"""

FILES = {
    "regions.csv": "name,towns_file\nNorth,north.csv\nSouth,south.csv\nIsles,isles.csv\n",
    "north.csv": "name\nAlta\nTromso\n",
    "south.csv": "name\nFaro\nLagos\nTavira\n",
    "isles.csv": "name\nSkye\n",
    "contacts.csv": "Oid,City\n003A,Oslo\n003B,Bergen\n003C,Narvik\n",
}

EXPECTED_TOWNS = [
    ("North", "Alta"),
    ("North", "Tromso"),
    ("South", "Faro"),
    ("South", "Lagos"),
    ("South", "Tavira"),
    ("Isles", "Skye"),
]


def nested(workdir):
    out = StringIO()
    generate_data(str(workdir / "nested.yml"), output_format="json", output_file=out)
    rows = json.loads(out.getvalue())
    towns = [(r["region"], r["name"]) for r in rows if r["_table"] == "Town"]
    if towns != EXPECTED_TOWNS:
        return f"nested for_each: Town rows {towns}, expected {EXPECTED_TOWNS}"


def update_beyond_input(workdir):
    out = StringIO()
    try:
        generate_data(
            StringIO(UPDATE_RECIPE),
            update_input_file=str(workdir / "contacts.csv"),
            update_passthrough_fields=("Oid",),
            target_number=("Contact", 7),
            output_format="json",
            output_file=out,
        )
    except Exception:
        return None  # running out of input records is reported as an error
    rows = json.loads(out.getvalue())
    oids = [r["Oid"] for r in rows]
    return f"update mode: 3 input records, no error, {len(oids)} rows emitted: {oids}"


def main():
    with tempfile.TemporaryDirectory(dir="/tmp") as d:
        workdir = Path(d)
        for name, text in FILES.items():
            (workdir / name).write_text(text, encoding="utf-8")
        (workdir / "nested.yml").write_text(NESTED_RECIPE, encoding="utf-8")
        problems = [p for p in (nested(workdir), update_beyond_input(workdir)) if p]
    if problems:
        print("FAIL: for_each did not emit one row per record of its input")
        for p in problems:
            print("  " + p)
        sys.exit(1)
    print("PASS: inner for_each follows the file of each outer record; update mode stops at the end of its input")


if __name__ == "__main__":
    main()
