"""C20 demo 2: a recipe whose dataset has a header line but no data rows, read outside a for_each.

PASS: the recipe is rejected with a DataGenError within the time limit.
FAIL: generation does not return (hang), or something other than a DataGenError escapes.
"""
import io
import os
import signal
import sys
import tempfile

from snowfakery import generate_data
from snowfakery.data_gen_exceptions import DataGenError

TIME_LIMIT = 10  # seconds; the unchanged code answers in well under one

RECIPE = """
- plugin: snowfakery.standard_plugins.datasets.Dataset
- object: Person
  count: 2
  fields:
    __address:
      Dataset.iterate:
        dataset: no_rows.csv
    City: ${{__address.City}}
"""


class Hang(BaseException):
    pass


def on_alarm(signum, frame):
    raise Hang()


def attempt(label, csv_text):
    workdir = tempfile.mkdtemp(prefix="c20_demo2_", dir="/tmp")
    with open(os.path.join(workdir, "no_rows.csv"), "w") as f:
        f.write(csv_text)
    recipe = os.path.join(workdir, "recipe.yml")
    with open(recipe, "w") as f:
        f.write(RECIPE)
    out = io.StringIO()
    signal.signal(signal.SIGALRM, on_alarm)
    signal.alarm(TIME_LIMIT)
    try:
        generate_data(recipe, output_file=out, output_format="json")
    except DataGenError:
        return None
    except Hang:
        return f"{label}: no answer after {TIME_LIMIT}s (hang)"
    except Exception as e:
        return f"{label}: internal {type(e).__name__}: {e}"
    finally:
        signal.alarm(0)
    return f"{label}: accepted, wrote {out.getvalue()[:70]!r}"


problems = [
    p
    for p in (
        attempt("header only", "Number,Street,City\n"),
        attempt("empty file", ""),
    )
    if p
]
if problems:
    print("FAIL")
    for p in problems:
        print("  " + p)
    sys.exit(1)
print("PASS")
