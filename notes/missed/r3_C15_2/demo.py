"""A datetime-precision start yields datetimes in the start's own zone, whatever other
schedules were evaluated earlier in the same process."""
import io
import json
import sys
from datetime import datetime, timedelta, timezone

from dateutil.rrule import rrule, MONTHLY

from snowfakery import generate_data

HEAD = """
- snowfakery_version: 3
- plugin: snowfakery.standard_plugins.Schedule
"""

# 2024-03-01 04:00 UTC ...
FIRST = """
- object: Utc
  count: 3
  fields:
    d:
      Schedule.Event:
        start_date: 2024-03-01 04:00:00+00:00
        freq: monthly
"""

# ... is the same instant as 2024-02-29 20:00 in -08:00, but not the same schedule:
# the 29th of each month at 20:00 -08:00
SECOND = """
- object: Pacific
  count: 3
  fields:
    d:
      Schedule.Event:
        start_date: 2024-02-29 20:00:00-08:00
        freq: monthly
"""


def run(recipe):
    out = io.StringIO()
    generate_data(io.StringIO(recipe), output_file=out, output_format="json")
    return json.loads(out.getvalue())


def expected_pacific():
    tz = timezone(timedelta(hours=-8))
    rule = rrule(MONTHLY, dtstart=datetime(2024, 2, 29, 20, 0, 0, tzinfo=tz), count=3)
    return [str(d) for d in rule]


def expected_utc():
    rule = rrule(MONTHLY, dtstart=datetime(2024, 3, 1, 4, tzinfo=timezone.utc), count=3)
    return [str(d) for d in rule]


def main():
    ok = True

    # step 1: the Pacific schedule, first thing in the process (right on any code)
    got = [r["d"] for r in run(HEAD + SECOND) if r["_table"] == "Pacific"]
    if got != expected_pacific():
        ok = False
        print("FAIL (step 1): expected", expected_pacific(), "observed", got)

    # step 2: a later, separate run in the same process with the UTC schedule,
    #         whose start is the same instant written in another zone
    got = [r["d"] for r in run(HEAD + FIRST) if r["_table"] == "Utc"]
    if got != expected_utc():
        ok = False
        print(
            "FAIL (step 2, UTC schedule run after a -08:00 schedule starting at the same instant):"
            "\n  expected", expected_utc(), "\n  observed", got,
        )

    # step 3: both in one recipe
    rows = run(HEAD + SECOND + FIRST)
    got_p = [r["d"] for r in rows if r["_table"] == "Pacific"]
    got_u = [r["d"] for r in rows if r["_table"] == "Utc"]
    if (got_p, got_u) != (expected_pacific(), expected_utc()):
        ok = False
        print("FAIL (step 3, one recipe):\n  Pacific", got_p, "\n  Utc    ", got_u)

    if not ok:
        sys.exit(1)
    print("PASS")


if __name__ == "__main__":
    main()
