"""Update mode over input files with a quoted multi-line cell and a UTF-8 BOM.

The same bytes are offered under three names: `contacts.csv`, `CONTACTS.CSV`
(how Windows tools like to spell it) and `contacts_export.txt`.  Update mode does
not care about the name of its input file: every record must come out once, in
order, with every column exactly as it is in the file -- including the `\r\n`
inside the quoted Note cell and the first column, which follows the BOM.
"""
import io
import json
import shutil
import sys
import tempfile
from pathlib import Path

from snowfakery import generate_data

work = Path(tempfile.mkdtemp(prefix="c17_demo3_", dir="/tmp"))

records = [
    ("003A", "Zoë Müller", "first line\r\nsecond line"),
    ("003B", 'Ann "Q" Lee', "plain"),
    ("003C", "Łukasz, Jr.", "ends with CR LF\r\n"),
]


def csv_bytes(bom: bool) -> bytes:
    def q(cell):
        return '"' + cell.replace('"', '""') + '"'

    text = "Oid,Name,Note\r\n" + "".join(
        ",".join(q(c) for c in rec) + "\r\n" for rec in records
    )
    return (b"\xef\xbb\xbf" if bom else b"") + text.encode("utf-8")


RECIPE = """
- object: Contact
  fields:
    Name: ${{input.Name}}
    Note: ${{input.Note}}
    Greeting: Hello ${{input.Name}}
"""


def run(path: Path):
    out = io.StringIO()
    try:
        generate_data(
            io.StringIO(RECIPE),
            update_input_file=str(path),
            update_passthrough_fields=("Oid",),
            output_format="json",
            output_file=out,
        )
    except Exception as e:  # noqa
        return f"{type(e).__name__}: {str(e).splitlines()[0][:150]}"
    return [(r["Oid"], r["Name"], r["Note"]) for r in json.loads(out.getvalue())]


problems = []
for bom in (False, True):
    for name in ("contacts.csv", "CONTACTS.CSV", "contacts_export.txt"):
        path = work / name
        path.write_bytes(csv_bytes(bom))
        got = run(path)
        if got != records:
            problems.append(
                f"{name} ({'with' if bom else 'no'} BOM): expected {records!r}\n"
                f"      got {got!r}"
            )
        path.unlink()

shutil.rmtree(work, ignore_errors=True)

if problems:
    print("FAIL")
    for p in problems:
        print("  " + p)
    sys.exit(1)
print("PASS")
