"""Names looked up at the very start of an iteration (before any row of that
iteration is registered) must not denote rows of the previous iteration.

Recipe: a top-level variable holds a *forward* reference to Boss, and the count
of the first template is a formula over that name.  Three iterations."""
import io
import json
import sys

from snowfakery import generate_data

RECIPE = """
- snowfakery_version: 3
- var: the_boss
  value:
    reference: Boss
- object: Employee
  count: ${{ 2 if Boss.id > 1 else 1 }}
  fields:
    boss:
      reference: the_boss
    boss_id: ${{ the_boss.id }}
    idx: ${{ child_index }}
- object: Boss
  fields:
    n: ${{ id * 10 }}
"""

# worked out by hand from the documented rules: in iteration k the name Boss is a
# forward reference (no Boss row exists yet in this iteration), it reserves id k,
# and the Boss row created at the end of the iteration gets that id.
EXPECTED = [
    ("Employee", {"id": 1, "boss": 1, "boss_id": 1, "idx": 0}),
    ("Boss", {"id": 1, "n": 10}),
    ("Employee", {"id": 2, "boss": 2, "boss_id": 2, "idx": 0}),
    ("Employee", {"id": 3, "boss": 2, "boss_id": 2, "idx": 1}),
    ("Boss", {"id": 2, "n": 20}),
    ("Employee", {"id": 4, "boss": 3, "boss_id": 3, "idx": 0}),
    ("Employee", {"id": 5, "boss": 3, "boss_id": 3, "idx": 1}),
    ("Boss", {"id": 3, "n": 30}),
]


def run():
    out = io.StringIO()
    generate_data(
        io.StringIO(RECIPE),
        target_number=(3, "Boss"),
        output_format="json",
        output_file=out,
    )
    rows = json.loads(out.getvalue())
    return [(r.pop("_table"), r) for r in rows]


def main():
    try:
        got = run()
    except Exception as e:  # an exception is a deviation as well
        print("FAIL: exception", type(e).__name__, e)
        return 1
    if got == EXPECTED:
        print("PASS")
        return 0
    print("FAIL: rows differ from the documented meaning")
    for i, (g, e) in enumerate(zip(got, EXPECTED)):
        if g != e:
            print(f"  row {i}: got {g}  expected {e}")
    if len(got) != len(EXPECTED):
        print(f"  {len(got)} rows, expected {len(EXPECTED)}")
    return 1


if __name__ == "__main__":
    sys.exit(main())
