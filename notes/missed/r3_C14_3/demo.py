"""C14 demo 3: statements in an included file behave like the same statements written
inline at the top -- also the second time a recipe is generated in one process, after
the included file has been edited (e.g. a long-running service, a test session, or a
continuation run after tweaking the shared library file).
"""
import shutil
import sys
import tempfile
from io import StringIO
from pathlib import Path

from snowfakery import generate_data

MAIN = """
- snowfakery_version: 3
- include_file: lib.yml
- object: Person
  count: 2
  include: person_defaults
  fields:
    pet:
      reference: Pet
"""

LIB_V1 = """
- macro: person_defaults
  fields:
    country: Canada
- object: Pet
  fields:
    species: cat
"""

LIB_V2 = """
- macro: person_defaults
  fields:
    country: Norway
    language: nb
- object: Pet
  count: 2
  fields:
    species: dog
"""


def inline(lib):
    """the same recipe with the library statements written at the top"""
    return MAIN.replace("- include_file: lib.yml\n", lib.lstrip("\n"))


def run(recipe, continuation=None, new_continuation=None):
    out = StringIO()
    generate_data(
        recipe,
        output_file=out,
        output_format="json",
        continuation_file=continuation,
        generate_continuation_file=new_continuation,
    )
    return out.getvalue()


def main():
    workdir = Path(tempfile.mkdtemp(prefix="c14_demo3_", dir="/tmp"))
    main_yml, lib_yml = workdir / "main.yml", workdir / "lib.yml"
    cont = workdir / "cont.yml"
    main_yml.write_text(MAIN)

    problems = []

    # step 1: first generation, library version 1
    lib_yml.write_text(LIB_V1)
    got1 = run(main_yml, new_continuation=cont)
    want1 = run(StringIO(inline(LIB_V1)))
    if got1 != want1:
        problems.append(("first run", want1, got1))

    # step 2: the library file is edited, then the run is continued
    lib_yml.write_text(LIB_V2)
    got2 = run(main_yml, continuation=cont)
    inline_cont = workdir / "inline_cont.yml"
    run(StringIO(inline(LIB_V1)), new_continuation=inline_cont)
    want2 = run(StringIO(inline(LIB_V2)), continuation=inline_cont)
    if got2 != want2:
        problems.append(("continued run after editing lib.yml", want2, got2))

    shutil.rmtree(workdir, ignore_errors=True)
    if not problems:
        print("PASS: included statements equal inline statements in both runs")
        return 0
    for where, want, got in problems:
        print(f"FAIL ({where}): include_file recipe differs from the inline recipe")
        print("inline  :", want)
        print("included:", got)
    return 1


if __name__ == "__main__":
    sys.exit(main())
