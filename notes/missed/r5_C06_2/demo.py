"""A just_once nickname that is spelled like the table name of another just_once template."""
import io
import json
import sys
import warnings

from snowfakery import generate_data

warnings.simplefilter("ignore")  # "Should not reuse names as both nickname and table name"

RECIPE = """
- object: Region
  just_once: True
  count: 2
  nickname: Office          # spelled like the table of the next template
  fields:
    name: EMEA-${{id}}
- object: Office
  just_once: True
  fields:
    name: Headquarters
- object: Desk
  fields:
    office:
      reference: Office
    office_name: ${{Office.name}}
"""


def run(continuation, reps):
    out, new_continuation = io.StringIO(), io.StringIO()
    generate_data(
        io.StringIO(RECIPE),
        output_format="json",
        output_file=out,
        target_number=(reps, "__REPS__"),
        continuation_file=io.StringIO(continuation) if continuation else None,
        generate_continuation_file=new_continuation,
    )
    return json.loads(out.getvalue()), new_continuation.getvalue()


rows1, cont = run(None, 3)
rows2, cont = run(cont, 2)
rows = rows1 + rows2
singletons = [(r["_table"], r["id"], r["name"]) for r in rows if r["_table"] != "Desk"]
desks = [(r["id"], r["office"], r["office_name"]) for r in rows if r["_table"] == "Desk"]
problems = []
if singletons != [("Region", 1, "EMEA-1"), ("Region", 2, "EMEA-2"), ("Office", 1, "Headquarters")]:
    problems.append(f"just_once rows: {singletons}")
first = desks[0][1:]
wrong = [d for d in desks if d[1:] != first]
if wrong:
    problems.append(
        f"`Office` denoted {first} for Desk 1 but later Desk rows (id, office, office_name) have {wrong}"
    )
if problems:
    print("FAIL", *problems, sep="\n  ")
    sys.exit(1)
print("PASS: the name Office denotes", first, "in all", len(desks), "Desk rows (3 + 2 iterations)")
