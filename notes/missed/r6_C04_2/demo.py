"""C04 demo 2: a recipe with a numeric constant `var`, run as 1+2 iterations.

No random functions: the chained runs must reproduce the uninterrupted run of
three iterations exactly.  The changed code never registers the constant in a
continued run, so the second run stops with "'vat_rate' is undefined".
"""
import io
import json
import sys
import warnings

warnings.simplefilter("ignore")

from snowfakery import generate_data  # noqa: E402

RECIPE = """
- var: vat_rate
  value: 20
- var: currency
  value: EUR
- object: Ledger
  just_once: true
  nickname: ledger
  fields:
    opened: ${{today}}
- object: Invoice
  fields:
    ledger:
      reference: ledger
    net: ${{id * 100}}
    gross: ${{net + net * vat_rate / 100}}
    currency: ${{currency}}
"""


def run(iterations, continuation=None):
    "one Invoice per iteration"
    out, new_continuation = io.StringIO(), io.StringIO()
    generate_data(
        io.StringIO(RECIPE),
        target_number=("Invoice", iterations),
        output_format="json",
        output_file=out,
        continuation_file=io.StringIO(continuation) if continuation else None,
        generate_continuation_file=new_continuation,
    )
    return json.loads(out.getvalue()), new_continuation.getvalue()


def main():
    whole, _ = run(3)
    parts, continuation = [], None
    for number, iterations in enumerate([1, 2], 1):
        try:
            rows, continuation = run(iterations, continuation)
        except Exception as e:
            message = " ".join(str(e).split())
            print(
                f"FAIL: run {number} of the chain 1+2 failed although the uninterrupted "
                f"run of 3 iterations completes: {type(e).__name__}: {message}"
            )
            return 1
        parts.extend(rows)
    if parts != whole:
        print("FAIL: chained runs 1+2 differ from the uninterrupted run of 3 iterations")
        print(" whole:", whole)
        print(" parts:", parts)
        return 1
    print(f"PASS: 1+2 equals 3 iterations exactly ({len(parts)} rows)")
    return 0


if __name__ == "__main__":
    sys.exit(main())
