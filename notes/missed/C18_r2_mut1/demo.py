"""C18 demo 1: the e-mail of a row must be built from the first/last name of THAT row.

An Account row generates its names, then a nested Contact (with names of its
own), then its e-mail.  The e-mail has to be made of the Account's names.
"""
import io
import json
import sys

from snowfakery import generate_data

RECIPE = """
- object: Account
  count: 40
  fields:
    FirstName:
      fake: FirstName
    LastName:
      fake: LastName
    PrimaryContact:
      - object: Contact
        fields:
          FirstName:
            fake: FirstName
          LastName:
            fake: LastName
    Email:
      fake: Email
"""


def clean(name):
    return "".join(c for c in name if c.isascii() and c.isalnum())


def main():
    out = io.StringIO()
    generate_data(io.StringIO(RECIPE), output_file=out, output_format="json")
    rows = json.loads(out.getvalue())
    accounts = [r for r in rows if r["_table"] == "Account"]
    contacts = {r["id"]: r for r in rows if r["_table"] == "Contact"}
    assert len(accounts) == 40 and len(contacts) == 40
    bad = []
    for acc in accounts:
        if not (acc["FirstName"].isascii() and acc["LastName"].isascii()):
            continue
        local, _, domain = acc["Email"].partition("@")
        if domain not in ("example.com", "example.org", "example.net"):
            bad.append(("unsafe domain", acc))
            continue
        first, last = clean(acc["FirstName"]), clean(acc["LastName"])
        if not (last in local and local.startswith(first[0])):
            bad.append(("not built from the row's own names", acc))
    if bad:
        why, acc = bad[0]
        print(
            f"FAIL: {len(bad)}/40 Account e-mails {why}; e.g. Account "
            f"{acc['FirstName']} {acc['LastName']} got {acc['Email']}"
        )
        return 1
    print("PASS: every Account e-mail is built from the Account's own first/last name")
    return 0


if __name__ == "__main__":
    sys.exit(main())
