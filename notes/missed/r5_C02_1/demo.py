"""C02 demo 1: a forward-reference slot captured by a v3 formula, whose target row is created
between the capture and the moment the capturing row is written."""
import re
import sys
from io import StringIO

from snowfakery import generate_data
from snowfakery.data_gen_exceptions import DataGenError

RECIPES = {
    "nested": """
- snowfakery_version: 3
- object: A
  fields:
    b: ${{B}}
    child:
      - object: B
- object: B
""",
    "variable": """
- snowfakery_version: 3
- var: later
  value: ${{B}}
- object: B
- object: A
  fields:
    b: ${{later}}
""",
}

ROW = re.compile(r"^(\w+)\((.*)\)$")
REF = re.compile(r"(\w+)=(\w+)\((\d+|None)\)")


def run(recipe):
    out = StringIO()
    generate_data(StringIO(recipe), output_file=out, output_format="txt")
    rows, refs = set(), []
    for line in out.getvalue().splitlines():
        m = ROW.match(line)
        table, body = m.group(1), m.group(2)
        rows.add((table, re.search(r"\bid=(\d+)", body).group(1)))
        for field, tgt_table, tgt_id in REF.findall(body):
            refs.append((table, field, tgt_table, tgt_id))
    return rows, refs


problems = []
for name, recipe in RECIPES.items():
    try:
        rows, refs = run(recipe)
    except DataGenError as e:
        # the unchanged code refuses: the id handed out at write time is never filled
        print(f"{name}: run failed with an error (acceptable): {str(e).splitlines()[0]}")
        continue
    for src, field, table, id in refs:
        if (table, id) not in rows:
            problems.append(
                f"{name}: run completed, but {src}.{field} -> {table}({id}) and rows written are {sorted(rows)}"
            )

if problems:
    print("FAIL")
    print("\n".join(problems))
    sys.exit(1)
print("PASS")
