"""C01 demo 2: a for_each template whose rows also draw from a second, finite dataset.

people.csv has 5 rows, badges.csv has 3 rows and is read with `repeat: False`.
Whatever Snowfakery decides to do when the badges run out, a run that *completes
successfully* must have emitted ids 1..n for table Person (and the continuation
file must record n).
"""
import json
import sys
import tempfile
from io import StringIO
from pathlib import Path

import yaml

from snowfakery import generate_data
from snowfakery.data_gen_exceptions import DataGenError

RECIPE = """
- plugin: snowfakery.standard_plugins.datasets.Dataset
- object: Person
  for_each:
    var: person
    value:
      Dataset.iterate:
        dataset: {people}
  fields:
    name: ${{{{person.name}}}}
    __badge:
      Dataset.iterate:
        dataset: {badges}
        repeat: False
    badge: ${{{{__badge.code}}}}
- object: Person
  nickname: receptionist
  fields:
    name: reception
- object: Visit
  fields:
    host:
      reference: receptionist
"""


def scenario(label, n_people, n_badges, reps):
    """Returns (outcome, problems)"""
    tmp = Path(tempfile.mkdtemp(prefix="c01_demo2_", dir="/tmp"))
    people, badges = tmp / "people.csv", tmp / "badges.csv"
    people.write_text("name\n" + "".join(f"p{i}\n" for i in range(n_people)))
    badges.write_text("code\n" + "".join(f"B-{i}\n" for i in range(n_badges)))
    recipe = RECIPE.format(people=people, badges=badges)

    out, continuation = StringIO(), StringIO()
    try:
        generate_data(
            StringIO(recipe),
            output_format="json",
            output_file=out,
            generate_continuation_file=continuation,
            target_number=("__REPS__", reps),
        )
    except DataGenError as e:
        # generation did not complete: C01 makes no claim about this run
        return "refused (%s)" % str(e).splitlines()[0], []

    rows = json.loads(out.getvalue())
    ids = {}
    for row in rows:
        ids.setdefault(row["_table"], []).append(row["id"])
    recorded = yaml.safe_load(continuation.getvalue())["id_manager"]["last_used_ids"]

    problems = []
    for table, got in ids.items():
        if sorted(got) != list(range(1, len(got) + 1)):
            problems.append(
                f"{label}: {table}: {len(got)} rows emitted with ids {got}; "
                f"expected exactly 1..{len(got)}"
            )
        if recorded.get(table) != len(got):
            problems.append(
                f"{label}: {table}: continuation file records {recorded.get(table)} "
                f"but {len(got)} rows were emitted"
            )
    return "completed", problems


def main():
    problems = []
    # enough badges for everybody: an ordinary for_each run, 2 iterations
    outcome, p = scenario("5 people / 10 badges", 5, 10, reps=2)
    print(f"5 people / 10 badges: generation {outcome}")
    if outcome != "completed":
        p.append("the ordinary scenario should complete")
    problems += p
    # the badges (read with repeat: False) run out while the for_each loop is going
    outcome, p = scenario("5 people / 3 badges", 5, 3, reps=1)
    print(f"5 people / 3 badges: generation {outcome}")
    problems += p

    if problems:
        print("FAIL")
        for p in problems:
            print("  " + p)
        sys.exit(1)
    print("PASS")


if __name__ == "__main__":
    main()
