"""C15 demo 3: the same weekday listed twice with different ordinals.

`byweekday: MO(+1), MO(+3)` on a monthly schedule is "the first and the third Monday of every
month"; `FR(+1), FR(-1)` on a yearly one is the first and the last Friday of the year.
"""
import io
import json
import sys
from datetime import datetime, timezone

from dateutil.rrule import rrule, MONTHLY, YEARLY, WEEKLY, SU, MO, WE, FR

from snowfakery import generate_data

RECIPE = """
- snowfakery_version: 3
- plugin: snowfakery.standard_plugins.Schedule
- object: FirstAndThirdMonday
  count: 8
  fields:
    Day:
      Schedule.Event:
        start_date: 2024-06-11
        freq: monthly
        byweekday: MO(+1), MO(+3)
- object: FirstAndLastFridayOfYear
  count: 6
  fields:
    Day:
      Schedule.Event:
        start_date: 2024-06-11
        freq: yearly
        byweekday: FR(+1),FR(-1)
- object: MixedPlainAndNumbered
  count: 8
  fields:
    Day:
      Schedule.Event:
        start_date: 2024-06-11
        freq: monthly
        byweekday: WE(+2), MO(-1), WE(-1)
- object: Control
  count: 8
  fields:
    Day:
      Schedule.Event:
        start_date: 2024-06-11
        freq: weekly
        interval: 2
        byweekday: MO, WE, FR
"""


def main():
    out = io.StringIO()
    generate_data(io.StringIO(RECIPE), output_file=out, output_format="json")
    got = {}
    for row in json.loads(out.getvalue()):
        got.setdefault(row["_table"], []).append(row["Day"])

    start = datetime(2024, 6, 11, tzinfo=timezone.utc)

    def dates(freq, count, **kw):
        return [
            str(d.date()) for d in rrule(freq, dtstart=start, wkst=SU, count=count, **kw)
        ]

    expected = {
        "FirstAndThirdMonday": dates(MONTHLY, 8, byweekday=[MO(1), MO(3)]),
        "FirstAndLastFridayOfYear": dates(YEARLY, 6, byweekday=[FR(1), FR(-1)]),
        "MixedPlainAndNumbered": dates(MONTHLY, 8, byweekday=[WE(2), MO(-1), WE(-1)]),
        "Control": dates(WEEKLY, 8, interval=2, byweekday=[MO, WE, FR]),
    }
    ok = True
    for table, exp in expected.items():
        obs = got.get(table, [])
        if obs != exp:
            ok = False
            print(f"FAIL {table}:\n  expected {exp}\n  observed {obs}")
    if ok:
        print("PASS")
        return 0
    return 1


if __name__ == "__main__":
    sys.exit(main())
