"""Two runs in ONE process over a relative `sqlite:///people.db` dataset.

Between the runs the database file is regenerated (a new file is moved over the
old one, the way an extract job rewrites its output).  Every consuming row of
the second run must see the records of the database that is on disk *now*.
A second scenario does the same inside a single run: a recipe and a recipe it
includes from another folder both say `sqlite:///folk.db`, each meaning the
file next to itself.
"""
import io
import json
import os
import shutil
import sqlite3
import sys
import tempfile
from pathlib import Path

from snowfakery import generate_data

work = Path(tempfile.mkdtemp(prefix="c17_demo1_", dir="/tmp"))


def make_db(path: Path, names):
    tmp = path.with_suffix(".new")
    con = sqlite3.connect(tmp)
    con.execute("create table people (name varchar(40), town varchar(40))")
    con.executemany(
        "insert into people values (?, ?)", [(n, n.upper() + "-town") for n in names]
    )
    con.commit()
    con.close()
    os.replace(tmp, path)  # atomically put the regenerated file in place


def run(recipe: Path):
    out = io.StringIO()
    generate_data(str(recipe), output_format="json", output_file=out)
    return [
        (r["_table"], r["name"], r["town"])
        for r in json.loads(out.getvalue())
    ]


RECIPE = """
- plugin: snowfakery.standard_plugins.datasets.Dataset
- object: Person
  count: 5
  fields:
    __rec:
      Dataset.iterate:
        dataset: sqlite:///people.db
    name: ${{__rec.name}}
    town: ${{__rec.town}}
"""

problems = []

# ---- scenario 1: two runs, the file is regenerated in between ---------------
d1 = work / "one"
d1.mkdir()
(d1 / "recipe.yml").write_text(RECIPE)

first = ["ann", "bob", "cy"]
make_db(d1 / "people.db", first)
got = run(d1 / "recipe.yml")
want = [("Person", first[k % 3], first[k % 3].upper() + "-town") for k in range(5)]
if got != want:
    problems.append(f"run 1: expected {want}, got {got}")

second = ["dee", "eli"]
make_db(d1 / "people.db", second)
got = run(d1 / "recipe.yml")
want = [("Person", second[k % 2], second[k % 2].upper() + "-town") for k in range(5)]
if got != want:
    problems.append(
        f"run 2 (after the db was regenerated): expected {want}, got {got}"
    )

# ---- scenario 2: one run, two folders, same relative URL ---------------------
top = work / "two"
sub = top / "sub"
sub.mkdir(parents=True)
make_db(top / "folk.db", ["top1", "top2"])
make_db(sub / "folk.db", ["sub1", "sub2", "sub3"])
(sub / "child.yml").write_text(
    """
- object: Child
  for_each:
    var: rec
    value:
      Dataset.iterate:
        dataset: sqlite:///folk.db
  fields:
    name: ${{rec.name}}
    town: ${{rec.town}}
"""
)
(top / "recipe.yml").write_text(
    """
- plugin: snowfakery.standard_plugins.datasets.Dataset
- object: Parent
  for_each:
    var: rec
    value:
      Dataset.iterate:
        dataset: sqlite:///folk.db
  fields:
    name: ${{rec.name}}
    town: ${{rec.town}}
- include_file: sub/child.yml
"""
)
got = run(top / "recipe.yml")
# (templates of an included file run before those of the including file)
want = [("Child", n, n.upper() + "-town") for n in ["sub1", "sub2", "sub3"]] + [
    ("Parent", n, n.upper() + "-town") for n in ["top1", "top2"]
]
if got != want:
    problems.append(f"include from another folder: expected {want}, got {got}")

shutil.rmtree(work, ignore_errors=True)

if problems:
    print("FAIL")
    for p in problems:
        print("  " + p)
    sys.exit(1)
print("PASS")
