"""C16 demo 1: mapping after a continuation must equal the mapping of a fresh run.

A just_once template owns a friend row of ANOTHER table; only that friend row
holds the reference Contact.AccountId -> Account.  The continuation run does not
regenerate it, so the lookup is only known through the continuation file.
"""
import sys
import os
import tempfile
from io import StringIO

import yaml
from snowfakery import generate_data

RECIPE = """
- object: Account
  just_once: true
  fields:
    Name: Root
  friends:
    - object: Contact
      fields:
        LastName: Primary
        AccountId:
          reference: Account
- object: Opportunity
  fields:
    Name: Opp
"""


def run(continuation_file=None, generate_continuation_file=None):
    mapping = StringIO()
    generate_data(
        StringIO(RECIPE),
        output_file=StringIO(),
        output_format="json",
        generate_cci_mapping_file=mapping,
        continuation_file=continuation_file,
        generate_continuation_file=generate_continuation_file,
    )
    return yaml.safe_load(mapping.getvalue())


def main():
    tmpdir = tempfile.mkdtemp(prefix="c16_demo1_", dir="/tmp")
    cont = os.path.join(tmpdir, "continuation.yml")
    fresh = run(generate_continuation_file=cont)
    continued = run(continuation_file=cont)

    problems = []
    if fresh != continued:
        problems.append(
            f"mapping differs after continuation:\n fresh    ={fresh}\n continued={continued}"
        )
    for label, mapping in (("fresh", fresh), ("continued", continued)):
        step = mapping.get("Insert Contact", {})
        lookup = step.get("lookups", {}).get("AccountId")
        if not lookup or lookup.get("table") != "Account":
            problems.append(
                f"{label}: Contact.AccountId is not a lookup to Account: {step}"
            )
        if "AccountId" in step.get("fields", {}):
            problems.append(f"{label}: Contact.AccountId listed as plain field: {step}")
    if problems:
        print("FAIL")
        for p in problems:
            print(p)
        sys.exit(1)
    print("PASS")


if __name__ == "__main__":
    main()
