"""C02 demo 3: random_reference to a table when another table's name differs only in case."""
import io
import random
import re
import sys
import warnings

from snowfakery import generate_data

RECIPE = """
- object: Account           # ids 1, 2
  count: 2
  fields:
    name: big account
- object: account           # a different table (names are case-sensitive in Snowfakery)
  count: 2
  fields:
    name: lower-case account
- object: Account
  fields:
    name: another big account
- object: Contact
  count: 60
  fields:
    employer:
      random_reference: Account
"""

ROW = re.compile(r"^(\w+)\((.*)\)$")
REF = re.compile(r"=(\w+)\((\d+)\)")


def run(recipe, **kwargs):
    out = io.StringIO()
    with warnings.catch_warnings():
        warnings.simplefilter("ignore")
        generate_data(io.StringIO(recipe), output_file=out, output_format="txt", **kwargs)
    return out.getvalue()


def dangling(text):
    rows, refs = set(), []
    for line in text.splitlines():
        m = ROW.match(line.strip())
        if not m:
            continue
        table, body = m.groups()
        rowid = int(re.search(r"\bid=(\d+)", body).group(1))
        rows.add((table, rowid))
        for t, i in REF.findall(body):
            refs.append(((table, rowid), (t, int(i))))
    return [(src, dst) for src, dst in refs if dst not in rows], rows


def main():
    random.seed(20260930)
    # two iterations, to show that it is not a first-iteration effect
    text = run(RECIPE, target_number=(120, "Contact"))
    bad, rows = dangling(text)
    if bad:
        targets = sorted({dst for _, dst in bad})
        print(f"FAIL: {len(bad)} dangling references; missing targets: {targets}")
        print("Account rows written:", sorted(i for t, i in rows if t == "Account"))
        print("account rows written:", sorted(i for t, i in rows if t == "account"))
        return 1
    print("PASS: every reference resolves;", len(rows), "rows")
    return 0


if __name__ == "__main__":
    sys.exit(main())
