"""C12 demo 2: a unique random_reference whose target table grows while it is consumed.

Each X row creates two more A rows and then two B rows; every B takes a unique
random A of the current iteration.  There are always exactly as many B rows as
A rows, so the range behind the reference is extended (never moved) and every A
id must be produced exactly once: extend, next, next, extend, next, next, ...
"""
import io
import json
import random
import sys

from snowfakery import generate_data

RECIPE = """
- object: X
  count: {groups}
  friends:
    - object: A
      count: 2
    - object: B
      count: 2
      fields:
        ref:
          random_reference:
            to: A
            unique: true
"""


def run(groups, seed):
    random.seed(seed)
    out = io.StringIO()
    try:
        generate_data(
            io.StringIO(RECIPE.format(groups=groups)),
            output_format="json",
            output_file=out,
        )
    except Exception as e:
        return f"{type(e).__name__}: {str(e).splitlines()[0]}"
    rows = json.loads(out.getvalue())
    return [r["ref"] for r in rows if r["_table"] == "B"]


problems = []
for groups in (1, 2, 3, 5):
    for seed in range(10):
        got = run(groups, seed)
        if not isinstance(got, list) or sorted(got) != list(range(1, 2 * groups + 1)):
            problems.append((groups, seed, got))

if problems:
    print(f"FAIL: {len(problems)} runs did not hand out every A id exactly once")
    for groups, seed, got in problems[:5]:
        print(f"  {groups} X rows ({2 * groups} A, {2 * groups} B), seed {seed}: {got}")
    sys.exit(1)
print("PASS: every A id was referenced exactly once while the range was extended")
