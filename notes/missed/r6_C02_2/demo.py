"""C02 / change 2: the SQL output stream silently drops its last batch of rows, so rows
flushed earlier keep references to rows that never reach the database.

Recipe: a just_once Config row (its table is idle for the rest of the run) and Parent rows
that each carry a nested Child; the Child points back at its Parent and is written just
BEFORE it.  With 600 Parents the run writes 1201 rows; the stream flushes after row 1000,
which is Child 500 - its Parent 500 is row 1001 and belongs to the last batch."""
import io
import os
import sqlite3
import sys
import tempfile
import warnings

warnings.simplefilter("ignore")
from snowfakery import generate_data  # noqa: E402

RECIPE = """
- object: Config
  just_once: true
  fields:
    name: settings
- object: Parent
  fields:
    config:
      reference: Config
    first_child:
      - object: Child
        fields:
          parent:
            reference: Parent
"""
PARENTS = 600

with tempfile.TemporaryDirectory(dir="/tmp") as d:
    db = os.path.join(d, "out.db")
    generate_data(io.StringIO(RECIPE), dburl=f"sqlite:///{db}", target_number=(PARENTS, "Parent"))
    con = sqlite3.connect(db)
    ids = {t: {int(r[0]) for r in con.execute(f'SELECT id FROM "{t}"')} for t in ("Config", "Parent", "Child")}
    refs = [("Child", int(i), "parent", "Parent", int(p)) for i, p in con.execute("SELECT id, parent FROM Child")]
    refs += [("Parent", int(i), "first_child", "Child", int(c)) for i, c in con.execute("SELECT id, first_child FROM Parent")]
    refs += [("Parent", int(i), "config", "Config", int(c)) for i, c in con.execute("SELECT id, config FROM Parent")]
    con.close()

print("rows in the database:", {t: len(v) for t, v in ids.items()}, "(run completed without error)")
bad = [f"{t}({i}).{f} -> {tt}({ti})" for t, i, f, tt, ti in refs if ti not in ids[tt]]
if bad:
    print("FAIL: references to rows that are not in the output:", bad[:5])
    sys.exit(1)
if len(ids["Parent"]) != PARENTS:
    print("FAIL: rows are missing although nothing dangles")
    sys.exit(1)
print("PASS")
