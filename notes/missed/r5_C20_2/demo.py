"""C20 demo 2: a run that writes a continuation file, followed by a run that continues from it.

The recipes below are legal.  None of them has an object template at the top level (their
rows are made by templates held in variables), so the first run has no nickname / table
names to remember.  The continued run must either generate data or reject the recipe with
a DataGenError; it must not die with an internal exception while the saved state is loaded.
Exit 0 / PASS when both runs of every recipe behave.
"""
import io
import sys
import warnings

warnings.simplefilter("ignore")

from snowfakery import generate_data
from snowfakery.data_gen_exceptions import DataGenError

CASES = {
    "rows made through a variable": """
- var: acct
  value:
    - object: Account
      fields:
        Name: Acme
- var: acct_name
  value: ${{acct.Name}}
""",
    "variables and an option only": """
- option: greeting
  default: hello
- var: text
  value: ${{greeting}} world
""",
    # control: an ordinary recipe with a top-level template
    "top-level template (control)": """
- object: Account
  nickname: acme
- object: Contact
  fields:
    AccountId:
      reference: acme
""",
}


def run(recipe, **kwargs):
    out = io.StringIO()
    try:
        generate_data(io.StringIO(recipe), output_file=out, output_format="txt", **kwargs)
        return True, f"ok, {len(out.getvalue().splitlines())} row(s)"
    except DataGenError as e:
        return bool(e.message), f"{type(e).__name__}: {e.message}"
    except Exception as e:  # internal failure escaping the API
        return False, f"INTERNAL {type(e).__name__}: {e!r}"


def main():
    failures = []
    for name, recipe in CASES.items():
        state = io.StringIO()
        ok1, seen1 = run(recipe, generate_continuation_file=state)
        ok2, seen2 = run(recipe, continuation_file=io.StringIO(state.getvalue()))
        print(f"  {name}\n     first run    : {seen1}\n     continued run: {seen2}")
        if not ok1:
            failures.append(f"{name} / first run: {seen1}")
        if not ok2:
            failures.append(f"{name} / continued run: {seen2}")
    if failures:
        print("FAIL:", "; ".join(failures))
        return 1
    print("PASS")
    return 0


if __name__ == "__main__":
    sys.exit(main())
