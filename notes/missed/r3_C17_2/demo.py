"""C17 demo 2: a for_each loop over a dataset that was given a `name`.

A `for_each` template must emit exactly one row per input record, in input order,
every time the template runs (here: once per iteration of the recipe)."""
import json
import sys
import tempfile
from io import StringIO
from pathlib import Path

from snowfakery import generate_data

N = 4
ITERATIONS = 3

tmp = Path(tempfile.mkdtemp(prefix="c17_demo2_", dir="/tmp"))
csv = tmp / "people.csv"
csv.write_text("num,name\n" + "".join(f"{i},person {i}\n" for i in range(N)))

recipe = f"""
- plugin: snowfakery.standard_plugins.datasets.Dataset
- object: Batch
  fields:
    label: batch
- object: Person
  for_each:
    var: rec
    value:
      Dataset.iterate:
        dataset: {csv}
        name: people
  fields:
    num: ${{{{rec.num}}}}
    name: ${{{{rec.name}}}}
"""

out = StringIO()
generate_data(
    StringIO(recipe),
    target_number=(ITERATIONS, "Batch"),
    output_format="json",
    output_file=out,
)
rows = json.loads(out.getvalue())

# split the Person rows by the Batch row that precedes them
batches = []
for r in rows:
    if r["_table"] == "Batch":
        batches.append([])
    else:
        batches[-1].append((int(r["num"]), r["name"]))

expected = [(i, f"person {i}") for i in range(N)]
bad = [(i, b) for i, b in enumerate(batches) if b != expected]
if len(batches) != ITERATIONS or bad:
    print("FAIL")
    print(f"   expected {ITERATIONS} iterations with {N} Person rows each, in file order")
    for i, b in enumerate(batches):
        print(f"   iteration {i}: {len(b)} Person rows: {b}")
    sys.exit(1)
print("PASS")
