"""unique random_reference written once (macro / YAML alias), used by two fields.

Each field that does `random_reference: {to: Toy, unique: true}` has its own
uniqueness scope: with 4 toys, 4 cats and 4 dogs every cat gets a different
toy, every dog gets a different toy, and nothing runs out.
"""
import io
import json
import sys

from snowfakery import generate_data

MACRO_RECIPE = """
- macro: toy_picker
  fields:
    toy:
      random_reference:
        to: Toy
        unique: true
- object: Toy
  count: 4
- object: Cat
  count: 4
  include: toy_picker
- object: Dog
  count: 4
  include: toy_picker
"""

ALIAS_RECIPE = """
- object: Toy
  count: 4
- object: Cat
  count: 4
  fields:
    toy: &pick
      random_reference:
        to: Toy
        unique: true
- object: Dog
  count: 4
  fields:
    toy: *pick
"""


def run(recipe, iterations):
    out = io.StringIO()
    generate_data(
        io.StringIO(recipe),
        target_number=(4 * iterations, "Dog"),
        output_format="json",
        output_file=out,
    )
    return json.loads(out.getvalue())


def check(label, recipe, iterations=3):
    try:
        rows = run(recipe, iterations)
    except Exception as e:  # noqa
        return [f"{label}: generation failed: {type(e).__name__}: {str(e).strip()[:150]}"]
    problems = []
    toys = [r["id"] for r in rows if r["_table"] == "Toy"]
    for table in ("Cat", "Dog"):
        picks = [r["toy"] for r in rows if r["_table"] == table]
        if sorted(picks) != sorted(toys):
            problems.append(
                f"{label}: {table}.toy values {picks} are not a permutation of the toys {toys}"
            )
    return problems


def main():
    problems = check("macro included twice", MACRO_RECIPE)
    problems += check("field definition shared through a YAML alias", ALIAS_RECIPE)
    if problems:
        print("FAIL")
        for p in problems:
            print("  ", p)
        sys.exit(1)
    print("PASS")


if __name__ == "__main__":
    main()
