"""C14 / change 2: option values in a run that continues an earlier run.

Every run is given its own `user_options`; an option the caller does not supply must take
its declared default, and must be an error when it has no default.
"""
import io
import json
import sys

from snowfakery import generate_data
from snowfakery.data_gen_exceptions import DataGenError

RECIPE = """
- option: batch
  default: 1
- object: Once
  just_once: True
  fields:
    batch: ${{batch}}
- object: Row
  fields:
    batch: ${{batch}}
"""

REQUIRED = """
- option: region
- object: Row
  fields:
    region: ${{region}}
"""


def run(recipe, user_options=None, continuation=None):
    """Returns (values seen in Row, text of the continuation file written by the run)"""
    out, new_continuation = io.StringIO(), io.StringIO()
    generate_data(
        io.StringIO(recipe),
        user_options=user_options,
        output_file=out,
        output_format="json",
        continuation_file=io.StringIO(continuation) if continuation else None,
        generate_continuation_file=new_continuation,
    )
    rows = [r for r in json.loads(out.getvalue()) if r["_table"] == "Row"]
    return rows, new_continuation.getvalue()


def main():
    problems = []

    # run 1 supplies batch=7; run 2 continues it and supplies nothing: the default (1) applies
    rows1, cont1 = run(RECIPE, {"batch": 7})
    rows2, cont2 = run(RECIPE, None, cont1)
    # run 3 continues run 2 and supplies 3
    rows3, cont3 = run(RECIPE, {"batch": 3}, cont2)
    # run 4 continues run 3, again without options
    rows4, _ = run(RECIPE, {}, cont3)
    seen = [rows[0]["batch"] for rows in (rows1, rows2, rows3, rows4)]
    if seen != [7, 1, 3, 1]:
        problems.append(
            f"batch supplied as 7 / not supplied / 3 / not supplied (default 1) evaluated to {seen}"
        )

    # an option without default is an error in every run that does not supply it
    _, cont = run(REQUIRED, {"region": "EU"})
    try:
        rows, _ = run(REQUIRED, None, cont)
        problems.append(
            f"required option `region` not supplied in the continued run: no error, value {rows[0]['region']!r}"
        )
    except DataGenError:
        pass

    if problems:
        print("FAIL")
        for p in problems:
            print("  " + p)
        return 1
    print("PASS", seen)
    return 0


if __name__ == "__main__":
    sys.exit(main())
