"""C17 demo 2: one macro that reads a dataset, included into two templates.

Every template that consumes `Dataset.iterate` is a consumer of its own: its
k-th row gets record (k mod n) of the file, no matter which other templates
read the same file through the same macro.
"""
import io
import json
import sys
import tempfile
from pathlib import Path

from snowfakery import generate_data

N = 5
ITERATIONS = 4  # 2 rows per template and iteration -> 8 rows per template

tmp = Path(tempfile.mkdtemp(prefix="c17_demo2_", dir="/tmp"))
(tmp / "cities.csv").write_text(
    "code,city\n" + "".join(f"{i},city{i}\n" for i in range(N)), encoding="utf-8"
)
recipe = tmp / "recipe.yml"
recipe.write_text(
    """
- plugin: snowfakery.standard_plugins.datasets.Dataset
- macro: address
  fields:
    __row:
      Dataset.iterate:
        dataset: cities.csv
    code: ${{__row.code}}
    city: ${{__row.city}}
- object: Customer
  count: 2
  include: address
- object: Supplier
  count: 2
  include: address
"""
)

out = io.StringIO()
generate_data(
    str(recipe),
    output_format="json",
    output_file=out,
    target_number=(ITERATIONS * 2, "Supplier"),
)
rows = json.loads(out.getvalue())

problems = []
for table in ("Customer", "Supplier"):
    got = [(str(r["code"]), r["city"]) for r in rows if r["_table"] == table]
    want = [(str(k % N), f"city{k % N}") for k in range(len(got))]
    if len(got) != ITERATIONS * 2:
        problems.append(f"{table}: {len(got)} rows instead of {ITERATIONS * 2}")
    if got != want:
        problems.append(
            f"{table}: records used {[c for c, _ in got]}, expected {[c for c, _ in want]}"
        )

if problems:
    print("FAIL")
    for p in problems:
        print("  ", p)
    sys.exit(1)
print("PASS")
