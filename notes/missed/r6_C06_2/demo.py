"""C06 demo 2: field values of a just_once row must be the same after a continuation.

The just_once row holds text that contains U+0085 (NEL, the "next line" control
character found in text converted from EBCDIC / some mainframe exports; written
"\\N" in a double-quoted YAML string).  Rows created by a continuation run read
that field through the nickname and through the table name.
"""
import io
import json
import sys

from snowfakery import generate_data

RECIPE = r"""
- object: Notice
  just_once: true
  nickname: TheNotice
  fields:
    title: "Caf\xE9 r\xE8glement"
    body: "first line\Nsecond line\nthird line"
- object: Letter
  fields:
    notice:
      reference: TheNotice
    title: ${{TheNotice.title}}
    body: ${{TheNotice.body}}
    body_by_table: ${{Notice.body}}
"""


def run(continuation_text):
    out = io.StringIO()
    new_continuation = io.StringIO()
    generate_data(
        io.StringIO(RECIPE),
        output_file=out,
        output_format="json",
        target_number=(2, "Letter"),
        continuation_file=io.StringIO(continuation_text) if continuation_text else None,
        generate_continuation_file=new_continuation,
    )
    return json.loads(out.getvalue()), new_continuation.getvalue()


def main():
    rows1, cont1 = run(None)
    rows2, cont2 = run(cont1)
    rows3, _ = run(cont2)
    notices = [r for r in rows1 + rows2 + rows3 if r["_table"] == "Notice"]
    problems = []
    if len(notices) != 1:
        problems.append(f"{len(notices)} Notice rows were written over three runs, expected 1")
    original = notices[0]
    for run_no, rows in enumerate((rows1, rows2, rows3), 1):
        for letter in (r for r in rows if r["_table"] == "Letter"):
            if letter["notice"] != original["id"]:
                problems.append(f"run {run_no} Letter {letter['id']}: notice -> {letter['notice']}")
            for mine, theirs in (("title", "title"), ("body", "body"), ("body_by_table", "body")):
                if letter[mine] != original[theirs]:
                    problems.append(
                        f"run {run_no} Letter {letter['id']}: {mine} = {letter[mine]!r}, "
                        f"the just_once row was written with {theirs} = {original[theirs]!r}"
                    )
    if problems:
        print("FAIL")
        for p in problems:
            print("  " + p)
        return 1
    print("PASS")
    return 0


if __name__ == "__main__":
    sys.exit(main())
