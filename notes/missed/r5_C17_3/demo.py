"""C17 demo 3: a CSV whose header has two columns that differ only by German
sharp s spelling: `Straße` (original) and `Strasse` (ASCII transliteration).

The two names are different under str.lower(), so they are two columns and
every consuming row must get both values intact - through Dataset.iterate,
through for_each, and in update mode.
"""
import io
import json
import sys
import tempfile
from pathlib import Path

from snowfakery import generate_data

tmp = Path(tempfile.mkdtemp(prefix="c17_demo3_", dir="/tmp"))
csv = tmp / "adressen.csv"
records = [
    ("1", "Hauptstraße 1", "Hauptstrasse 1", "Köln"),
    ("2", "Große Gasse 7", "Grosse Gasse 7", "Gießen"),
    ("3", "Weg 3", "Weg 3 (ascii)", "Ulm"),
]
csv.write_text(
    "Nr,Straße,Strasse,Ort\n" + "".join(",".join(r) + "\n" for r in records),
    encoding="utf-8",
)


def run(recipe, **kwargs):
    out = io.StringIO()
    generate_data(io.StringIO(recipe), output_format="json", output_file=out, **kwargs)
    return json.loads(out.getvalue())


problems = []
want = [(r[0], r[1], r[2], r[3]) for r in records]

# 1. Dataset.iterate, 4 consumers of a 3-record file (wraps around once)
rows = run(
    f"""
- plugin: snowfakery.standard_plugins.datasets.Dataset
- object: Adresse
  count: 4
  fields:
    __row:
      Dataset.iterate:
        dataset: {csv}
    nr: ${{{{__row.Nr}}}}
    original: ${{{{__row.Straße}}}}
    ascii: ${{{{__row.Strasse}}}}
    ort: ${{{{__row.Ort}}}}
"""
)
got = [(str(r["nr"]), r["original"], r["ascii"], r["ort"]) for r in rows]
if got != want + want[:1]:
    problems.append(f"iterate: {got}")

# 2. for_each
rows = run(
    f"""
- plugin: snowfakery.standard_plugins.datasets.Dataset
- object: Adresse
  for_each:
    var: rec
    value:
      Dataset.iterate:
        dataset: {csv}
  fields:
    nr: ${{{{rec.Nr}}}}
    original: ${{{{rec.Straße}}}}
    ascii: ${{{{rec.Strasse}}}}
    ort: ${{{{rec.Ort}}}}
"""
)
got = [(str(r["nr"]), r["original"], r["ascii"], r["ort"]) for r in rows]
if got != want:
    problems.append(f"for_each: {got}")

# 3. update mode
rows = run(
    """
- object: Adresse
  fields:
    nr: ${{input.Nr}}
    original: ${{input.Straße}}
    ascii: ${{input.Strasse}}
    ort: ${{input.Ort}}
""",
    update_input_file=str(csv),
)
got = [(str(r["nr"]), r["original"], r["ascii"], r["ort"]) for r in rows]
if got != want:
    problems.append(f"update mode: {got}")

if problems:
    print("FAIL: a column of the dataset did not arrive intact")
    for p in problems:
        print("  ", p)
    sys.exit(1)
print("PASS")
