"""C01 demo 1: a chain of continuation runs whose ids are beyond 2**53.

An embedding application hands Snowfakery its start ids through the continuation
file (id_manager.last_used_ids).  Every run must resume numbering immediately
after the highest id recorded in the file it was started from.
"""
import json
import sys
from io import StringIO

import yaml

from snowfakery import generate_data

RECIPE = """
- object: Account
  count: 2
  fields:
    name: acme
- object: Contact
  fields:
    account:
      reference: Account
"""


def run(continuation_text=None, reps=1):
    out, new_continuation = StringIO(), StringIO()
    generate_data(
        StringIO(RECIPE),
        output_format="json",
        output_file=out,
        continuation_file=StringIO(continuation_text) if continuation_text else None,
        generate_continuation_file=new_continuation,
        target_number=("__REPS__", reps) if reps != 1 else None,
    )
    rows = json.loads(out.getvalue())
    ids = {}
    for row in rows:
        ids.setdefault(row["_table"], []).append(row["id"])
    return ids, new_continuation.getvalue()


def recorded(continuation_text):
    return yaml.safe_load(continuation_text)["id_manager"]["last_used_ids"]


def main():
    problems = []
    # run 1: an ordinary run
    ids1, cont1 = run()
    if ids1 != {"Account": [1, 2], "Contact": [1]}:
        problems.append(f"run 1 emitted {ids1}")

    # the embedding application moves the Account ids into its own (large) id space
    START = 2**53 + 1  # 9007199254740993
    state = yaml.safe_load(cont1)
    state["id_manager"]["last_used_ids"]["Account"] = START
    state["id_manager"]["last_used_ids"]["Contact"] = 41
    cont1 = yaml.safe_dump(state)

    previous = {"Account": START, "Contact": 41}
    continuation = cont1
    for run_no in (2, 3, 4):
        ids, continuation = run(continuation, reps=2)
        for table, per_iteration in (("Account", 2), ("Contact", 1)):
            n = per_iteration * 2
            expected = list(range(previous[table] + 1, previous[table] + n + 1))
            got = ids.get(table)
            if got != expected:
                problems.append(
                    f"run {run_no}: {table} ids {got}, expected {expected} "
                    f"(file it started from recorded {previous[table]})"
                )
            rec = recorded(continuation).get(table)
            if got and rec != max(got):
                problems.append(
                    f"run {run_no}: continuation file records {table}={rec}, "
                    f"highest id emitted is {max(got)}"
                )
            # the next run is judged against the file it really starts from
            previous[table] = rec

    if problems:
        print("FAIL")
        for p in problems:
            print("  " + p)
        sys.exit(1)
    print("PASS")


if __name__ == "__main__":
    main()
