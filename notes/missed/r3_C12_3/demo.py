"""C12 demo 3: when a new iteration moves the shuffled range behind a unique random reference to
the (disjoint, higher) ids of that iteration, only values of the new range may appear, and every
one of them stays available.

Recipe: 6 A rows and 2 B rows per iteration; every B has TWO independent unique references to A
(`first`, `second`), default scope (current iteration).  Three iterations (6 B rows), 20 seeds.
Expected for both fields: the two values used in iteration k are different and lie among the A ids
of iteration k, i.e. in {6k-5 .. 6k}.
"""
import io
import json
import random
import sys

from snowfakery import generate_data

RECIPE = """
- snowfakery_version: 3
- object: A
  count: 6
- object: B
  count: 2
  fields:
    first:
      random_reference:
        to: A
        unique: true
    second:
      random_reference:
        to: A
        unique: true
"""


def run(seed):
    random.seed(seed)
    out = io.StringIO()
    generate_data(
        io.StringIO(RECIPE), output_file=out, output_format="json", target_number=(6, "B")
    )
    rows = json.loads(out.getvalue())
    return [r for r in rows if r["_table"] == "B"]


def main():
    problems = []
    for seed in range(20):
        try:
            bs = run(seed)
        except Exception as e:  # noqa
            problems.append(f"seed={seed}: {type(e).__name__}: {str(e).strip()[:100]}")
            continue
        for field in ("first", "second"):
            for k in range(3):
                got = [b[field] for b in bs[2 * k : 2 * k + 2]]
                allowed = range(6 * k + 1, 6 * k + 7)
                if len(set(got)) != 2 or any(v not in allowed for v in got):
                    problems.append(
                        f"seed={seed}: B.{field} in iteration {k + 1} is {got}, expected 2 different ids in {list(allowed)}"
                    )
    if problems:
        print("FAIL:", len(problems), "violations; first ones:")
        for p in problems[:5]:
            print("  ", p)
        sys.exit(1)
    print("PASS: 20 runs x 3 iterations, both unique references stayed inside the range of their iteration")


main()
