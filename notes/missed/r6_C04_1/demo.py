"""C04 demo 1: a just_once row that holds a Decimal, three chained runs.

Unchanged code: the three runs chained by continuation files produce the ids,
row counts and references of one uninterrupted run of three iterations, and
every later row still sees the Decimal of the just_once row.
Changed code: the second run cannot even read the continuation file.
"""
import io
import json
import sys
import warnings

warnings.simplefilter("ignore")

from snowfakery import generate_data  # noqa: E402

RECIPE = """
- object: PriceList
  just_once: true
  nickname: prices
  fields:
    name: standard
    base_price:
      fake.pydecimal:
        left_digits: 3
        right_digits: 2
        positive: true
- object: Product
  count: 2
  fields:
    price_list:
      reference: prices
    list_name: ${{prices.name}}
    price_copy: EUR ${{prices.base_price}}
"""


def run(reps, continuation=None):
    "reps iterations: each iteration makes two Products"
    out, new_continuation = io.StringIO(), io.StringIO()
    generate_data(
        io.StringIO(RECIPE),
        target_number=("Product", 2 * reps),
        output_format="json",
        output_file=out,
        continuation_file=io.StringIO(continuation) if continuation else None,
        generate_continuation_file=new_continuation,
    )
    return json.loads(out.getvalue()), new_continuation.getvalue()


def shape(rows):
    "everything but the random Decimal itself"
    return [
        {k: v for k, v in row.items() if k not in ("base_price", "price_copy")}
        for row in rows
    ]


def main():
    whole, _ = run(3)
    parts, continuation = [], None
    for number, reps in enumerate([1, 1, 1], 1):
        try:
            rows, continuation = run(reps, continuation)
        except Exception as e:
            print(
                f"FAIL: run {number} of the chain 1+1+1 failed although the "
                f"uninterrupted run of 3 iterations completes: {type(e).__name__}: "
                f"{str(e).splitlines()[0]}"
            )
            return 1
        parts.extend(rows)
    if shape(parts) != shape(whole):
        print("FAIL: chained runs differ from the uninterrupted run")
        print(" whole:", shape(whole))
        print(" parts:", shape(parts))
        return 1
    base = [r["base_price"] for r in parts if r["_table"] == "PriceList"]
    copies = {r["price_copy"] for r in parts if r["_table"] == "Product"}
    if len(base) != 1 or copies != {f"EUR {base[0]}"}:
        print(f"FAIL: later runs lost the just_once Decimal: {base} vs {copies}")
        return 1
    print(f"PASS: 1+1+1 equals 3 iterations ({len(parts)} rows), Decimal kept")
    return 0


if __name__ == "__main__":
    sys.exit(main())
