"""C01 demo 3: templates with an `update_key` (upsert) whose key value is sometimes blank.

Scenario A: an ordinary recipe, `update_key: Email`, 2 iterations of 3 rows; the
            second row of every iteration has an empty Email.
Scenario B: update mode (update_input_file) keyed on the passthrough column Oid;
            the input CSV has one row without an Oid.  A second run continues
            from the continuation file of the first.
In every successful run the ids emitted for a table must be exactly the next n
integers, and the continuation file must record the highest of them.
"""
import json
import sys
import tempfile
from io import StringIO
from pathlib import Path

import yaml

from snowfakery import generate_data

RECIPE_A = """
- object: Contact
  update_key: Email
  count: 3
  fields:
    LastName: Smith
    Email: ${{ "" if child_index == 1 else "user%d@example.com" % id }}
- object: Contact
  fields:
    LastName: Jones
    Email: jones@example.com
"""

RECIPE_B = """
- object: Contact
  update_key: Oid
  fields:
    City: ${{input.City}}
"""

CSV_B = """Oid,City
003000000000001,Burnaby
,White Rock
003000000000003,Richmond
003000000000004,Surrey
"""


def run(recipe, first_id=1, **kwargs):
    out, continuation = StringIO(), StringIO()
    generate_data(
        StringIO(recipe),
        output_format="json",
        output_file=out,
        generate_continuation_file=continuation,
        **kwargs,
    )
    rows = json.loads(out.getvalue())
    ids = {}
    for row in rows:
        ids.setdefault(row["_table"], []).append(row["id"])
    recorded = yaml.safe_load(continuation.getvalue())["id_manager"]["last_used_ids"]
    return ids, recorded, continuation.getvalue()


def check(label, ids, recorded, first_ids):
    problems = []
    for table, got in ids.items():
        first = first_ids.get(table, 1)
        expected = list(range(first, first + len(got)))
        if sorted(got) != expected:
            problems.append(
                f"{label}: {table}: {len(got)} rows emitted with ids {got}, "
                f"expected {expected[0]}..{expected[-1]}"
            )
        if recorded.get(table) != first + len(got) - 1:
            problems.append(
                f"{label}: {table}: continuation file records {recorded.get(table)}, "
                f"last id that should have been used is {first + len(got) - 1}"
            )
    return problems


def main():
    problems = []

    ids, recorded, _ = run(RECIPE_A, target_number=("__REPS__", 2))
    problems += check("A", ids, recorded, {})

    tmp = Path(tempfile.mkdtemp(prefix="c01_demo3_", dir="/tmp"))
    csv = tmp / "contacts.csv"
    csv.write_text(CSV_B)
    ids, recorded, cont = run(
        RECIPE_B, update_input_file=str(csv), update_passthrough_fields=("Oid",)
    )
    problems += check("B run 1", ids, recorded, {})
    next_id = recorded.get("Contact", 0) + 1
    ids, recorded, _ = run(
        RECIPE_B,
        update_input_file=str(csv),
        update_passthrough_fields=("Oid",),
        continuation_file=StringIO(cont),
    )
    problems += check("B run 2 (continuation)", ids, recorded, {"Contact": next_id})

    if problems:
        print("FAIL")
        for p in problems:
            print("  " + p)
        sys.exit(1)
    print("PASS")


if __name__ == "__main__":
    main()
