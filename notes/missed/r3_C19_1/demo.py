"""C19 demo 1: a continued run leaks its per-table start ids into a later continued run.

History (all in one process, through snowfakery.generate_data):
  A0  recipe A, fresh, writes a continuation file      (Person ids 1..5)
  A1  recipe A, continued from that file               (Person ids 6..10)
  B0  recipe B, fresh, people=0, writes a continuation (no Person row at all)
  B1  recipe B, continued, people=2, target 3 Person   -> must make Person 1..4

The reference is B0+B1 executed alone (no A runs before them).
"""
import io
import os
import sys
import tempfile

from snowfakery import generate_data

RECIPE_A = """
- object: Person
  count: 5
  fields:
    name: p${{id}}
"""

RECIPE_B = """
- option: people
  default: 0
- object: Company
  just_once: True
  fields:
    name: Acme
- object: Person
  count: ${{people}}
  fields:
    name: q${{id}}
- object: Visit
  fields:
    n: ${{id}}
"""

tmpdir = tempfile.mkdtemp(prefix="c19_demo1_")


def run(recipe, cont_in=None, cont_out=None, **kwargs):
    out = io.StringIO()
    try:
        generate_data(
            io.StringIO(recipe),
            output_file=out,
            output_format="txt",
            continuation_file=cont_in,
            generate_continuation_file=cont_out,
            **kwargs,
        )
    except Exception as e:  # a failing run is an observation too
        return out.getvalue() + f"ERROR {type(e).__name__}: {e}\n"
    return out.getvalue()


def run_b(tag):
    cont = os.path.join(tmpdir, f"b_{tag}.yml")
    first = run(RECIPE_B, cont_out=cont, user_options={"people": 0})
    second = run(
        RECIPE_B,
        cont_in=cont,
        user_options={"people": 2},
        target_number=(3, "Person"),
    )
    return first, second


def run_a():
    cont = os.path.join(tmpdir, "a.yml")
    run(RECIPE_A, cont_out=cont)
    run(RECIPE_A, cont_in=cont)


reference = run_b("ref")  # B0, B1 with nothing relevant before them
run_a()  # A0, A1
observed = run_b("after_a")  # B0, B1 again, now after a continued run of A

if observed == reference:
    print("PASS")
    sys.exit(0)
print("FAIL: recipe B continued after a continued run of recipe A differs")
print("--- expected (B alone) ---")
print(reference[1])
print("--- observed (after A) ---")
print(observed[1])
sys.exit(1)
