"""A just_once row holding Decimals with trailing zeros, used again after a continuation (native types)."""
import io
import json
import sys
import warnings

from snowfakery import generate_data

warnings.simplefilter("ignore")

# `Decimal * 0 + n` keeps the exponent of the random Decimal: price is Decimal('5.00'), quota Decimal('100')
RECIPE = """
- snowfakery_version: 3
- object: Plan
  just_once: True
  nickname: Basic
  fields:
    price: ${{ fake.pydecimal(left_digits=2, right_digits=2, positive=True) * 0 + 5 }}
    quota: ${{ fake.pydecimal(left_digits=2, right_digits=0, positive=True) * 0 + 100 }}
- object: Invoice
  fields:
    plan:
      reference: Basic
    amount: ${{Basic.price}}
    label: ${{Basic.price}} per month for ${{Basic.quota}} users
"""


def run(continuation):
    out, new_continuation = io.StringIO(), io.StringIO()
    generate_data(
        io.StringIO(RECIPE),
        output_format="json",
        output_file=out,
        target_number=(2, "__REPS__"),
        continuation_file=io.StringIO(continuation) if continuation else None,
        generate_continuation_file=new_continuation,
    )
    return json.loads(out.getvalue()), new_continuation.getvalue()


rows1, cont = run(None)
rows2, cont = run(cont)
rows = rows1 + rows2
plans = [r for r in rows if r["_table"] == "Plan"]
invoices = [(r["id"], r["plan"], r["amount"], r["label"]) for r in rows if r["_table"] == "Invoice"]
problems = []
if len(plans) != 1:
    problems.append(f"{len(plans)} Plan rows")
plan = plans[0]
expected = (plan["id"], plan["price"], f"{plan['price']} per month for {plan['quota']} users")
wrong = [i for i in invoices if i[1:] != expected]
if wrong:
    problems.append(
        f"the Plan row was written as price={plan['price']!r} quota={plan['quota']!r}, "
        f"but these Invoice rows (id, plan, amount, label) read other values from `Basic`: {wrong}"
    )
if problems:
    print("FAIL", *problems, sep="\n  ")
    sys.exit(1)
print("PASS: all", len(invoices), "Invoice rows read", expected[1:], "from the just_once row")
