"""C16 demo 1: two tables whose names differ only in case (`task`, `Task`) and a
reference cycle Job <-> Task.  Every lookup must either point at a step that is
loaded earlier or carry `after:` naming the (single) step that loads its target."""
import io
import os
import sys
import tempfile

import yaml

from snowfakery import generate_data

RECIPE = """
- object: task
  fields:
    name: a lower-case table
- object: Job
  nickname: j
  fields:
    t:
      reference: T1
- object: Task
  nickname: T1
  fields:
    job:
      reference: j
"""


def mapping_for(recipe):
    tmpdir = tempfile.mkdtemp(prefix="c16_r6_demo1_", dir="/tmp")
    path = os.path.join(tmpdir, "mapping.yml")
    generate_data(
        io.StringIO(recipe), generate_cci_mapping_file=path, output_file=io.StringIO(), output_format="txt"
    )
    with open(path) as f:
        return yaml.safe_load(f)


def check_order(mapping):
    problems = []
    steps = list(mapping.items())
    steps_of_table = {}
    for name, step in steps:
        steps_of_table.setdefault(step["table"], []).append(name)
    position = {name: idx for idx, (name, _) in enumerate(steps)}
    for name, step in steps:
        for field, lookup in (step.get("lookups") or {}).items():
            target_steps = steps_of_table.get(lookup["table"], [])
            if len(target_steps) != 1:
                continue
            target_step = target_steps[0]
            earlier = position[target_step] < position[name]
            if not earlier and lookup.get("after") != target_step:
                problems.append(
                    f"step {name!r} (#{position[name]}): lookup {field!r} -> table {lookup['table']!r} "
                    f"loaded by {target_step!r} (#{position[target_step]}) but after={lookup.get('after')!r}"
                )
    return problems


def main():
    mapping = mapping_for(RECIPE)
    order = list(mapping)
    problems = check_order(mapping)
    if set(s["table"] for s in mapping.values()) != {"task", "Job", "Task"}:
        problems.append(f"unexpected steps {order}")
    if problems:
        print("FAIL: step order", order)
        for p in problems:
            print("  ", p)
        sys.exit(1)
    print("PASS: step order", order, "- every lookup is loaded earlier or has after:")
    sys.exit(0)


main()
