"""Command line, continuing "in place": the same file is given to --continuation-file and
--generate-continuation-file, so one state file is carried along a chain of runs
(`snowfakery r.yml --continuation-file state.yml --generate-continuation-file state.yml`).

3 iterations at once are compared with 1 + 1 + 1 iterations chained through one state file.
Every run is a fresh `python -m snowfakery` process (PYTHONPATH is inherited).
"""
import json
import os
import subprocess
import sys
import tempfile
from pathlib import Path

RECIPE = """
- object: Company
  just_once: true
  nickname: hq
  fields:
    name: Head Office
- object: Employee
  fields:
    employer:
      reference: hq
    badge: ${{hq.name}} / ${{id}}
"""


def cli(*args):
    cmd = [sys.executable, "-W", "ignore", "-m", "snowfakery", *map(str, args)]
    return subprocess.run(cmd, capture_output=True, text=True, env=os.environ)


with tempfile.TemporaryDirectory(prefix="c04_r6_demo3_", dir="/tmp") as tmp:
    tmp = Path(tmp)
    recipe = tmp / "recipe.yml"
    recipe.write_text(RECIPE)

    whole = tmp / "whole.json"
    proc = cli(recipe, "--reps", 3, "--output-file", whole)
    assert proc.returncode == 0, proc.stderr
    unsplit = json.loads(whole.read_text())

    state = tmp / "state.yml"
    split, problems = [], []
    for n in (1, 2, 3):
        part = tmp / f"part{n}.json"
        args = [recipe, "--reps", 1, "--output-file", part]
        if n > 1:
            args += ["--continuation-file", state]
        args += ["--generate-continuation-file", state]
        proc = cli(*args)
        if proc.returncode != 0:
            last = (proc.stderr.strip().splitlines() or ["?"])[-1]
            problems.append(f"run {n} of the chain failed (exit {proc.returncode}): {last}")
            break
        split.extend(json.loads(part.read_text()))

    if not problems and split != unsplit:
        problems.append(f"rows differ:\n  uninterrupted: {unsplit}\n  split        : {split}")

if problems:
    print("FAIL:", *problems, sep="\n  ")
    sys.exit(1)
print("PASS: 1+1+1 iterations through one state file equal 3 iterations:", len(unsplit), "rows")
sys.exit(0)
