"""C13 demo 1: one generator, held by a just_once row, reached through the row's
nickname and through its table name after a continuation.

All ids drawn from generators of the UniqueId plugin in one process must be
pairwise distinct."""
import json
import sys
import time
from io import StringIO

from snowfakery import generate_data

RECIPE = """
- plugin: snowfakery.standard_plugins.UniqueId
- object: Sequence
  nickname: Seq
  just_once: True
  fields:
    __gen:
      UniqueId.NumericIdGenerator:
        template: pid, index
- object: Order
  fields:
    number: ${{Seq.__gen.unique_id}}
- object: Invoice
  fields:
    number: ${{Sequence.__gen.unique_id}}
"""


def run(continuation=None, n=3):
    out, new_continuation = StringIO(), StringIO()
    generate_data(
        StringIO(RECIPE),
        output_format="json",
        output_file=out,
        target_number=("Order", n),
        generate_continuation_file=new_continuation,
        continuation_file=StringIO(continuation) if continuation else None,
    )
    rows = json.loads(out.getvalue())
    numbers = [(r["_table"], r["id"], r["number"]) for r in rows if "number" in r]
    return numbers, new_continuation.getvalue()


def duplicates(numbers):
    seen, dups = {}, []
    for table, id, number in numbers:
        if number in seen:
            dups.append((number, seen[number], (table, id)))
        seen.setdefault(number, (table, id))
    return dups


def main():
    first, continuation = run()
    everything = list(first)
    for _attempt in range(3):
        # the portion identifier (pid) is built from the clock in whole seconds:
        # let the restored generator have a pid of its own
        time.sleep(1.1)
        more, continuation = run(continuation)
        everything += more
        dups = duplicates(everything)
        if dups:
            print("FAIL: the same unique id was handed out twice in one process")
            for number, a, b in dups:
                print(f"   {number}: {a[0]} {a[1]} and {b[0]} {b[1]}")
            return 1
    print(f"PASS: {len(everything)} ids, all distinct")
    return 0


if __name__ == "__main__":
    sys.exit(main())
