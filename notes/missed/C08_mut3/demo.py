"""C08 demo 3: ids in the SQL database / SQL script must be the ids the interpreter assigned.

Scenario 1: a forward reference reserves id 1 of table B for a row that is written after another B row.
Scenario 2: a continuation run, whose ids carry on where the first run stopped, written to a fresh database.
JSON output of the same run is the reference."""
import io
import json
import sqlite3
import sys
import tempfile
from pathlib import Path

from snowfakery import generate_data

FORWARD = """
- object: A
  fields:
    name: points at the second B
    b:
      reference: second
- object: B
  nickname: first
  fields:
    name: first B
- object: B
  nickname: second
  fields:
    name: second B
"""

CONTINUED = """
- object: Owner
  just_once: true
  nickname: boss
  fields:
    name: the boss
- object: Thing
  count: 2
  fields:
    name: thing ${{id}}
    owner:
      reference: boss
"""


def table_rows(con, table):
    con.row_factory = sqlite3.Row
    return sorted(
        (tuple(sorted(dict(r).items())) for r in con.execute(f"select * from {table}")),
    )


def compare(label, recipe, tables, problems, tmp, **kwargs):
    """Write recipe to json + database + sql script in one run, compare per table."""
    tmp = Path(tmp) / label
    tmp.mkdir()
    jsonfile, sqlfile, dbfile = tmp / "o.json", tmp / "o.sql", tmp / "o.db"
    generate_data(
        io.StringIO(recipe),
        output_files=[str(jsonfile), str(sqlfile)],
        dburl=f"sqlite:///{dbfile}",
        **kwargs,
    )
    reference = json.loads(jsonfile.read_text())
    script = sqlite3.connect(":memory:")
    script.executescript(sqlfile.read_text())
    db = sqlite3.connect(dbfile)
    for table in tables:
        expected = sorted(
            tuple(sorted((k, v) for k, v in row.items() if k != "_table"))
            for row in reference
            if row["_table"] == table
        )
        for kind, con in (("sql database", db), ("sql script", script)):
            got = [
                tuple((k, int(v) if k != "name" and v is not None else v) for k, v in row)
                for row in table_rows(con, table)
            ]
            if got != expected:
                problems.append(f"{label}, {kind}, table {table}: expected {expected} got {got}")
    db.close()
    script.close()


def main():
    problems = []
    with tempfile.TemporaryDirectory(dir="/tmp") as tmp:
        compare("forward reference", FORWARD, ["A", "B"], problems, tmp)

        cont = Path(tmp) / "continuation.yml"
        generate_data(
            io.StringIO(CONTINUED),
            output_file=io.StringIO(),
            output_format="json",
            generate_continuation_file=str(cont),
        )
        compare(
            "continuation run",
            CONTINUED,
            ["Thing"],
            problems,
            tmp,
            continuation_file=str(cont),
        )
    if problems:
        print("FAIL")
        for p in problems:
            print("  " + p)
        sys.exit(1)
    print("PASS")


main()
