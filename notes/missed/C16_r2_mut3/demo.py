"""C16 demo 3: a lookup that is empty in the first iteration.

One Account per iteration; the very first Account has no parent, every later
one points to a random earlier Account.  Rows 2 and 3 are emitted with a
reference in ParentId, so the mapping must list ParentId as a lookup to
Account (with `after: Insert Account`, being a self reference).
"""
import io
import json
import os
import sys
import tempfile
import warnings

import yaml

from snowfakery import generate_data

RECIPE = """
- object: Account
  fields:
    Name:
      fake: company
    ParentId:
      if:
        - choice:
            when: ${{ id > 1 }}
            pick:
              random_reference:
                to: Account
                scope: prior-and-current-iterations
        - choice:
            pick: null
"""


def main():
    warnings.simplefilter("ignore")
    out = io.StringIO()
    with tempfile.TemporaryDirectory(dir="/tmp") as d:
        mapping_file = os.path.join(d, "mapping.yml")
        generate_data(
            io.StringIO(RECIPE),
            generate_cci_mapping_file=mapping_file,
            output_file=out,
            output_format="json",
            target_number=(3, "Account"),
        )
        with open(mapping_file) as f:
            mapping = yaml.safe_load(f)

    rows = json.loads(out.getvalue())
    parents = [row["ParentId"] for row in rows]
    assert len(rows) == 3 and parents[0] is None and all(parents[1:]), parents

    step = mapping["Insert Account"]
    lookup = step.get("lookups", {}).get("ParentId")
    problems = []
    if "ParentId" in step["fields"]:
        problems.append("ParentId is listed as a plain field")
    if not lookup or lookup.get("table") != "Account":
        problems.append(f"ParentId is not a lookup to Account (lookups={step.get('lookups')})")
    elif lookup.get("after") != "Insert Account":
        problems.append(f"self lookup ParentId has after={lookup.get('after')!r}")
    if problems:
        print(f"FAIL: emitted ParentId values {parents}, but:")
        for p in problems:
            print("   ", p)
        print("    mapping =", mapping)
        return 1
    print("PASS")
    return 0


if __name__ == "__main__":
    sys.exit(main())
