"""C20 demo 1: update mode (update_input_file=...) with a recipe that holds no statement.

A recipe made only of declarations (options, macros, plugins, a version line) or an
empty list has no object template.  In update mode that is a recipe fault: it must be
rejected with a DataGenError ("Update recipes should have a single object declaration")
before anything is written.  Exit 0 / PASS when every case is rejected that way.
"""
import io
import os
import sys
import tempfile
import warnings

warnings.simplefilter("ignore")

from snowfakery import generate_data
from snowfakery.data_gen_exceptions import DataGenError

CASES = {
    "only an option": "- option: who\n  default: world\n",
    "only a version line": "- snowfakery_version: 3\n",
    "only a macro": "- macro: address\n  fields:\n    city: Burnaby\n",
    "empty list": "[]\n",
    # control: two statements, rejected by the same check on every version
    "two templates": "- object: A\n- object: B\n",
}


def main():
    fd, csv_path = tempfile.mkstemp(suffix=".csv", dir="/tmp")
    with os.fdopen(fd, "w") as f:
        f.write("id,Name\n1,Alpha\n2,Beta\n")
    failures = []
    try:
        for name, recipe in CASES.items():
            out = io.StringIO()
            try:
                generate_data(
                    io.StringIO(recipe),
                    output_file=out,
                    output_format="txt",
                    update_input_file=csv_path,
                )
                observed = f"no error, output {out.getvalue()!r}"
                ok = False
            except DataGenError as e:
                observed = f"{type(e).__name__}: {e.message}"
                ok = bool(e.message) and not out.getvalue()
            except Exception as e:  # internal failure escaping the API
                observed = f"INTERNAL {type(e).__name__}: {e}"
                ok = False
            print(f"  {name:22s} -> {observed}")
            if not ok:
                failures.append((name, observed))
    finally:
        os.unlink(csv_path)
    if failures:
        print("FAIL:", "; ".join(f"{n}: {o}" for n, o in failures))
        return 1
    print("PASS")
    return 0


if __name__ == "__main__":
    sys.exit(main())
