"""C11 / change 3: both ends of random_number's lattice must be attainable.
A recipe that also asks for a `unique_id` is run in several FRESH processes
(one short run each, the way a CLI or a job queue runs Snowfakery).  If every
process produces the same "random" numbers, no value but that one is ever
attainable for this recipe - in particular not the ends of the range."""
import io
import json
import subprocess
import sys

RECIPE = """
- snowfakery_version: 3
- object: A
  count: 2
  fields:
    code: ${{unique_id}}
    n:
      random_number:
        min: 1
        max: 1000000
    coin:
      random_number:
        min: 1
        max: 2
"""
PROCESSES = 10


def child():
    from snowfakery import generate_data

    out = io.StringIO()
    generate_data(io.StringIO(RECIPE), output_file=out, output_format="json")
    rows = json.loads(out.getvalue())
    print(json.dumps([[r["n"], r["coin"]] for r in rows]))


def main():
    runs = []
    for _ in range(PROCESSES):
        res = subprocess.run(
            [sys.executable, __file__, "--child"],
            capture_output=True,
            text=True,
            check=True,
        )
        runs.append(json.loads(res.stdout.strip().splitlines()[-1]))
    first_row_n = [run[0][0] for run in runs]
    coins = {tuple(coin for _, coin in run) for run in runs}
    distinct = len(set(first_row_n))
    # unchanged code: 10 independent draws from 1..1000000 (a repeat is a 1e-4 event)
    # and 10 independent pairs of coin flips (all pairs equal: 4**-9)
    if distinct < 4 or len(coins) < 2:
        print(
            f"FAIL: {PROCESSES} fresh processes drew random_number(1, 1000000) = {first_row_n} "
            f"and the (1..2) pairs {sorted(coins)}: the draws are the same in every process, "
            "so the other values of the lattice (and its ends) are unattainable"
        )
        return 1
    print(
        f"PASS: {distinct} distinct values of random_number(1, 1000000) and "
        f"{len(coins)} distinct (1..2) pairs over {PROCESSES} fresh processes"
    )
    return 0


if __name__ == "__main__":
    if "--child" in sys.argv:
        child()
    else:
        sys.exit(main())
