"""C15 demo 2: the recurrence minus `exclude` dates, plus `include` dates.

A night shift that starts at 23:30 in zone -05:00 runs daily; the shift of 6 March is
excluded and an extra one is included on 20 March.  The excluded / included day is
written as a datetime in the shift's own zone:
  * by a formula under `snowfakery_version: 2` (formula results are text there),
  * by a quoted string under `snowfakery_version: 3`.
Both must behave like the datetime object that the same formula yields under version 3.
"""
import json
import sys
from datetime import datetime, timedelta, timezone
from io import StringIO

from dateutil import rrule

from snowfakery import generate_data

RECIPE = """
- snowfakery_version: {version}
- plugin: snowfakery.standard_plugins.Schedule
- object: Shift
  count: 6
  fields:
    At:
      Schedule.Event:
        start_date: 2024-03-04 23:30:00-05:00
        freq: daily
        until: 2024-03-09
        exclude: {exclude}
        include: {include}
"""

FORMULA = (
    "${{{{datetime(year=2024, month=3, day={day}, hour=23, minute=30, "
    "timezone=relativedelta(hours=-5))}}}}"
)
TEXT = '"2024-03-{day:02d}T23:30:00-05:00"'

CASES = {
    "version 2, formula": (2, FORMULA),
    "version 3, quoted string": (3, TEXT),
    "version 3, formula (datetime object)": (3, FORMULA),
}


def expected():
    zone = timezone(timedelta(hours=-5))
    rules = rrule.rruleset()
    rules.rrule(
        rrule.rrule(
            rrule.DAILY,
            dtstart=datetime(2024, 3, 4, 23, 30, tzinfo=zone),
            until=datetime(2024, 3, 9, 23, 30, tzinfo=zone),
        )
    )
    rules.exdate(datetime(2024, 3, 6, 23, 30, tzinfo=zone))
    rules.rdate(datetime(2024, 3, 20, 23, 30, tzinfo=zone))
    return [str(d) for d in rules]


def run(version, spelling):
    recipe = RECIPE.format(
        version=version,
        exclude=spelling.format(day=6),
        include=spelling.format(day=20),
    )
    out = StringIO()
    generate_data(StringIO(recipe), output_format="json", output_file=out)
    return [row["At"] for row in json.loads(out.getvalue())]


def main():
    want = expected()
    assert len(want) == 6
    failures = []
    for name, (version, spelling) in CASES.items():
        got = run(version, spelling)
        if got != want:
            failures.append(f"{name}:\n    expected {want}\n    observed {got}")
    if failures:
        print("FAIL")
        for f in failures:
            print("  " + f)
        return 1
    print("PASS")
    return 0


if __name__ == "__main__":
    sys.exit(main())
