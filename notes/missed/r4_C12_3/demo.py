"""C12 demo 3: unique random_reference scoped with `parent:` to a row that lives longer
than one iteration (a just_once row).

The uniqueness scope is "the Contact".  There is only one Contact (just_once), so over
all iterations every Campaign may be linked to it at most once.
(a) 6 just_once Campaigns, 2 CampaignMembers per iteration, 3 iterations:
    the 6 members must use the 6 campaigns exactly once each.
(b) 2 new Campaigns per iteration, 2 members per iteration that may pick a Campaign of
    any iteration (`scope: prior-and-current-iterations`): after 4 iterations the 8 members
    must use 8 different campaigns (the range is extended every iteration).
"""
import io
import json
import random
import sys
import warnings

from snowfakery import generate_data

warnings.simplefilter("ignore")

FIXED = """
- object: Campaign
  just_once: true
  count: 6
- object: Contact
  just_once: true
- object: CampaignMember
  count: 2
  fields:
    ContactId:
      reference: Contact
    CampaignId:
      random_reference:
        to: Campaign
        parent: Contact
        unique: true
"""

GROWING = """
- object: Contact
  just_once: true
- object: Campaign
  count: 2
- object: CampaignMember
  count: 2
  fields:
    ContactId:
      reference: Contact
    CampaignId:
      random_reference:
        to: Campaign
        parent: Contact
        scope: prior-and-current-iterations
        unique: true
"""


def refs(recipe, n):
    out = io.StringIO()
    generate_data(
        io.StringIO(recipe),
        output_file=out,
        output_format="json",
        target_number=(n, "CampaignMember"),
    )
    rows = json.loads(out.getvalue())
    assert {r["ContactId"] for r in rows if r["_table"] == "CampaignMember"} == {1}
    return [r["CampaignId"] for r in rows if r["_table"] == "CampaignMember"]


def main():
    for name, recipe, n in (("a", FIXED, 6), ("b", GROWING, 8)):
        for seed in range(25):
            random.seed(seed)
            try:
                got = refs(recipe, n)
            except Exception as e:  # noqa
                print(f"FAIL ({name}) seed={seed}: {type(e).__name__}: {str(e).splitlines()[0]}")
                return 1
            if sorted(got) != list(range(1, n + 1)):
                print(f"FAIL ({name}) seed={seed}: campaigns linked to the one Contact: {got}")
                return 1
    print("PASS")
    return 0


if __name__ == "__main__":
    sys.exit(main())
