"""C02 demo 2: a forward reference that only happens from the second iteration on
and whose target is not created in that iteration."""
import io
import re
import sys
import warnings

from snowfakery import generate_data
from snowfakery.data_gen_exceptions import DataGenError

RECIPE = """
- object: Task
  fields:
    # the first task has no reviewer; later tasks point (forward) at this iteration's reviewer
    reviewer:
      if:
        - choice:
            when: ${{ id > 1 }}
            pick:
              reference: TheReviewer
        - choice:
            pick: nobody
- object: Person
  nickname: TheReviewer
  # a reviewer is hired in the first two iterations only
  count: ${{ 1 if Task.id <= 2 else 0 }}
"""

ROW = re.compile(r"^(\w+)\((.*)\)$")
REF = re.compile(r"=(\w+)\((\d+)\)")


def run(recipe, **kwargs):
    out = io.StringIO()
    with warnings.catch_warnings():
        warnings.simplefilter("ignore")
        generate_data(io.StringIO(recipe), output_file=out, output_format="txt", **kwargs)
    return out.getvalue()


def dangling(text):
    rows, refs = set(), []
    for line in text.splitlines():
        m = ROW.match(line.strip())
        if not m:
            continue
        table, body = m.groups()
        rowid = int(re.search(r"\bid=(\d+)", body).group(1))
        rows.add((table, rowid))
        for t, i in REF.findall(body):
            refs.append(((table, rowid), (t, int(i))))
    return [(src, dst) for src, dst in refs if dst not in rows], rows


def main():
    # 3 iterations: in the third one Task(3).reviewer is a forward reference to a
    # Person that is never created -> the run has to fail
    try:
        text = run(RECIPE, target_number=(3, "Task"))
    except DataGenError as e:
        if "not fulfilled" in str(e):
            print("PASS: the run failed as it must:", str(e).splitlines()[0])
            return 0
        raise
    bad, rows = dangling(text)
    if bad:
        print("FAIL: the run completed with dangling references (source -> missing target):", bad)
        print(text)
        return 1
    print("FAIL: the run completed although a forward reference had no target")
    print(text)
    return 1


if __name__ == "__main__":
    sys.exit(main())
