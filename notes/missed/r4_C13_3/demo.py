"""C13 demo 3: alpha codes over alphabets whose characters are (non-ASCII) decimal digits.

An alphabet is any string of distinct characters.  Codes must consist of
characters of that alphabet only, be at least `min_chars` long, and be pairwise
distinct within a generator.  (Default recipe dialect, i.e. snowfakery_version 2.)
"""
import json
import sys
from io import StringIO

from snowfakery import generate_data

EASTERN = "٠١٢٣٤٥٦٧٨٩"  # ARABIC-INDIC DIGIT ZERO .. NINE
MIXED = EASTERN + "0123456789"  # 20 distinct characters
ASCII_FIRST = "0123456789" + EASTERN  # the same 20 characters, ASCII digits first

RECIPE = f"""
- plugin: snowfakery.standard_plugins.UniqueId
- var: Eastern
  value:
    UniqueId.AlphaCodeGenerator:
      alphabet: "{EASTERN}"
      min_chars: 12
- var: Mixed
  value:
    UniqueId.AlphaCodeGenerator:
      alphabet: "{MIXED}"
      min_chars: 6
      randomize_codes: False
- var: MixedRandom
  value:
    UniqueId.AlphaCodeGenerator:
      template: context, index
      alphabet: "{MIXED}"
      min_chars: 10
- var: AsciiFirst
  value:
    UniqueId.AlphaCodeGenerator:
      alphabet: "{ASCII_FIRST}"
      min_chars: 3
      randomize_codes: False
- object: Example
  count: 40
  fields:
    eastern: ${{{{Eastern.unique_id}}}}
    mixed: ${{{{Mixed.unique_id}}}}
    mixed_random: ${{{{MixedRandom.unique_id}}}}
    ascii_first: ${{{{AsciiFirst.unique_id}}}}
"""

out = StringIO()
generate_data(StringIO(RECIPE), output_file=out, output_format="json")
rows = [r for r in json.loads(out.getvalue()) if r["_table"] == "Example"]

problems = []
for field, alphabet, min_chars in (
    ("eastern", EASTERN, 12),
    ("mixed", MIXED, 6),
    ("mixed_random", MIXED, 10),
    ("ascii_first", ASCII_FIRST, 3),
):
    # (a code made of ASCII digits only, without a leading 0, is an int in the row)
    values = [str(r[field]) for r in rows]
    bad = [v for v in values if len(v) < min_chars or not set(v) <= set(alphabet)]
    if bad:
        problems.append(
            f"{field}: {len(bad)} of {len(values)} values are not >= {min_chars} characters "
            f"of the alphabet, e.g. {bad[:3]!r}"
        )
    if len(set(values)) != len(values):
        seen, dups = {}, []
        for r in rows:
            v = str(r[field])
            if v in seen:
                dups.append((v, seen[v], r["id"]))
            seen.setdefault(v, r["id"])
        problems.append(f"{field}: duplicates (value, row, row): {dups[:4]}")

if len(rows) != 40:
    problems.append(f"{len(rows)} rows")
if problems:
    print("FAIL:")
    for p in problems:
        print("  " + p)
    sys.exit(1)
print("PASS: 4 x 40 codes, all over their alphabet, long enough, pairwise distinct")
