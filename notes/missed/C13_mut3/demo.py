"""C13 demo 3: ids drawn before and after a continuation (same process) must not collide.

A `just_once` object keeps a NumericIdGenerator in a hidden field; ordinary rows draw their ids from it
(`${{Registry.__ids.unique_id}}`).  The recipe is run once with `generate_continuation_file`, then continued
twice from the continuation file -- all inside this one process.  Every id handed out by the three runs
must be distinct, in small-id and in big-id mode.
"""
import io
import json
import sys
from collections import Counter

from snowfakery import generate_data

RECIPE = """
- plugin: snowfakery.standard_plugins.UniqueId
- object: IdRegistry
  nickname: Registry
  just_once: True
  fields:
    __ids:
      UniqueId.NumericIdGenerator:
- object: Customer
  count: 3
  fields:
    uid: ${{Registry.__ids.unique_id}}
    other: ${{unique_id}}
"""


def run(continuation, plugin_options):
    out, cont = io.StringIO(), io.StringIO()
    generate_data(
        io.StringIO(RECIPE),
        output_file=out,
        output_format="json",
        continuation_file=io.StringIO(continuation) if continuation else None,
        generate_continuation_file=cont,
        plugin_options=plugin_options,
    )
    rows = [r for r in json.loads(out.getvalue()) if r["_table"] == "Customer"]
    return rows, cont.getvalue()


def scenario(name, plugin_options):
    values = []
    continuation = None
    for run_no in (1, 2, 3):
        rows, continuation = run(continuation, plugin_options)
        assert len(rows) == 3, rows
        for r in rows:
            values.append((r["uid"], f"run{run_no}/Customer#{r['id']}.uid"))
            values.append((r["other"], f"run{run_no}/Customer#{r['id']}.other"))
    counts = Counter(v for v, _ in values)
    dups = {v: [w for x, w in values if x == v] for v, n in counts.items() if n > 1}
    if dups:
        v, who = next(iter(dups.items()))
        print(f"FAIL [{name}]: {len(dups)} ids handed out more than once, e.g. {v} -> {who}")
        return False
    print(f"ok   [{name}]: {len(values)} ids over 3 runs, all distinct")
    return True


def main():
    ok = scenario("small ids", {"big_ids": "False"})
    ok = scenario("big ids", {"big_ids": "True", "pid": "4242"}) and ok
    print("PASS" if ok else "FAIL")
    return 0 if ok else 1


if __name__ == "__main__":
    sys.exit(main())
