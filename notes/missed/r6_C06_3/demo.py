"""C06 demo 3: a just_once row keeps its field values in every later iteration.

The just_once `Team` row holds a FORWARD reference: the `Person` it points to is
created later in the same (first) iteration.  Rows of later iterations read that
field through the just_once row's nickname.
"""
import io
import json
import sys

from snowfakery import generate_data

RECIPE = """
- object: Team
  just_once: true
  nickname: core
  fields:
    name: Core team
    lead:
      reference: first_lead        # forward reference, fulfilled below
- object: Person
  nickname: first_lead
  fields:
    name: person ${{id}}
- object: Task
  fields:
    team:
      reference: core
    team_name: ${{core.name}}
    team_lead:
      reference: core.lead
    team_lead_id: ${{core.lead.id}}
"""


def main():
    out = io.StringIO()
    try:
        generate_data(
            io.StringIO(RECIPE),
            output_file=out,
            output_format="json",
            target_number=(3, "Task"),
        )
    except Exception as e:  # noqa
        print("FAIL")
        print(f"  generation stopped: {type(e).__name__}: {e}")
        return 1
    rows = json.loads(out.getvalue())
    teams = [r for r in rows if r["_table"] == "Team"]
    tasks = [r for r in rows if r["_table"] == "Task"]
    problems = []
    if len(teams) != 1:
        problems.append(f"{len(teams)} Team rows, expected 1")
    if len(tasks) != 3:
        problems.append(f"{len(tasks)} Task rows, expected 3")
    team = teams[0]
    for t in tasks:
        seen = (t["team"], t["team_name"], t["team_lead"], t["team_lead_id"])
        expected = (team["id"], team["name"], team["lead"], team["lead"])
        if seen != expected:
            problems.append(f"Task {t['id']}: sees {seen}, the Team row was written as {expected}")
    if problems:
        print("FAIL")
        for p in problems:
            print("  " + p)
        return 1
    print("PASS")
    return 0


if __name__ == "__main__":
    sys.exit(main())
