"""C05 demo 1: one continuation FILE on disk, continued from twice in one process.

Both continued runs must start from the state stored in the file: same ids,
same next continuation file.
"""
import io
import json
import os
import sys
import tempfile

from snowfakery import generate_data

RECIPE = """
- object: Company
  just_once: true
  nickname: hq
  fields:
    name: Acme
- object: Employee
  count: 2
  fields:
    company:
      reference: hq
"""


def run(continuation_file=None, generate_continuation_file=None):
    out = io.StringIO()
    generate_data(
        io.StringIO(RECIPE),
        output_format="json",
        output_file=out,
        continuation_file=continuation_file,
        generate_continuation_file=generate_continuation_file,
    )
    rows = json.loads(out.getvalue())
    return [(r["_table"], r["id"]) for r in rows]


def main():
    tmpdir = tempfile.mkdtemp(prefix="c05_demo1_", dir="/tmp")
    cont = os.path.join(tmpdir, "continuation.yml")
    next_a = os.path.join(tmpdir, "next_a.yml")
    next_b = os.path.join(tmpdir, "next_b.yml")

    first = run(generate_continuation_file=cont)
    assert first == [("Company", 1), ("Employee", 1), ("Employee", 2)], first
    saved = open(cont).read()

    # two batches that both continue from the same file (given as a path)
    batch_a = run(continuation_file=cont, generate_continuation_file=next_a)
    batch_b = run(continuation_file=cont, generate_continuation_file=next_b)

    problems = []
    if open(cont).read() != saved:
        problems.append("the continuation file itself changed")
    expected = [("Employee", 3), ("Employee", 4)]
    if batch_a != expected:
        problems.append(f"first continued run made {batch_a}, expected {expected}")
    if batch_b != expected:
        problems.append(f"second continued run made {batch_b}, expected {expected}")
    if open(next_a).read() != open(next_b).read():
        problems.append(
            "the two runs continued from the same file wrote different continuation files:\n"
            + open(next_a).read()
            + "---\n"
            + open(next_b).read()
        )
    if problems:
        print("FAIL")
        for p in problems:
            print(" -", p)
        sys.exit(1)
    print("PASS")


if __name__ == "__main__":
    main()
