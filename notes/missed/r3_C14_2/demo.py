"""C14 demo 2: a declared option evaluates to the user's value (or its default),
whatever the option is called.

Options named `count`, `today` and `now` are declared in the recipe and
read back with ${{...}}.  The reference is the same recipe with the values written
literally.
"""
import sys
from io import StringIO

from snowfakery import generate_data

RECIPE = """
- snowfakery_version: 3
- option: count
  default: 5
- option: today
- option: now
  default: false
- object: Row
  count: 2
  fields:
    how_many: ${{count}}
    day: ${{today}}
    flag: ${{now}}
"""

LITERAL = """
- snowfakery_version: 3
- object: Row
  count: 2
  fields:
    how_many: 5
    day: "2001-02-03"
    flag: false
"""


def run(recipe, user_options=None):
    out = StringIO()
    try:
        generate_data(
            StringIO(recipe),
            user_options=user_options or {},
            output_file=out,
            output_format="json",
        )
    except Exception as e:  # report what happened instead of a traceback
        return f"{type(e).__name__}: {e}"
    return out.getvalue()


def main():
    # count and now fall back to their (falsy / ordinary) defaults, today is user-supplied
    got = run(RECIPE, {"today": "2001-02-03"})
    want = run(LITERAL)
    if got == want:
        print("PASS: options evaluate to supplied values / defaults")
        return 0
    print("FAIL: option values are not what was supplied / declared")
    print("expected:", want)
    print("observed:", got)
    return 1


if __name__ == "__main__":
    sys.exit(main())
