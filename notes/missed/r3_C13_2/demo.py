"""C13 demo 2: unique_id over a chain of runs (run + 2 continuations) in ONE process.

Every run draws 60 small ids from the UniqueId plugin's default generator.  Each run
gets a fresh generator (new context number from the process-wide counter), so the 180
encoded numbers are all different, and the scramble is injective, so the 180 ids
must be pairwise distinct.
"""
import io
import json
import os
import sys
import tempfile

from snowfakery import generate_data

RECIPE = """
- plugin: snowfakery.standard_plugins.UniqueId
- object: Example
  count: 60
  fields:
    unique: ${{UniqueId.unique_id}}
"""


def run(cont_in, cont_out):
    out = io.StringIO()
    generate_data(
        io.StringIO(RECIPE),
        output_file=out,
        output_format="json",
        continuation_file=cont_in,
        generate_continuation_file=cont_out,
        plugin_options={"big_ids": "False"},
    )
    return [r["unique"] for r in json.loads(out.getvalue())]


def main():
    tmp = tempfile.mkdtemp(prefix="c13_demo2_", dir="/tmp")
    conts = [os.path.join(tmp, f"cont{i}.yml") for i in range(3)]
    problems = []

    seen = {}
    prev = None
    for runno in range(3):
        for rowno, val in enumerate(run(prev, conts[runno]), 1):
            if val in seen:
                problems.append(
                    f"id {val} drawn twice: run {seen[val][0] + 1} row {seen[val][1]} "
                    f"and run {runno + 1} row {rowno}"
                )
            else:
                seen[val] = (runno, rowno)
        prev = conts[runno]

    if problems:
        print("FAIL:")
        for p in problems:
            print("   ", p)
        return 1
    print(f"PASS: {len(seen)} ids over 3 chained runs, all distinct")
    return 0


if __name__ == "__main__":
    sys.exit(main())
