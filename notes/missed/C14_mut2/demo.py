"""C14 / macros: "later macros override earlier ones", also through nested macros.

Template `Thing` includes `warm, big`; both of those include the shared macro `base`.
Expanding the macros by hand, in order:

    warm -> base(color=base-color, size=base-size), color=warm-color
    big  -> base(color=base-color, size=base-size), size=big-size     <- later, so it wins

gives color=base-color, size=big-size, and `base`'s friend `Tag` is created once per expansion (twice).
A linear (non-diamond) control recipe is checked as well.
"""
import io
import json
import sys

from snowfakery import generate_data

DIAMOND = """
- macro: base
  fields:
    color: base-color
    size: base-size
  friends:
    - object: Tag
      fields:
        label: from-base
- macro: warm
  include: base
  fields:
    color: warm-color
- macro: big
  include: base
  fields:
    size: big-size
- object: Thing
  count: 2
  include: warm, big
  fields:
    name: thing
"""

# the same template with the macros expanded by hand
DIAMOND_INLINE = """
- object: Thing
  count: 2
  fields:
    color: base-color
    size: big-size
    name: thing
  friends:
    - object: Tag
      fields:
        label: from-base
    - object: Tag
      fields:
        label: from-base
"""

CONTROL = """
- macro: base
  fields:
    color: base-color
    size: base-size
- macro: warm
  include: base
  fields:
    color: warm-color
- object: Thing
  include: warm
  fields:
    name: thing
"""

CONTROL_INLINE = """
- object: Thing
  fields:
    color: warm-color
    size: base-size
    name: thing
"""


def rows(recipe):
    out = io.StringIO()
    generate_data(io.StringIO(recipe), output_format="json", output_file=out)
    return json.loads(out.getvalue())


problems = []
for label, factored, inline in [
    ("control (linear nesting)", CONTROL, CONTROL_INLINE),
    ("diamond (two macros share a nested macro)", DIAMOND, DIAMOND_INLINE),
]:
    got, want = rows(factored), rows(inline)
    if got != want:
        problems.append(f"{label}:\n    with macros: {got}\n    inline     : {want}")

if problems:
    print("FAIL")
    for p in problems:
        print("  " + p)
    sys.exit(1)
print("PASS")
sys.exit(0)
