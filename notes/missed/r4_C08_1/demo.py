"""Two datetimes that denote the same instant in different UTC offsets must each be
written with their own offset by the formats that use the Salesforce datetime syntax
(debug text, CSV, SQL database / SQL script)."""
import csv
import io
import sqlite3
import sys
import tempfile
from pathlib import Path

from snowfakery import generate_data

RECIPE = """
- snowfakery_version: 3
- object: Flight
  fields:
    departs: ${{datetime(year=2021, month=3, day=4, hour=12, minute=30)}}
- object: Landing
  fields:
    arrives: ${{datetime(year=2021, month=3, day=4, hour=18, timezone=relativedelta(hours=5, minutes=30))}}
"""
EXPECTED = {
    ("Flight", "departs"): "2021-03-04T12:30:00+00:00",
    ("Landing", "arrives"): "2021-03-04T18:00:00+05:30",
}

problems = []
with tempfile.TemporaryDirectory(prefix="c08r5_demo1_") as tmp:
    tmp = Path(tmp)
    txt = io.StringIO()
    db = tmp / "out.db"
    generate_data(
        io.StringIO(RECIPE),
        output_format="txt",
        output_file=txt,
        dburls=[f"sqlite:///{db}"],
    )
    generate_data(io.StringIO(RECIPE), output_format="csv", output_folder=tmp / "csv")

    for (table, field), want in EXPECTED.items():
        if f"{field}={want}" not in txt.getvalue():
            problems.append(f"debug text: {table}.{field} should be {want}: {txt.getvalue()!r}")
        with open(tmp / "csv" / f"{table}.csv", newline="") as f:
            got = next(csv.DictReader(f))[field]
        if got != want:
            problems.append(f"CSV: {table}.{field} is {got!r}, should be {want!r}")
        con = sqlite3.connect(db)
        got = con.execute(f'select "{field}" from "{table}"').fetchone()[0]
        con.close()
        if got != want:
            problems.append(f"SQL database: {table}.{field} is {got!r}, should be {want!r}")

if problems:
    print("FAIL")
    for p in problems:
        print("  " + p)
    sys.exit(1)
print("PASS")
