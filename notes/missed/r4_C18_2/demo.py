"""C18 / change 2: a provider name denotes the same provider in every spelling, so
names generated as ${{fake.first_name}} / ${{fake.last_name}} must be picked up by a
later `fake: Email` / `fake: Username` exactly like ${{fake.FirstName}} or
`fake: first_name` are."""
import io
import json
import sys

from snowfakery import generate_data

RECIPE = """
- snowfakery_version: %(version)d
- object: Contact
  count: 20
  fields:
    FirstName: ${{fake.%(first)s}}
    LastName: ${{fake.%(last)s}}
    Email:
      fake: Email
    Username:
      fake: Username
"""
SAFE = ("example.com", "example.org", "example.net")


def clean(name):
    return "".join(ch for ch in name if ch.isalnum())


def check(version, first, last):
    recipe = RECIPE % {"version": version, "first": first, "last": last}
    out = io.StringIO()
    generate_data(io.StringIO(recipe), output_file=out, output_format="json")
    rows = json.loads(out.getvalue())
    assert len(rows) == 20
    bad = []
    for row in rows:
        fn, ln = row["FirstName"], row["LastName"]
        local, _, domain = row["Email"].rpartition("@")
        if domain not in SAFE or clean(ln) not in local:
            bad.append((fn, ln, row["Email"]))
        if not row["Username"].startswith(f"{clean(fn)}.{clean(ln)}"[:20]):
            bad.append((fn, ln, row["Username"]))
    return bad


def main():
    failures = []
    for version in (2, 3):
        for first, last in (
            ("FirstName", "LastName"),
            ("firstname", "lastname"),
            ("first_name", "last_name"),
            ("First_Name", "LAST_NAME"),
        ):
            bad = check(version, first, last)
            if bad:
                failures.append((version, first, last, bad))
    if failures:
        print("FAIL: e-mail / username not built from the row's ASCII names")
        for version, first, last, bad in failures:
            fn, ln, value = bad[0]
            print(
                f"  snowfakery_version {version}, spelled fake.{first} / fake.{last}: "
                f"names {fn!r} {ln!r} -> {value!r} ({len(bad)} offending values in 20 rows)"
            )
        sys.exit(1)
    print("PASS")


if __name__ == "__main__":
    main()
