"""random_choice must never return an option whose weight is 0 for the row at hand.

The second and third `choice` have computed weights that alternate between 0 and
100 with the parity of child_index; the first one is a literal 0.
"""
import io
import json
import sys

from snowfakery import generate_data

RECIPE = """
- object: Shift
  count: 40
  fields:
    parity: ${{child_index % 2}}
    slot:
      random_choice:
        - choice:
            probability: 0
            pick: never
        - choice:
            probability: ${{100 * (1 - child_index % 2)}}
            pick: even
        - choice:
            probability: ${{100 * (child_index % 2)}}
            pick: odd
"""


def main():
    out = io.StringIO()
    generate_data(io.StringIO(RECIPE), output_file=out, output_format="json")
    rows = [r for r in json.loads(out.getvalue()) if r["_table"] == "Shift"]
    assert len(rows) == 40, len(rows)
    bad = []
    for row in rows:
        weights = {
            "never": 0,
            "even": 100 * (1 - int(row["parity"])),
            "odd": 100 * int(row["parity"]),
        }
        if weights.get(row["slot"], 0) <= 0:
            bad.append((row["id"], row["parity"], row["slot"], weights))
    if bad:
        print(
            f"FAIL: {len(bad)} of {len(rows)} rows got an option of weight 0, "
            f"e.g. (id, parity, slot, weights) = {bad[0]}"
        )
        return 1
    print("PASS: every row got the option that carried all the weight")
    return 0


if __name__ == "__main__":
    sys.exit(main())
