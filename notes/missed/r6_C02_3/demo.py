"""C02 / change 3: a row of a VISIBLE table is created, referenced and never written.

The template of table Account carries a nickname that starts with "__" (legal: only
'.' and '"' are discouraged in nicknames).  Contact rows refer to it through
`reference`, a friend refers back to it, and `random_reference` picks it.  Every such
reference names table Account, which is not a hidden table, so the Account rows must
be in the output."""
import io
import json
import sys
import warnings

warnings.simplefilter("ignore")
from snowfakery import generate_data  # noqa: E402

RECIPE = """
- object: Account
  nickname: __main_account
  fields:
    name: Main
  friends:
    - object: Note
      fields:
        about:
          reference: Account
- object: Account
  fields:
    name: Other
- object: Contact
  count: 2
  fields:
    account:
      reference: __main_account
    any_account:
      random_reference: Account
"""
REF_FIELDS = {
    "Note": {"about": "Account"},
    "Contact": {"account": "Account", "any_account": "Account"},
}

out = io.StringIO()
generate_data(
    io.StringIO(RECIPE), output_file=out, output_format="json", target_number=(4, "Contact")
)
rows = json.loads(out.getvalue())
written = {(r["_table"], r["id"]) for r in rows}
bad = sorted(
    {
        f"{r['_table']}({r['id']}).{field} -> {target}({r[field]})"
        for r in rows
        for field, target in REF_FIELDS.get(r["_table"], {}).items()
        if (target, r[field]) not in written
    }
)
print("rows written per table:", {t: sum(1 for r in rows if r["_table"] == t) for t in ("Account", "Note", "Contact")})
if bad:
    print("FAIL: the run completed but these references name Account rows that were never written:")
    for b in bad:
        print("  ", b)
    sys.exit(1)
print("PASS")
