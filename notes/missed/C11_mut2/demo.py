"""C11 demo 2: random_choice must never return an option whose weight is 0 and must
always return the option holding all the weight - also when the weights are computed
per row with a block template (`${% if ... %}`) or the legacy `<< >>` syntax."""
import io
import json
import sys

from snowfakery import generate_data

N = 40
HALF = N // 2

RECIPES = {
    "block syntax ${% if %}": f"""
- object: A
  count: {N}
  fields:
    c:
      random_choice:
        - choice:
            probability: ${{% if id <= {HALF} %}}100%${{% else %}}0${{% endif %}}
            pick: early
        - choice:
            probability: ${{% if id <= {HALF} %}}0${{% else %}}100%${{% endif %}}
            pick: late
""",
    "legacy syntax << >>": f"""
- object: A
  count: {N}
  fields:
    c:
      random_choice:
        - choice:
            probability: << 100 if id <= {HALF} else 0 >>
            pick: early
        - choice:
            probability: << 0 if id <= {HALF} else 100 >>
            pick: late
""",
    "variable syntax ${{ }} (control)": f"""
- object: A
  count: {N}
  fields:
    c:
      random_choice:
        - choice:
            probability: ${{{{ 100 if id <= {HALF} else 0 }}}}
            pick: early
        - choice:
            probability: ${{{{ 0 if id <= {HALF} else 100 }}}}
            pick: late
""",
}

problems = []
for name, recipe in RECIPES.items():
    out = io.StringIO()
    generate_data(io.StringIO(recipe), output_file=out, output_format="json")
    rows = json.loads(out.getvalue())
    assert len(rows) == N
    wrong = [
        (row["id"], row["c"])
        for row in rows
        if row["c"] != ("early" if row["id"] <= HALF else "late")
    ]
    if wrong:
        problems.append(
            f"{name}: {len(wrong)} rows got the zero-weight option, e.g. {wrong[:4]}"
        )

if problems:
    print("FAIL")
    for p in problems:
        print("  " + p)
    sys.exit(1)
print("PASS")
