"""C12 demo 2: the first draw of a unique random_reference happens while exactly one
candidate row exists.

(a) one Owner, two Pets with `unique: true`: the second Pet cannot get an unused
    Owner, the run must stop with "Cannot find an unused ...".
(b) one nicknamed Owner and one Pet per iteration, the Pet links to an Owner of any
    iteration (`scope: prior-and-current-iterations`) with `unique: true`; after
    6 iterations the 6 Pets must reference 6 different Owners, whatever the seeds.
"""
import io
import json
import random
import sys
import warnings

from snowfakery import generate_data
from snowfakery.data_gen_exceptions import DataGenError

warnings.simplefilter("ignore")

ONE_TARGET = """
- object: Owner
- object: Pet
  count: 2
  fields:
    owner:
      random_reference:
        to: Owner
        unique: true
"""

GROWING = """
- object: Owner
  nickname: own
- object: Pet
  fields:
    owner:
      random_reference:
        to: own
        scope: prior-and-current-iterations
        unique: true
"""


def refs(recipe, table, field, **kw):
    out = io.StringIO()
    generate_data(io.StringIO(recipe), output_file=out, output_format="json", **kw)
    return [r[field] for r in json.loads(out.getvalue()) if r["_table"] == table]


def main():
    # (a)
    random.seed(1)
    try:
        got = refs(ONE_TARGET, "Pet", "owner")
    except DataGenError as e:
        if "Cannot find an unused" not in str(e):
            print(f"FAIL (a): unexpected error {e}")
            return 1
    else:
        print(f"FAIL (a): 2 unique references to a table of 1 row were handed out: {got}")
        return 1
    # (b)
    for seed in range(25):
        random.seed(seed)
        got = refs(GROWING, "Pet", "owner", target_number=(6, "Pet"))
        if sorted(got) != [1, 2, 3, 4, 5, 6]:
            print(f"FAIL (b) seed={seed}: unique references over 6 iterations: {got}")
            return 1
    print("PASS")
    return 0


if __name__ == "__main__":
    sys.exit(main())
