"""C10 demo 1: random_reference scope in the first iteration of a continuation run.

PASS on unchanged Snowfakery, FAIL when RowHistory is seeded from IdManager.start_ids.
"""
import io
import json
import sys

from snowfakery import generate_data

SCOPE_RECIPE = """
- object: A
  fields:
    tag: a
- object: B
  count: 15
  fields:
    ref:
      random_reference: A
"""

UNIQUE_RECIPE = """
- object: A
  count: 3
- object: B
  count: 3
  fields:
    ref:
      random_reference:
        to: A
        unique: true
"""


def run_chain(recipe, target, runs):
    """Run the recipe `runs` times, each continuing the previous one.
    Returns a list (one per run) of row lists, or raises."""
    cont = None
    results = []
    for _ in range(runs):
        out = io.StringIO()
        nxt = io.StringIO()
        generate_data(
            io.StringIO(recipe),
            output_format="json",
            output_file=out,
            target_number=target,
            continuation_file=cont,
            generate_continuation_file=nxt,
        )
        cont = io.StringIO(nxt.getvalue())
        results.append(json.loads(out.getvalue()))
    return results


def check_scope():
    problems = []
    for run_no, rows in enumerate(run_chain(SCOPE_RECIPE, (30, "B"), 3)):
        current_a = None  # exactly one A per iteration, created before the Bs
        for row in rows:
            if row["_table"] == "A":
                current_a = row["id"]
            elif row["ref"] != current_a:
                problems.append(
                    f"run {run_no}: B({row['id']}).ref = A({row['ref']}) but the "
                    f"A row of the current iteration is A({current_a})"
                )
    return problems


def check_unique():
    problems = []
    try:
        runs = run_chain(UNIQUE_RECIPE, (6, "B"), 3)
    except Exception as e:  # noqa
        return [f"unique: 3 pickers for 3 targets per iteration raised: {e}"]
    for run_no, rows in enumerate(runs):
        current, picked = [], []

        def close():
            if current and sorted(picked) != sorted(current):
                problems.append(
                    f"run {run_no}: unique picks {picked} are not a permutation "
                    f"of the iteration's targets {current}"
                )

        last = None
        for row in rows:
            if row["_table"] == "A":
                if last == "B":
                    close()
                    current, picked = [], []
                current.append(row["id"])
            else:
                picked.append(row["ref"])
            last = row["_table"]
        close()
    return problems


def main():
    problems = check_scope() + check_unique()
    if problems:
        print("FAIL")
        for p in problems[:12]:
            print("  ", p)
        if len(problems) > 12:
            print(f"   ... and {len(problems) - 12} more")
        return 1
    print("PASS")
    return 0


if __name__ == "__main__":
    sys.exit(main())
