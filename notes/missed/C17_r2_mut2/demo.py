"""C17 demo 2: Dataset.iterate / for_each over a SQL table whose primary key is not
in insertion order.  The k-th consuming row must get record k mod n of the table,
i.e. of `SELECT * FROM airports` (top to bottom), and for_each must follow input order.
"""
import json
import sqlite3
import sys
import tempfile
from io import StringIO
from pathlib import Path

from snowfakery import generate_data

RECIPE = """
- plugin: snowfakery.standard_plugins.datasets.Dataset
- object: Visit
  count: 9
  fields:
    __rec:
      Dataset.iterate:
        dataset: sqlite:///%(db)s
        table: airports
    code: ${{__rec.code}}
    city: ${{__rec.city}}
- object: Stop
  for_each:
    var: rec
    value:
      Dataset.iterate:
        dataset: sqlite:///%(db)s
        table: airports
  fields:
    code: ${{rec.code}}
- object: Plain
  count: 5
  fields:
    __rec:
      Dataset.iterate:
        dataset: sqlite:///%(db)s
        table: notes
    word: ${{__rec.word}}
"""

AIRPORTS = [("YVR", "Vancouver"), ("AMS", "Amsterdam"), ("SFO", "San Francisco"), ("CDG", "Paris")]
NOTES = [("zulu",), ("alpha",), ("mike",)]


def main():
    with tempfile.TemporaryDirectory(dir="/tmp") as d:
        db = Path(d) / "travel.db"
        conn = sqlite3.connect(db)
        conn.execute("CREATE TABLE airports (code TEXT PRIMARY KEY, city TEXT)")
        conn.execute("CREATE TABLE notes (word TEXT)")
        conn.executemany("INSERT INTO airports VALUES (?, ?)", AIRPORTS)
        conn.executemany("INSERT INTO notes VALUES (?)", NOTES)
        conn.commit()
        table_order = list(conn.execute("SELECT * FROM airports"))
        conn.close()
        assert table_order == AIRPORTS  # the table, top to bottom, is the insertion order

        out = StringIO()
        generate_data(StringIO(RECIPE % {"db": db}), output_format="json", output_file=out)
        rows = json.loads(out.getvalue())

    visits = [(r["code"], r["city"]) for r in rows if r["_table"] == "Visit"]
    stops = [r["code"] for r in rows if r["_table"] == "Stop"]
    plain = [r["word"] for r in rows if r["_table"] == "Plain"]

    n = len(AIRPORTS)
    problems = []
    expected_visits = [AIRPORTS[k % n] for k in range(9)]
    if visits != expected_visits:
        problems.append(f"Dataset.iterate gave {[c for c, _ in visits]}, expected {[c for c, _ in expected_visits]}")
    if stops != [c for c, _ in AIRPORTS]:
        problems.append(f"for_each gave {stops}, expected {[c for c, _ in AIRPORTS]}")
    if plain != [NOTES[k % 3][0] for k in range(5)]:
        problems.append(f"keyless table gave {plain}")

    if problems:
        print("FAIL: SQL records not handed out in table order")
        for p in problems:
            print("  " + p)
        sys.exit(1)
    print("PASS: rows follow the table order (with wrap-around), for_each follows input order")


if __name__ == "__main__":
    main()
