import io, warnings
warnings.simplefilter("ignore")
from snowfakery import generate_data
def run(recipe, fmt="txt", **kw):
    out = io.StringIO()
    generate_data(io.StringIO(recipe), output_file=out, output_format=fmt, **kw)
    return out.getvalue()
base = """
- snowfakery_version: VER
- var: v
  value: 10
- object: P
  nickname: pp
  count: 2
  fields:
    a: ${{child_index + v}}
    kid:
      - object: K
        count: ${{child_index + 1}}
        fields:
          par:
            reference: P
          pa: ${{P.a}}
          ci: ${{child_index}}
          s: k${{id}}_${{pp.id}}
    b: ${{kid.ci}}
    c: ${{kid}}
    d: "007"
    e: "12"
    f: 1${{a}}
    g: ${{this.a * 2}}
  friends:
    - var: v
      value: ${{v + 100}}
    - object: F
      fields:
        p:
          reference: pp
        q: ${{v}}
        fwd:
          reference: Z
- object: Z
  count: 1
  fields:
    v: ${{v}}
    lastp:
      reference: P
"""
for ver in (2,3):
    try: print(run(base.replace("VER", str(ver)), fmt="json"))
    except Exception as e: print("ERR", type(e).__name__, e)
