import os
exec(open(os.path.join(os.path.dirname(os.path.abspath(__file__)), "probe_c03_names_counts_vars.py")).read().split("show(\"bare_slot_formula\"")[0])
show("bare_slot_written", """
- object: A
  fields:
    x: ${{B}}
- object: B
  count: 2
""")
show("self_and_parent_refs", """
- object: P
  nickname: pp
  fields:
    me:
      reference: P
    kid:
      - object: K
        nickname: kk
        fields:
          up:
            reference: pp
          me:
            reference: kk
          sib:
            reference: K
  friends:
    - object: K
      fields:
        up:
          reference: P
        prev:
          reference: kk
""")
show("var_scope", """
- var: a
  value: 1
- object: P
  count: 2
  fields:
    x: ${{a}}
    kid:
      - object: K
        fields:
          y: ${{a}}
        friends:
          - var: a
            value: ${{a + 10}}
          - object: G
            fields:
              z: ${{a}}
    w: ${{a}}
  friends:
    - var: a
      value: ${{a + 100}}
- object: Z
  fields:
    v: ${{a}}
""")
show("hidden_stuff", """
- object: __H
  nickname: hh
  fields:
    n: 3
    k:
      - object: V
        fields:
          q: 1
- object: A
  count: ${{hh.n - 1}}
  fields:
    __c: ${{hh.n * 2}}
    d: ${{__c + 1}}
    __e:
      - object: W
    f: ${{__e.id}}
    h:
      reference: hh
""")
show("dotted_ref", """
- object: C
  nickname: fluffy
  fields:
    color: black
- object: F
  nickname: sam
  fields:
    pet:
      reference: fluffy
- object: B
  fields:
    spouse:
      reference: sam
    pet:
      reference: spouse.pet
    color: ${{pet.color}}
    bad:
      reference: spouse.pet.color
""")
