import io, warnings, tempfile, os
warnings.simplefilter("ignore")
from snowfakery import generate_data
def run(recipe, fmt="txt", **kw):
    out = io.StringIO()
    generate_data(io.StringIO(recipe), output_file=out, output_format=fmt, **kw)
    return out.getvalue()
d = tempfile.mkdtemp()
for name, r in {
"hidden_target": """
- object: __H
  fields:
    a: 1
- object: A
  fields:
    h:
      reference: __H
""",
"literal_ref": """
- object: A
  fields:
    h:
      reference:
        object: Zed
        id: 5
""",
"hidden_field_ref": """
- object: B
- object: A
  fields:
    __h:
      reference: B
    x: ${{__h.id}}
""",
"nested_in_hidden": """
- object: A
  fields:
    __h:
      - object: B
        fields:
          q: 1
    x: 2
"""}.items():
    m = os.path.join(d, name + ".yml")
    try:
        print(name, run(r, generate_cci_mapping_file=m))
        print(open(m).read())
    except Exception as e:
        print(name, "ERR", type(e).__name__, e)
