import os
exec(open(os.path.join(os.path.dirname(os.path.abspath(__file__)), "probe_c03_names_counts_vars.py")).read().split("show(\"bare_slot_formula\"")[0])
show("concat_forms", """
- object: A
  fields:
    n: 5
    a: x${{n}}
    b: ${{n}}x
    c: ${{n}}${{n}}
    d: ${{n}} ${{n}}
    e: ${{n}}_${{n}}
    f: ${{n}}.${{n}}
    g: -${{n}}
    h: ${{n}}-${{n}}
    i: 0${{n}}
    j: ${{n}}e2
    k: T${{'rue'}}
    l: "${{n}}"
    m: " ${{n}}"
    o: ${{n * 2 - 1}}
    p: ${{'a' ~ n}}
    q: ${{ n }}${{ '' }}
    r: abc
    s: "1.50"
    t: "1."
    u: ".5"
    v: "1.2.3"
    w: "00"
    x: "0.5"
    y: "123abc"
    z: ""
""")
show("str_of_values", """
- object: B
- object: A
  fields:
    a: r${{B}}
    b: ${{B}}
    c: ${{B.id}}
    d: ${{None}}
    e: x${{None}}
    f: ${{true}}
    g: x${{true}}
    h: ${{ 7 // 2 }}
    i: ${{ 7 / 2 }}
    j: ${{ 2 ** 70 }}
    k: ${{ '5' | int + 1 }}
""")
