import io, warnings, tempfile, os, sqlite3, json, csv
warnings.simplefilter("ignore")
from snowfakery import generate_data
d = tempfile.mkdtemp(dir="/var/tmp/w")
R = """
- snowfakery_version: 3
- object: T
  fields:
    n: 1
- object: A
  count: 2
  fields:
    b: ${{ child_index == 0 }}
    nul: ${{ None }}
    dt: ${{ date('2020-02-29') }}
    dtm: ${{ datetime(year=2020, month=2, day=29, hour=5, minute=6, second=7, microsecond=123) }}
    dec: ${{ fake.pydecimal(left_digits=2, right_digits=2, positive=True) * 0 + 3 }}
    big: ${{ 2 ** 70 }}
    neg: ${{ -5 }}
    flt: ${{ 0.1 + 0.2 }}
    uni: "zé😀"
    host: "a,b \\"q\\" 'x'; line1\\nline2"
    numstr: "0012"
    ref:
      reference: T
    emp: ""
"""
open(d+"/r.yml","w").write(R)
generate_data(d+"/r.yml", output_files=[d+"/o.txt", d+"/o.json", d+"/o.sql"], dburls=[f"sqlite:///{d}/o.db"])
generate_data(d+"/r.yml", output_format="csv", output_folder=d+"/csv")
print("TXT:", open(d+"/o.txt").read())
print("JSON:", open(d+"/o.json").read())
print("CSV:", repr(open(d+"/csv/A.csv").read()))
con = sqlite3.connect(d+"/o.db")
print("DB schema:", con.execute("select sql from sqlite_master where name='A'").fetchall())
for row in con.execute("select *, typeof(b), typeof(big), typeof(dt), typeof(flt), typeof(ref), typeof(id), typeof(nul) from A"): print("DB:", row)
print("SQL:", [l for l in open(d+"/o.sql").read().splitlines() if 'INSERT INTO "A"' in l][:1])
