import io, warnings, tempfile, os, sqlite3
warnings.simplefilter("ignore")
from snowfakery import generate_data
d = tempfile.mkdtemp(dir="/var/tmp/w")
R = """
- snowfakery_version: 3
- object: A
  count: 3
  fields:
    big: ${{ 2 ** 70 if child_index == 1 else 5 }}
"""
open(d+"/r.yml","w").write(R)
try:
    rc = generate_data(d+"/r.yml", dburls=[f"sqlite:///{d}/o.db"])
    print("generate_data returned normally:", rc)
except Exception as e:
    print("raised", type(e).__name__, e)
con = sqlite3.connect(d+"/o.db")
print("rows in DB:", con.execute("select count(*) from A").fetchall())
# CLI exit code
import subprocess, sys
p = subprocess.run([sys.executable, "-m", "snowfakery", d+"/r.yml", "--dburl", f"sqlite:///{d}/o2.db"], capture_output=True, text=True, env={**os.environ, "PYTHONPATH": "/repo"})
print("cli rc:", p.returncode, "| stdout:", p.stdout.strip()[:200], "| stderr:", p.stderr.strip()[-200:])
