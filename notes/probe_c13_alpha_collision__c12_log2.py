import io, warnings
warnings.simplefilter("ignore")
from snowfakery import generate_data
def run(recipe, fmt="txt", **kw):
    out = io.StringIO()
    generate_data(io.StringIO(recipe), output_file=out, output_format=fmt, **kw)
    return out.getvalue()
r = """
- plugin: snowfakery.standard_plugins.UniqueId
- var: G
  value:
    UniqueId.AlphaCodeGenerator:
- var: H
  value:
    UniqueId.AlphaCodeGenerator:
- var: N1
  value:
    UniqueId.NumericIdGenerator: index
- var: N2
  value:
    UniqueId.NumericIdGenerator: index
- object: A
  count: 2
  fields:
    a: ${{unique_alpha_code}}
    b: ${{G.unique_id}}
    c: ${{H.unique_id}}
    d: ${{unique_id}}
    e: ${{UniqueId.unique_id}}
    n1: ${{N1.unique_id}}
    n2: ${{N2.unique_id}}
"""
print(run(r))
r = """
- plugin: snowfakery.standard_plugins.UniqueId
- var: G
  value:
    UniqueId.AlphaCodeGenerator:
      alphabet: "01"
- object: A
  count: 2
  fields:
    b: ${{G.unique_id}}
"""
try: print(run(r))
except Exception as e: print("ERR", type(e).__name__, str(e)[:200])
import math
bad=[k for k in range(1,200) if int(math.log(2**k,2))+1 != k+1]
print("log bad powers:", bad[:20])
bad2=[k for k in range(1,80) if int(2**math.ceil(math.log2(2**k+1))) < 2**k+1]
print("ceil log2 bad:", bad2[:10])
