import io, warnings, tempfile, os, random
warnings.simplefilter("ignore")
from snowfakery import generate_data
def run(recipe, fmt="txt", **kw):
    out = io.StringIO()
    generate_data(io.StringIO(recipe), output_file=out, output_format=fmt, **kw)
    return out.getvalue()
print("== update_key + csv")
r = """
- object: A
  update_key: name
  fields:
    name: x
- object: A
  fields:
    name: y
"""
d = tempfile.mkdtemp()
try:
    generate_data(io.StringIO(r), output_format="csv", output_folder=d)
    print(open(d+"/A.csv").read())
except Exception as e: print("ERR", type(e).__name__, e)
print("== datetime_between offsets")
r = """
- snowfakery_version: 3
- object: A
  count: 3
  fields:
    d:
      datetime_between:
        start_date: 2023-01-01T10:00:00-05:00
        end_date: 2023-01-01T12:00:00+00:00
"""
try: print(run(r))
except Exception as e: print("ERR", type(e).__name__, e)
r = """
- snowfakery_version: 3
- object: A
  count: 3
  fields:
    d:
      datetime_between:
        start_date: 2023-01-01T10:00:00+05:00
        end_date: 2023-01-01T06:00:00+00:00
"""
try: print(run(r))
except Exception as e: print("ERR", type(e).__name__, e)
print("== random_reference to forward-reserved")
r = """
- object: R
  fields:
    x:
      reference: bb
- object: B
  fields:
    name: first
- object: P
  count: 6
  fields:
    y:
      random_reference: B
- object: B
  nickname: bb
  fields:
    name: second
"""
random.seed(1)
try: print(run(r))
except Exception as e: print("ERR", type(e).__name__, e)
r2 = r.replace("random_reference: B", "random_reference: B\n    z: ${{y.name}}")
random.seed(1)
try: print(run(r2))
except Exception as e: print("ERR", type(e).__name__, e)
