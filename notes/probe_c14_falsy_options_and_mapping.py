import io, warnings, tempfile, os
warnings.simplefilter("ignore")
from snowfakery import generate_data
def run(recipe, **kw):
    out = io.StringIO()
    generate_data(io.StringIO(recipe), output_file=out, output_format="txt", **kw)
    return out.getvalue()

r = """
- option: n
  default: 5
- object: A
  fields:
    x: ${{n}}
"""
for v in [3, 0, False, "", "0"]:
    try:
        print(repr(v), run(r, user_options={"n": v}).strip())
    except Exception as e:
        print(repr(v), "ERR", type(e).__name__, e)
r2 = """
- option: n
  default: 0
- object: A
  fields:
    x: ${{n}}
"""
try:
    print(run(r2))
except Exception as e:
    print("ERR", type(e).__name__, e)

# continuation + mapping
r3 = """
- object: P
  just_once: true
  nickname: pp
  fields:
    name: x
- object: C
  fields:
    parent:
      reference: pp
"""
d = tempfile.mkdtemp()
cont = os.path.join(d, "c.yml"); m1 = os.path.join(d,"m1.yml"); m2=os.path.join(d,"m2.yml")
print(run(r3, generate_continuation_file=cont, generate_cci_mapping_file=m1))
print(open(cont).read())
cont2 = os.path.join(d, "c2.yml")
print(run(r3, continuation_file=cont, generate_continuation_file=cont2, generate_cci_mapping_file=m2))
print(open(m1).read()); print("----"); print(open(m2).read())
print(open(cont2).read())
