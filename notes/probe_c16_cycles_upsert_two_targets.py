import io, warnings, tempfile, os
warnings.simplefilter("ignore")
from snowfakery import generate_data
d = tempfile.mkdtemp(dir="/var/tmp/w")
def m(name, r):
    p = d+f"/{name}.yml"
    try:
        generate_data(io.StringIO(r), output_file=io.StringIO(), output_format="txt", generate_cci_mapping_file=p)
        print(f"== {name}\n" + open(p).read())
    except Exception as e: print(f"== {name} ERR", type(e).__name__, e)
m("cycle_self", """
- object: A
  nickname: a1
  fields:
    self:
      reference: A
    b:
      reference: B
- object: B
  fields:
    a:
      reference: a1
    c:
      reference: C
- object: C
  fields:
    x: 1
""")
m("upsert_two_steps", """
- object: P
  update_key: name
  fields:
    name: x
- object: P
  fields:
    name: y
- object: C
  fields:
    p:
      reference: P
""")
m("field_two_targets", """
- object: X
- object: Y
- object: A
  count: 2
  fields:
    r:
      reference: ${{ 'X' if child_index == 0 else 'Y' }}
""")
