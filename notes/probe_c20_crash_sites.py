import io, warnings
warnings.simplefilter("ignore")
from snowfakery import generate_data
from snowfakery.data_gen_exceptions import DataGenError
def run(recipe, fmt="txt", **kw):
    out = io.StringIO()
    generate_data(io.StringIO(recipe), output_file=out, output_format=fmt, **kw)
    return out.getvalue()
cases = {
 "friends_scalar": "- object: A\n  friends:\n    - foo\n",
 "plugin_int": "- plugin: 5\n",
 "include_abs": "- include_file: /etc/passwd\n",
 "field_list2": "- object: A\n  fields:\n    x: [1,2]\n",
 "var_fake_nosuch": "- var: v\n  value:\n    fake.nosuch: 1\n",
 "top_scalar": "- 5\n",
 "top_map": "a: b\n",
 "empty": "",
 "object_int": "- object: 5\n",
 "fields_list": "- object: A\n  fields:\n   - a\n",
 "count_list": "- object: A\n  count: [1]\n",
 "count_float": "- object: A\n  count: 1.5\n",
 "nick_int": "- object: A\n  nickname: 5\n",
 "macro_int": "- macro: 5\n  fields:\n    a: b\n- object: A\n  include: 5\n",
 "option_nodefault": "- option: x\n- object: A\n",
 "option_int": "- option: 5\n  default: 3\n- object: A\n",
 "var_noval": "- var: x\n",
 "var_null": "- var: x\n  value: null\n",
 "for_each_str": "- object: A\n  for_each: abc\n",
 "for_each_novalue": "- object: A\n  for_each:\n    var: x\n",
 "field_key_int": "- object: A\n  fields:\n    5: x\n",
 "struct_key_null": "- object: A\n  fields:\n    x:\n      random_number:\n        null: 3\n",
 "struct_empty": "- object: A\n  fields:\n    x: {}\n",
 "version_bad": "- snowfakery_version: 7\n- object: A\n",
 "version_two": "- snowfakery_version: 2\n- snowfakery_version: 3\n- object: A\n",
 "two_cats": "- object: A\n  var: b\n  value: 1\n",
 "macro_fields_list": "- macro: m\n  fields: [1]\n- object: A\n  include: m\n",
 "ref_missing": "- object: A\n  fields:\n    x:\n      reference: Nope\n",
 "ref_dict": "- object: A\n  fields:\n    x:\n      reference:\n        foo: bar\n",
 "func_name_int": "- object: A\n  fields:\n    x:\n      5: bar\n",
 "func_dots": "- object: A\n  fields:\n    x:\n      a.b.c: bar\n",
 "func_dots_var": "- var: q\n  value:\n    a.b.c: bar\n",
 "just_once_str": "- object: A\n  just_once: yes please\n",
 "nested_just_once": "- object: A\n  fields:\n    x:\n      - object: B\n        just_once: true\n",
 "include_file_int": "- include_file: 5\n",
 "include_missing": "- include_file: nosuch.yml\n",
 "update_key_int": "- object: A\n  update_key: 5\n",
 "object_null_fields": "- object: A\n  fields:\n",
 "friends_null": "- object: A\n  friends:\n",
 "float_field": "- object: A\n  fields:\n    x: 1.5\n",
 "bool_key": "- object: A\n  fields:\n    true: 1.5\n",
 "date_field": "- object: A\n  fields:\n    x: 2020-01-01\n",
 "bytes": "- object: A\n  fields:\n    x: !!binary aGVsbG8=\n",
 "set": "- object: A\n  fields:\n    x: !!set {a, b}\n",
 "alias": "- &a\n  object: A\n- *a\n",
 "self_alias": "- object: A\n  fields: &f\n    x: *f\n",
 "count_neg": "- object: A\n  count: -3\n",
 "count_null": "- object: A\n  count: null\n",
 "count_formula_str": "- object: A\n  count: ${{'abc'}}\n",
 "object_empty_str": "- object: ''\n",
 "var_formula_undefined": "- var: x\n  value: ${{nope + 1}}\n- object: A\n",
 "var_syntax": "- var: x\n  value: ${{ 1 + }}\n- object: A\n",
}
for name, r in cases.items():
    try:
        out = run(r)
        print(f"{name:22s} OK   {out.strip()[:60]!r}")
    except DataGenError as e:
        print(f"{name:22s} DGE  {type(e).__name__}: {str(e)[:70]!r}")
    except BaseException as e:
        print(f"{name:22s} CRASH {type(e).__name__}: {str(e)[:90]!r}")
