import io, warnings, tempfile, os, traceback
warnings.simplefilter("ignore")
from snowfakery import generate_data
def run(recipe, **kw):
    out = io.StringIO()
    generate_data(io.StringIO(recipe), output_file=out, output_format="txt", **kw)
    return out.getvalue()
def split(r, **kw):
    d = tempfile.mkdtemp()
    cont = os.path.join(d, "c.yml")
    try:
        a = run(r, generate_continuation_file=cont, **kw)
        print(a)
        print(open(cont).read())
        b = run(r, continuation_file=cont, **kw)
        print(b)
    except Exception as e:
        print("ERR", type(e).__name__, str(e)[:300])
    print("unsplit:")
    print(run(r, target_number=("__REPS__",2) if False else None, **kw))

print("=== nested row value in just_once")
split("""
- object: B
  just_once: true
  fields:
    name: x
- object: A
  just_once: true
  nickname: aa
  fields:
    b:
      reference: B
- object: C
  fields:
    bn: ${{aa.b.name}}
""")
print("=== forward ref in just_once")
split("""
- object: A
  just_once: true
  nickname: aa
  fields:
    b:
      reference: B
- object: B
  just_once: true
  fields:
    name: x
- object: C
  fields:
    bn: ${{aa.b}}
""")
print("=== random ref in just_once")
split("""
- object: B
  just_once: true
  fields:
    name: x
- object: A
  just_once: true
  nickname: aa
  fields:
    b:
      random_reference: B
- object: C
  fields:
    bn: ${{aa.b}}
""")
