import io, os, tempfile
from snowfakery import generate_data
from snowfakery.api import COUNT_REPS
d=tempfile.mkdtemp(prefix="p5_", dir="/tmp")
open(os.path.join(d,"p.csv"),"w").write("num,nm\n1,one\n2,two\n")
y=f"""
- plugin: snowfakery.standard_plugins.datasets.Dataset
- object: J
  just_once: true
  fields:
    __rec:
      Dataset.iterate:
        dataset: {d}/p.csv
    nm: ${{{{__rec.nm}}}}
- object: A
  fields:
    x: ${{{{J.__rec.num}}}}
"""
def run(reps, cont=None):
    out=io.StringIO(); c=io.StringIO()
    try:
        generate_data(io.StringIO(y), output_file=out, output_format="txt", target_number=(COUNT_REPS,reps),
                      generate_continuation_file=c, continuation_file=io.StringIO(cont) if cont else None)
    except Exception as e:
        return "ERR %s: %s"%(type(e).__name__, str(e)[:200]), None
    return out.getvalue(), c.getvalue()
o,c=run(2); print(o)
o1,c1=run(1); print(o1); o2,c2=run(1,c1); print(o2)
