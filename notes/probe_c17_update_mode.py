import io, warnings, os, tempfile
warnings.simplefilter("ignore")
from snowfakery import generate_data
d = tempfile.mkdtemp(dir="/var/tmp/w")
open(d+"/in.csv","w").write("id,name,extra\n7,ann,x\n9,bob,y\n")
def run(r, **kw):
    out = io.StringIO()
    try:
        generate_data(io.StringIO(r), output_file=out, output_format="txt", update_input_file=d+"/in.csv", **kw)
        print(out.getvalue())
    except Exception as e: print("ERR", type(e).__name__, str(e)[:200])
run("""
- object: Contact
  fields:
    greeting: hi ${{input.name}}
""", update_passthrough_fields=["id","extra"])
run("""
- object: Contact
  nickname: cc
  fields:
    greeting: hi ${{input.name}}
""", update_passthrough_fields=["id"])
