import io, warnings, tempfile, os
warnings.simplefilter("ignore")
from snowfakery import generate_data
def run(recipe, **kw):
    out = io.StringIO()
    generate_data(io.StringIO(recipe), output_file=out, output_format="txt", **kw)
    return out.getvalue()
r3 = """
- object: B
  just_once: true
  fields:
    name: x
- object: A
  just_once: true
  fields:
    b:
      reference: B
- object: C
  fields:
    name: c
"""
d = tempfile.mkdtemp()
cont = os.path.join(d, "c.yml"); m1 = os.path.join(d,"m1.yml"); m2=os.path.join(d,"m2.yml")
print(run(r3, generate_continuation_file=cont, generate_cci_mapping_file=m1))
cont2 = os.path.join(d, "c2.yml")
print(run(r3, continuation_file=cont, generate_continuation_file=cont2, generate_cci_mapping_file=m2))
print(open(m1).read()); print("----"); print(open(m2).read())
print(open(cont2).read())
