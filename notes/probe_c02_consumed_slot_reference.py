import io, warnings, tempfile, os, traceback
warnings.simplefilter("ignore")
from snowfakery import generate_data
def run(recipe, fmt="txt", **kw):
    out = io.StringIO()
    generate_data(io.StringIO(recipe), output_file=out, output_format=fmt, **kw)
    return out.getvalue()
r = """
- object: A
  nickname: aa
  fields:
    b:
      reference: B
- object: B
  fields:
    name: x
- object: C
  fields:
    x:
      reference: aa.b
    y: ${{aa.b.id}}
"""
for fmt in ["txt","json"]:
    try: print(run(r, fmt))
    except Exception as e: print("ERR", type(e).__name__, e)
