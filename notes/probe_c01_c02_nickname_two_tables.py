import io, warnings
warnings.simplefilter("ignore")
from snowfakery import generate_data
def run(recipe, fmt="txt", **kw):
    out = io.StringIO()
    generate_data(io.StringIO(recipe), output_file=out, output_format=fmt, **kw)
    return out.getvalue()
r = """
- object: R
  fields:
    x:
      reference: n
- object: A
  nickname: n
- object: A
- object: B
  nickname: n
"""
try: print(run(r, target_number=("R", 2)))
except Exception as e: print("ERR", type(e).__name__, e)
r = """
- object: R
  fields:
    x:
      reference: B
- object: A
  nickname: B
- object: A
- object: B
"""
try: print(run(r, target_number=("R", 2)))
except Exception as e: print("ERR", type(e).__name__, e)
