"""C11 — bounded random functions stay inside their bounds and can reach both ends.
Implementation: snowfakery/template_funcs.py (random_number, random_choice/choice, date_between,
datetime_between), called through one-field recipes (snowfakery.generate_data, JSON output) so that
argument parsing is covered.  Model: coq/theories/RandFuncs.v.

Draws are injected from outside at random.Random._randbelow (harness/oracle_random.py) and
random.Random.random (patched here, dyadic rationals num/1024 only, so no float is ever compared)."""
import contextlib
import io
import json
import re
import random as _random
from collections import Counter
from datetime import date, datetime, timedelta, timezone

from . import common as C
from .oracle_random import injected_randbelow

PROP = "C11"
MODEL = "RandFuncs"
SHARD = 300
CASE_TIMEOUT = 45
DEN = 1024
US = 1_000_000
DAYUS = 86_400 * US
EPOCH_ORD = date(1970, 1, 1).toordinal()

RULE = ("cases: one-field recipes calling random_number / random_choice / date_between / datetime_between; "
        "draws injected (ends: k=0 and k=n-1 / random()=0 and 1023/1024; all: every k of a small range; raw) "
        "and compared value-for-value with the model, or free (200 rows of real randomness) checked against the "
        "model's 'possible value' predicate; weighted choices also with weights that are formulas of the row number "
        "(${{ }}, ${% %}, << >>; list and dict form; several rows, the zero-weight option moving between rows), compared row by row; "
        "random_choice BLOCKS rendered many times (rows of a count, iterations up to a target number, children of several parents, "
        "nested in `if`, two blocks in one object) whose probabilities MIX literals (60, 60%, ' 12.5 ', '+5%', '012.50', '5%%') and formulas of a "
        "row key (id, child_index, id % m, a sibling field / this.field, a Counters.NumberCounter field, a variable, a field of the parent) and whose "
        "picks are labels or formulas: the key of every row is read back from the output, the weights the user wrote for THAT row are looked up "
        "by it (oracle: never an option of weight 0 in that row) and the block as written + key + draw + value go to the model (CBlocks); "
        "random_number / date_between / datetime_between whose ARGUMENTS are literals or formulas of the row key (mixed; min/max/step, start/end "
        "as quoted ISO texts, relative, today/now), each row checked against the bounds written for THAT row (oracle) and value-for-value (model); "
        "weights and date / datetime bounds reach the model as the TEXT written into the recipe (parse_weight_str, spec_of_text: relative, ISO date, "
        "ISO datetime with fraction / Z / offset; for one bound in four Python's datetime computes the fields instead), printed results are read by "
        "the model too (value_of_text).  Round 4: random_number with large-magnitude arguments (beyond 2**53, up to 400 digits, negative, large steps) "
        "reaching it by every route an argument can take (YAML int, quoted digits, `${{ }}` / `${% %}` / `<< >>` formula, variable, variable defined by a formula, "
        "option default, option text from the caller, integer arithmetic, earlier field / this.field), dialect 2 (formula results rendered to text and re-read) and 3, "
        "call written as a block / inside a formula / positionally / in `<< >>`: checked against the integers written (oracle + FNumber); random_choice weights "
        "beyond 2**53.  Round 5: (a) FRESH-PROCESS cases: a recipe whose object draws three wide random_number lattices (>= 2^20 points), two-point lattices, "
        "small lattices, random_choice (list / weighted), date_between, datetime_between in every row, preceded (earlier object, earlier field of the row, later field = before "
        "the next row, parent of a friend) by 0-3 other features that might touch the process-wide generator (unique_id, unique_alpha_code, UniqueId.NumericIdGenerator / "
        "AlphaCodeGenerator in 7 configurations, fake data incl. locale, Dataset.shuffle / iterate over a CSV, random_reference (plain / unique), Schedule.Event, Counters, Math, "
        "today / now / date(), include_file, macro, earlier draws), is run once in each of 6 NEW interpreter processes (API on the file or `python -m snowfakery`, dialect 2 / 3, "
        "count / friends / target_number); every value is checked against its bounds / lattice / options, and every draw POSITION (row, field) is compared across the processes: "
        "positions showing the same value in all processes may not add up to 40 bits of min-entropy (false alarm on correct code < 2^-84 per case with 6 processes, < 2^-59 with 5; "
        "fewer usable processes: nothing is said); (b) random_choice whose OPTIONS are texts of digit-like characters that are not ASCII digits (str.isdecimal() scripts, "
        "superscripts, vulgar fractions, CJK numerals, float-like, mixed with ASCII digits), list / weighted, block / inline, dialect 2 / 3: the value returned must be the listed "
        "TEXT (label read back by exact match; anything else is not a listed option), draws injected and compared with the model.  non-trivial: a run that produced at least one value from a range "
        "with >= 2 lattice points / >= 2 options / bounds that differ, or an error case of the property "
        "(empty range, all-zero weights); distinct by case hash")
TRUSTED = ["harness/oracle_random.py: random.Random._randbelow patched to inject the integer draw",
           "harness/c11.py: random.Random.random patched to return num/1024 (Faker's uniform and random.choices)",
           "harness/c11.py: for the property oracle (and for one bound / printed value in four on the model side) bounds and printed results are "
           "converted with Python's datetime (day numbers, microseconds); otherwise the model reads the texts itself",
           "harness/c11.py block cases: the row key is read from a sibling field `k` of the same row (evaluated by the implementation)",
           "harness/c11.py run_fresh: process plumbing (temporary directory with recipe.yml and two helper files, 6 child interpreters started together with PYTHONPATH = the repo, "
           "PYTHONHASHSEED removed, TZ=UTC; a child that fails or is late is left out); the bound on the false-alarm probability assumes that CPython seeds `random` (and Faker its "
           "generator) from OS entropy at import, independently in every process",
           "process time zone forced to UTC (date.today(), Faker's local-zone conversions)",
           "harness/c11.py frozen_clock: for datetime cases with now / relative bounds template_funcs' datetime.now() is frozen at one "
           "reading, which is passed to the model as the clock (both per-bound readings equal); if it cannot be frozen the model "
           "comparison is skipped and the oracle uses the interval of readings [t0, t1]"]
ASSUMPTIONS = ["CPython random.randrange / random.choice / random.choices (bisect_right) as transcribed in RandFuncs.v",
               "Faker date_between / date_time_between as transcribed (uniform(a,b) = a+(b-a)*random(), year = 365.24 d, month = 30.42 d); "
               "the theorems use exact rational arithmetic where Faker uses floats (the correspondence check injects only dyadic draws, for which both agree)",
               "_randbelow(n) returns an integer in [0,n); random() returns a value in [0,1)",
               "Python float(text), Faker's relative-date regex (fullmatch) and the ISO 8601 subset shared by YAML timestamps, dateutil and isoformat, "
               "as transcribed (parse_decimal, parse_rel, parse_iso); texts outside these grammars are Unsupported in the model and not generated",
               "formula evaluation (Jinja) itself is not modelled: a formula is its value table over the row key",
               "route stream: Jinja evaluates + - * ** on integers exactly; in dialect 2 a formula result is re-read as a number only when it is a digit string >= 1 "
               "(0 and negative results stay text: accepted as the decimal text of the integer); texts beyond CPython's 4300-digit int limit are not generated",
               "fresh-process cases: for a fixed recipe and position the draw is a function of the process's entropy (RandFuncs.number_at); the harness observes equality of VALUES "
               "across processes, which for random_number is equality of draws (C11_stuck_values_iff_stuck_draws); a re-seeding that depends on something that differs between "
               "processes started together (pid, clock) is not detected",
               "Python int arithmetic = Z arithmetic; local time zone = UTC"]
EXHAUSTIVE = {"quick": False, "thorough": False}



# ------------------------------------------------------------------------------------------------
# specs: JSON description of a date / datetime bound
def ab(y, mo, d, H=0, M=0, S=0, us=0, off=None, style="yaml", dateonly=False):
    return {"t": "abs", "y": y, "mo": mo, "d": d, "H": H, "M": M, "S": S, "us": us, "off": off,
            "style": style, "dateonly": dateonly}


def spec_wall_us(sp):
    dt = datetime(sp["y"], sp["mo"], sp["d"], sp["H"], sp["M"], sp["S"], sp["us"]) - datetime(1970, 1, 1)
    return (dt.days * 86400 + dt.seconds) * US + dt.microseconds


def spec_day(sp):
    return date(sp["y"], sp["mo"], sp["d"]).toordinal() - EPOCH_ORD


def rel_text(parts, zpad=0):
    return "".join(f"{'+' if v >= 0 else '-'}{abs(v):0{zpad}d}{u}" for u, v in parts)


def rel_seconds(parts):
    """Faker: years = 365.24 days, months = 30.42 days"""
    p = dict(parts)
    return (864 * (36524 * p.get("y", 0) + 3042 * p.get("M", 0)) + 86400 * (7 * p.get("w", 0) + p.get("d", 0))
            + 3600 * p.get("h", 0) + 60 * p.get("m", 0) + p.get("s", 0))


def rel_days(parts):
    return rel_seconds(parts) // 86400


def off_text(off_min):
    sign = "+" if off_min >= 0 else "-"
    return f"{sign}{abs(off_min) // 60:02d}:{abs(off_min) % 60:02d}"


def spec_yaml(sp):
    """Text placed after `start_date: ` in the recipe."""
    t = sp["t"]
    if t in ("now", "today"):
        return t
    if t == "rel":
        return rel_text(sp["parts"], sp.get("zpad", 0))
    if t == "bad":
        return json.dumps(sp["text"])
    dpart = f"{sp['y']:04d}-{sp['mo']:02d}-{sp['d']:02d}"
    if sp["dateonly"]:
        txt = dpart
    else:
        sep = " " if sp["style"] in ("yaml_sp", "str_sp") else "T"
        txt = f"{dpart}{sep}{sp['H']:02d}:{sp['M']:02d}:{sp['S']:02d}"
        if sp["us"]:
            frac = f"{sp['us']:06d}"
            txt += "." + (frac.rstrip("0") if sp.get("shortfrac") else frac)
        if sp["off"] is not None:
            txt += "Z" if (sp["off"] == 0 and sp.get("zulu")) else off_text(sp["off"])
    return json.dumps(txt) if sp["style"].startswith("str") else txt


def spec_text(sp):
    """the bound as the characters the user wrote (no YAML quoting)"""
    y = spec_yaml(sp)
    return json.loads(y) if y.startswith('"') else y


def spec_coq(sp):
    """The bound for the model.  Normally the text as the user wrote it (the model parses it: spec_of_text);
    for one text in four (decided by the text) the fields computed with Python's datetime instead, so
    that the two computations of day numbers are compared with each other through the implementation."""
    t = sp["t"]
    if t != "bad":
        txt = spec_text(sp)
        if sum(map(ord, txt)) % 4 != 0 and all(32 <= ord(ch) < 127 and ch != '"' for ch in txt):
            return f"(spec_of_text {C.cstr(txt)})"
    if t == "now":
        return "SNow"
    if t == "today":
        return "SToday"
    if t == "bad":
        return "SBad"
    if t == "rel":
        p = dict(sp["parts"])
        return "(SRel " + " ".join(C.cz(p.get(u, 0)) for u in "yMwdhms") + ")"
    if sp["dateonly"] and sp["style"] == "yaml":
        return f"(SDate {C.cz(spec_day(sp))})"
    off = None if sp["off"] is None or sp["dateonly"] else sp["off"] * 60
    return f"(SStamp (mkStamp {C.cz(spec_wall_us(sp))} {C.copt(off, C.cz)}))"


# ------------------------------------------------------------------------------------------------
# recipes
def fmt_weight(q, style):
    """q = weight in quarters; style pct / num / str"""
    frac = {0: "", 1: ".25", 2: ".5", 3: ".75"}[abs(q) % 4]
    val = ("-" if q < 0 else "") + str(abs(q) // 4) + frac
    if style in ("sp", "plus", "zeros", "pp"):
        return "'" + tok(q, style)[1] + "'"
    if style == "pct":
        return f"{val}%"
    if style == "str":
        return json.dumps(val)
    if style == "flt" and q % 4 == 0:
        return val + ".0"
    return val


def old_tok(q, style):
    """fmt_weight's text as a token [q, text, type]"""
    if style in ("sp", "plus", "zeros", "pp"):
        return tok(q, style)
    text = fmt_weight(q, style)
    if style == "str":
        return [q, json.loads(text), "str"]
    if style == "pct":
        return [q, text, "str"]
    return [q, text, "flt" if "." in text else "int"]


def weight_literal(q, pct=False, quoted=False):
    frac = {0: "", 1: ".25", 2: ".5", 3: ".75"}[abs(q) % 4]
    val = ("-" if q < 0 else "") + str(abs(q) // 4) + frac
    if pct:
        val += "%"
    return f"'{val}'" if quoted else val


def weight_formula(case, j):
    """Probability of item j as a formula of `id` (1-based row number), evaluated anew for each row:
    syntax jinja `${{ }}`, block `${% if %}` or legacy `<< >>` (the latter only without snowfakery_version 3)."""
    col = [row[j] for row in case["wrows"]]
    syn = case["syntax"]
    pct = case.get("pct", False)
    if syn == "block":
        parts = []
        for i, q in enumerate(col):
            kw = "if" if i == 0 else "elif"
            parts.append(("${% else %}" if i == len(col) - 1 and i > 0 else "${% " + f"{kw} id == {i + 1}" + " %}") + weight_literal(q, pct))
        return json.dumps("".join(parts) + "${% endif %}")
    expr = weight_literal(col[-1], pct, quoted=pct)
    for i in range(len(col) - 2, -1, -1):
        expr = f"{weight_literal(col[i], pct, quoted=pct)} if id == {i + 1} else ({expr})"
    return json.dumps("${{ " + expr + " }}" if syn == "jinja" else "<< " + expr + " >>")


def lab_text(case, lab):
    """the option as written into the recipe: L<n>, or (round 5) the digit-like text the label stands for"""
    if "dlab" in case:
        t = dict(case["dlab"]["texts"])[lab]
        return json.dumps(t, ensure_ascii=False) if case["dlab"].get("quoted", True) else t
    return f"L{lab}"


def dlab_back(case, v):
    """a returned value that IS one of the listed texts (same type, same characters) -> its label"""
    for lab, t in case["dlab"]["texts"]:
        if isinstance(v, str) and v == t:
            return f"L{lab}"
    return v


def body_lines(case):
    k = case["kind"]
    if k == "number":
        lines = ["random_number:", f"  min: {case['min']}", f"  max: {case['max']}"]
        if case["step"] is not None:
            lines.append(f"  step: {case['step']}")
        return lines
    if k == "choice":
        form, items = case["form"], case["items"]
        if form == "list":
            if not items:
                return ["random_choice: []"]
            return ["random_choice:"] + [f"  - {lab_text(case, lab)}" for lab, _, _ in items]
        if "raw" in case:                     # probabilities given as literal texts (malformed ones included)
            if form == "dict":
                return ["random_choice:"] + [f"  L{lab}: {json.dumps(t)}" for (lab, _, _), t in zip(items, case["raw"])]
            lines = ["random_choice:"]
            for (lab, _, _), t in zip(items, case["raw"]):
                lines += ["  - choice:", f"      probability: {json.dumps(t)}", f"      pick: L{lab}"]
            return lines
        if form == "choices":
            lines = ["random_choice:"]
            for j, (lab, q, st) in enumerate(items):
                lines.append("  - choice:")
                if "wrows" in case:
                    lines.append(f"      probability: {weight_formula(case, j)}")
                elif q is not None:
                    lines.append(f"      probability: {fmt_weight(q, st)}")
                lines.append(f"      pick: {lab_text(case, lab)}")
            return lines
        if "wrows" in case:
            return ["random_choice:"] + [f"  L{lab}: {weight_formula(case, j)}" for j, (lab, _, _) in enumerate(items)]
        return ["random_choice:"] + [f"  L{lab}: {fmt_weight(q, st)}" for lab, q, st in items]
    if k == "date":
        return ["date_between:", f"  start_date: {spec_yaml(case['start'])}", f"  end_date: {spec_yaml(case['end'])}"]
    if k == "datetime":
        lines = ["datetime_between:", f"  start_date: {spec_yaml(case['start'])}", f"  end_date: {spec_yaml(case['end'])}"]
        tz = case.get("tz")
        if tz == "false":
            lines.append("  timezone: False")
        elif tz is not None:
            lines += ["  timezone:", "    relativedelta:", f"      hours: {tz[0]}", f"      minutes: {tz[1]}"]
        return lines
    raise ValueError(k)


# ------------------------------------------------------------------------------------------------
# weighted-choice blocks rendered many times (rows of a `count`, iterations, children of several parents):
# every probability is a literal or a formula of a row key, every pick a label or a formula of the key.
# The row key is whatever the driver expression evaluates to in that row; it is also written to the sibling
# field `k`, so the weights "as the user wrote them for that row" are looked up by the OBSERVED key.
def tok(q, style):
    """text of a weight of q quarters and the type YAML / the formula language gives it: [q, text, ty]"""
    frac = {0: "", 1: ".25", 2: ".5", 3: ".75"}[abs(q) % 4]
    val = ("-" if q < 0 else "") + str(abs(q) // 4) + frac
    if q < 0 and style in ("plus", "zeros"):
        style = "str"
    if style == "num":
        return [q, val, "int" if q % 4 == 0 else "flt"]
    if style == "flt":
        return [q, val + ("" if frac else ".0"), "flt"]
    if style == "pct":
        return [q, val + "%", "str"]
    if style == "sp":
        return [q, " " + val + " ", "str"]
    if style == "plus":
        return [q, "+" + val + "%", "str"]
    if style == "zeros":
        return [q, "0" + val + ("0" if frac else ".00"), "str"]
    if style == "pp":
        return [q, val + "%%", "str"]
    return [q, val, "str"]


def tok_yaml(t):
    """a literal probability in YAML"""
    _, text, ty = t
    if ty != "str":
        return text
    return text if re.fullmatch(r"[0-9.]+%", text) else "'" + text + "'"


def tok_expr(t):
    """the same value inside a ${{ }} / << >> expression"""
    _, text, ty = t
    return text if ty != "str" else "'" + text + "'"


DRIVER_EXPR = {"id": "id", "child_index": "child_index", "field": "k", "this_field": "this.k", "counter": "k",
               "var": "child_index + base", "parent": "P.n + child_index", "parent_only": "P.n"}


def driver_expr(blk):
    d = blk["driver"]
    if d == "idmod":
        return f"id % {blk['mod']}"
    if d == "cimod":
        return f"child_index % {blk['mod']}"
    return DRIVER_EXPR[d]


def key_formula(expr, syn, entries, render, block_render):
    """if-chain over the key values; the last entry is the else branch"""
    if syn == "block":
        parts = []
        for i, (key, t) in enumerate(entries):
            if i == len(entries) - 1 and i > 0:
                parts.append("${% else %}")
            else:
                parts.append("${% " + ("if" if i == 0 else "elif") + f" {expr} == {key}" + " %}")
            parts.append(block_render(t))
        return json.dumps("".join(parts) + "${% endif %}")
    e = render(entries[-1][1])
    for key, t in reversed(entries[:-1]):
        e = f"{render(t)} if {expr} == {key} else ({e})"
    return json.dumps("${{ " + e + " }}" if syn == "jinja" else "<< " + e + " >>")


def block_lines(blk, b):
    """YAML lines of the random_choice of block b (a dict of form / cols / tab)"""
    expr = driver_expr(blk)
    lines = ["random_choice:"]
    for j, col in enumerate(b["cols"]):
        if col["lit"]:
            prob = tok_yaml(b["tab"][0][1][j])
        else:
            prob = key_formula(expr, col["syntax"], [(key, row[j]) for key, row in b["tab"]], tok_expr, lambda t: t[1])
        if b["form"] == "dict":
            lines.append(f"  L{col['lab']}: {prob}")
            continue
        lines += ["  - choice:", f"      probability: {prob}"]
        if col.get("pickf"):
            off = col["lab"] * 1000
            lines.append("      pick: " + json.dumps(
                "L${{ " + f"{expr} + {off}" + " }}" if col["syntax"] != "legacy" else "L<< " + f"{expr} + {off}" + " >>"))
        else:
            lines.append(f"      pick: L{col['lab']}")
    if b.get("wrap") == "if":
        lines = ["if:", "  - choice:", '      when: "${{ True }}"', "      pick:"] + ["        " + l for l in lines]
    return lines


def block_recipe(case):
    blk = case["blk"]
    head = "" if blk.get("legacy") else "- snowfakery_version: 3\n"
    if blk["driver"] == "counter":
        head += "- plugin: snowfakery.standard_plugins.Counters\n"
    if blk["driver"] == "var":
        head += f"- var: base\n  value: {blk['base']}\n"
    expr = driver_expr(blk)
    if blk["driver"] == "counter":
        kl = ["k:", "  Counters.NumberCounter:", f"    start: {blk['start']}", f"    step: {blk['step']}"]
    elif blk["driver"] in ("field", "this_field"):
        kl = ['k: "${{ id }}"']
    else:
        kl = ['k: "${{ ' + expr + ' }}"']
    fields = list(kl)
    for name, b in zip("de", blk["blocks"]):
        fields += [f"{name}:"] + ["  " + l for l in block_lines(blk, b)]
    if blk["struct"] == "friends":
        out = (f"- object: P\n  count: {blk['parents']}\n  fields:\n    n: \"${{{{ id * 10 }}}}\"\n  friends:\n"
               f"    - object: A\n      count: {blk['count']}\n      fields:\n")
        return head + out + "".join(f"        {l}\n" for l in fields)
    return head + f"- object: A\n  count: {blk['count']}\n  fields:\n" + "".join(f"    {l}\n" for l in fields)


def block_row(b, k):
    """(labels, weights in quarters) of block b as the user wrote them for the row whose key is k"""
    row = next((r for key, r in b["tab"] if key == k), b["tab"][-1][1])
    labs = [c["lab"] * 1000 + k if c.get("pickf") else c["lab"] for c in b["cols"]]
    return labs, [t[0] for t in row]


# ------------------------------------------------------------------------------------------------
# arguments of random_number / date_between / datetime_between that change from row to row: every
# argument is a literal or a formula of the row key (same scheme as the blocks: the key is read back
# from the sibling field `k`, the arguments the user wrote for that row are looked up by it)
RA_NAMES = {"number": ["min", "max", "step"], "date": ["start_date", "end_date"], "datetime": ["start_date", "end_date"]}
RA_FN = {"number": "random_number", "date": "date_between", "datetime": "datetime_between"}


def rowargs_recipe(case):
    ra = case["rowargs"]
    kind = case["kind"]
    expr = {"id": "id", "child_index": "child_index", "field": "k"}[ra["driver"]]
    if kind == "number":
        lit, in_expr, in_block = str, str, str
    else:
        lit, in_expr, in_block = spec_yaml, (lambda sp: "'" + spec_text(sp) + "'"), spec_text
    lines = [f"{RA_FN[kind]}:"]
    for j, name in enumerate(RA_NAMES[kind]):
        if ra["tab"][0][1][j] is None:
            continue                                  # step left out
        if name in ra["lit"]:
            lines.append(f"  {name}: {lit(ra['tab'][0][1][j])}")
        else:
            lines.append(f"  {name}: " + key_formula(expr, ra["syntax"][j], [(key, row[j]) for key, row in ra["tab"]], in_expr, in_block))
    head = "" if ra.get("legacy") else "- snowfakery_version: 3\n"
    kl = 'k: "${{ id }}"' if ra["driver"] == "field" else 'k: "${{ ' + expr + ' }}"'
    return (head + f"- object: A\n  count: {ra['count']}\n  fields:\n    {kl}\n    d:\n"
            + "".join(f"      {l}\n" for l in lines))


def row_case(case, k):
    """the one-row case with the arguments the user wrote for the row whose key is k"""
    ra = case["rowargs"]
    row = next((r for key, r in ra["tab"] if key == k), ra["tab"][-1][1])
    mode = case["draws"]["mode"]
    base = {"kind": case["kind"], "draws": {"mode": "free" if mode == "free" else "raw", "rows": 1, "raw": [0]}}
    if case["kind"] == "number":
        return dict(base, min=row[0], max=row[1], step=row[2], style="block")
    return dict(base, start=row[0], end=row[1], tz=None)


def rowargs_all_valid(case, obs):
    """every row of the table has arguments for which the property demands a value (decided from the table, not assumed)"""
    for key, _ in case["rowargs"]["tab"]:
        rc = row_case(case, key)
        if case["kind"] == "number":
            if not (rc["min"] <= rc["max"] and (rc["step"] is None or rc["step"] >= 1)):
                return False
        elif case["kind"] == "date":
            ds, de = date_bound(rc["start"], obs), date_bound(rc["end"], obs)
            if ds is None or de is None or not obs.get("clock_stable", True):
                return False             # (a reversed pair is valid: it returns nothing)
        else:
            bs = dt_bounds(rc, obs)
            if bs[0] is None or bs[1] is None or not obs.get("clock_stable", True) or not bs[0][1] <= bs[1][0]:
                return False
    return True


def all_specs(case):
    if case["kind"] not in ("date", "datetime"):
        return []
    if "rowargs" in case:
        return [sp for _, row in case["rowargs"]["tab"] for sp in row]
    return [case["start"], case["end"]]


# ------------------------------------------------------------------------------------------------
# the ROUTES an argument takes to random_number (round 4): the integer the user wrote reaches the function as a
# YAML int, a quoted digit string, the result of a formula (`${{ }}`, `${% %}`, `<< >>`: in dialect 2 rendered to
# text and re-read by the recipe language, in dialect 3 a native value), a variable (plain or itself a formula), an
# option (default in the recipe / text given by the caller), integer arithmetic inside the formula, an earlier
# field of the row; the call is a block or is itself written inside a formula (then the RESULT is rendered to text
# and re-read in dialect 2).  Whatever the route, the bounds and the lattice are those of the integers written.
TEXT_ROUTES = ("quoted", "formula", "legacy", "blocktag", "var", "var_formula", "option", "user_option", "arith", "field", "this_field")


def arith_expr(n, salt):
    """an integer expression (+ - * ** only) whose value is n, as the user might write it"""
    a = abs(n)
    k = a.bit_length() - 1 if a else 0
    forms = []
    if a >= 8:
        forms.append(f"2**{k} + {a - 2 ** k}")
        forms.append(f"{a // 1000} * 1000 + {a % 1000}")
        forms.append(f"{a + 12345} - 12345")
        forms.append(f"({a // 7} * 7) + {a % 7}")
        d = len(str(a)) - 1
        forms.append(f"10**{d} * {a // 10 ** d} + {a % 10 ** d}")
    forms.append(f"{a} + 0")
    forms.append(f"{a} * 1")
    e = forms[salt % len(forms)]
    return e if n >= 0 else f"0 - ({e})"


def reread_as_text(route, call, dialect):
    """in dialect 2 the value goes through text on this route (only digit strings >= 1 come back as numbers)"""
    if dialect != 2:
        return False
    if route in ("var_formula", "user_option", "quoted", "legacy", "blocktag"):
        return True
    return call == "block" and route != "yaml"


def paths_parts(case):
    """(declarations, fields before d, {name: text in the block call}, {name: expression in the inline call}, user options)"""
    p = case["paths"]
    decls, pre, blk, inl, uopts = [], [], {}, {}, {}
    for name in ("min", "max", "step"):
        v = case[name]
        if v is None:
            continue
        route = p["args"][name]
        salt = p.get("salt", 0)
        if route == "yaml":
            blk[name], inl[name] = str(v), str(v)
        elif route == "quoted":
            blk[name], inl[name] = f'"{v}"', str(v)
        elif route == "formula":
            blk[name], inl[name] = "${{ " + str(v) + " }}", str(v)
        elif route == "legacy":
            blk[name], inl[name] = f'"<< {v} >>"', str(v)
        elif route == "blocktag":
            blk[name], inl[name] = '"${% if id %}' + str(v) + '${% endif %}"', str(v)
        elif route in ("var", "var_formula"):
            val = str(v) if route == "var" else "${{ " + arith_expr(v, salt) + " }}"
            decls += [f"- var: v_{name}", f"  value: {val}"]
            blk[name], inl[name] = "${{ v_" + name + " }}", f"v_{name}"
        elif route == "option":
            decls += [f"- option: o_{name}", f"  default: {v}"]
            blk[name], inl[name] = "${{ o_" + name + " }}", f"o_{name}"
        elif route == "user_option":
            decls += [f"- option: o_{name}"]
            uopts[f"o_{name}"] = str(v)
            blk[name], inl[name] = "${{ o_" + name + " }}", f"o_{name}"
        elif route == "arith":
            e = arith_expr(v, salt)
            blk[name], inl[name] = "${{ " + e + " }}", f"({e})"
        elif route in ("field", "this_field"):
            pre.append(f"f_{name}: {v}")
            ref = f"f_{name}" if route == "field" else f"this.f_{name}"
            blk[name], inl[name] = "${{ " + ref + " }}", ref
        else:
            raise ValueError(route)
    return decls, pre, blk, inl, uopts


def paths_recipe(case):
    p = case["paths"]
    decls, pre, blk, inl, _ = paths_parts(case)
    head = ("" if p["dialect"] == 2 else "- snowfakery_version: 3\n") + "".join(l + "\n" for l in decls)
    head += f"- object: A\n  count: {case['draws']['rows']}\n  fields:\n" + "".join(f"    {l}\n" for l in pre)
    names = [n for n in ("min", "max", "step") if case[n] is not None]
    if p["call"] == "block":
        return head + "    d:\n      random_number:\n" + "".join(f"        {n}: {blk[n]}\n" for n in names)
    if p["call"] == "positional":
        args = ", ".join(inl[n] for n in names)
    else:
        args = ", ".join(f"{n}={inl[n]}" for n in names)
    open_, close = ("<< ", " >>") if p["call"] == "inline_legacy" else ("${{ ", " }}")
    return head + "    d: " + json.dumps(open_ + "random_number(" + args + ")" + close) + "\n"


def paths_result_reread(case):
    """the call is itself inside a formula in dialect 2: its result is rendered to text and re-read"""
    p = case.get("paths")
    return bool(p) and p["dialect"] == 2 and p["call"] != "block"


def inline_expr(case):
    """`${{ ... }}` form for random_number only"""
    args = f"min={case['min']}, max={case['max']}"
    if case["step"] is not None:
        args += f", step={case['step']}"
    return "${{random_number(" + args + ")}}"


# ------------------------------------------------------------------------------------------------
# round 5: bounded draws in FRESH processes, preceded by other recipe features.
# "Both ends of the lattice are attainable" is a statement about what a user who runs the recipe can get.  A short
# run in a new process (CLI, job worker) starts from the interpreter's entropy-seeded generator; if some recipe
# feature (unique ids, fake data, dataset shuffle, random_reference, a plugin ...) resets the process-wide generator
# to a fixed state, every draw after it is a constant of the recipe: in range, but no other lattice point is ever
# produced.  A case is one recipe run in FRESH_PROCS new processes; the oracle looks at every draw POSITION
# (table, row, field) across the processes.
FRESH_PROCS = 6
FRESH_MIN_PROCS = 5          # fewer usable runs (timeouts under load): nothing is said
FRESH_BITS = 40              # see fresh_oracle / fresh_threshold for the false-alarm bound
FRESH_DEADLINE = 36          # seconds for all processes of one case (CASE_TIMEOUT is 45)

FRESH_PLUGINS = {"UniqueId": "snowfakery.standard_plugins.UniqueId", "Dataset": "snowfakery.standard_plugins.datasets.Dataset",
                 "Schedule": "snowfakery.standard_plugins.Schedule", "Counters": "snowfakery.standard_plugins.Counters",
                 "Math": "snowfakery.standard_plugins.Math"}
# feature -> (plugins, top-level statements, field body lines; a second hidden helper field may precede it)
FRESH_FEATS = {
    "unique_id": ((), (), ["${{unique_id}}"]),
    "unique_alpha_code": ((), (), ["${{unique_alpha_code}}"]),
    "unique_id_twice": ((), (), ["${{unique_id}}-${{unique_alpha_code}}-${{unique_id}}"]),
    "var_unique_id": ((), ("- var: UV\n  value: ${{unique_id}}",), ["${{UV}}"]),
    "numeric_generator": (("UniqueId",), ("- var: NG\n  value:\n    UniqueId.NumericIdGenerator:",), ["${{NG.unique_id}}"]),
    "numeric_generator_index": (("UniqueId",), ("- var: NGI\n  value:\n    UniqueId.NumericIdGenerator:\n      template: index",), ["${{NGI.unique_id}}"]),
    "numeric_generator_context": (("UniqueId",), ("- var: NGC\n  value:\n    UniqueId.NumericIdGenerator:\n      template: context,index",),
                                  ["${{NGC.unique_id}}"]),
    "alpha_generator": (("UniqueId",), ("- var: AG\n  value:\n    UniqueId.AlphaCodeGenerator:",), ["${{AG.unique_id}}"]),
    "alpha_generator_dna": (("UniqueId",), ("- var: AGD\n  value:\n    UniqueId.AlphaCodeGenerator:\n      alphabet: ACGT",), ["${{AGD.unique_id}}"]),
    "alpha_generator_short": (("UniqueId",), ("- var: AGS\n  value:\n    UniqueId.AlphaCodeGenerator:\n      min_chars: 4",), ["${{AGS.unique_id}}"]),
    "alpha_generator_plain": (("UniqueId",), ("- var: AGP\n  value:\n    UniqueId.AlphaCodeGenerator:\n      randomize_codes: False",),
                              ["${{AGP.unique_id}}"]),
    "fake_name": ((), (), ["fake: Name"]),
    "fake_email": ((), (), ["${{fake.Email}}"]),
    "fake_username": ((), (), ["fake: Username"]),
    "fake_text": ((), (), ["${{fake.Sentence(nb_words=4)}}"]),
    "fake_locale": ((), ("- var: snowfakery_locale\n  value: fr_FR",), ["fake: LastName"]),
    "fake_date": ((), (), ["${{fake.DateOfBirth}}"]),
    "dataset_shuffle": (("Dataset",), (), ["Dataset.shuffle:", "  dataset: fresh_data.csv"]),
    "dataset_iterate": (("Dataset",), (), ["Dataset.iterate:", "  dataset: fresh_data.csv"]),
    "random_reference": ((), (), ["random_reference: T"]),
    "random_reference_unique": ((), (), ["random_reference:", "  to: T", "  unique: true"]),
    "schedule": (("Schedule",), (), ["Schedule.Event:", "  start_date: 2023-10-31", "  freq: yearly"]),
    "number_counter": (("Counters",), (), ["Counters.NumberCounter:", "  start: 11", "  step: 3"]),
    "date_counter": (("Counters",), (), ["Counters.DateCounter:", "  start_date: 2021-12-12", "  step: +3M"]),
    "math": (("Math",), (), ["${{Math.sqrt(16) + Math.floor(2.5)}}"]),
    "today_now": ((), (), ["${{today}} ${{now}}"]),
    "date_fn": ((), (), ["${{date('2001-02-03') + relativedelta(days=id)}}"]),
    "id_formula": ((), (), ["${{id * 3 + child_index}}"]),
    "earlier_draws": ((), (), ["${{random_number(1, 6)}}-${{random_choice('a', 'b', 'c')}}"]),
    "include_file": ((), ("- include_file: fresh_inc.yml",), ["${{INCV}}"]),
    "macro": ((), ("- macro: MC\n  fields:\n    code: ${{unique_id}}\n    who:\n      fake: FirstName",), None),
}
FRESH_FILES = {"fresh_data.csv": "a,b\n1,x\n2,y\n3,z\n4,u\n5,v\n6,w\n7,t\n8,s\n",
               "fresh_inc.yml": "- var: INCV\n  value: ${{unique_alpha_code}}\n- object: Inc\n  fields:\n    code: ${{unique_id}}\n"}


def fresh_probe_lines(p, inline):
    k = p["kind"]
    if k == "number":
        if inline:
            args = f"min={p['min']}, max={p['max']}" + (f", step={p['step']}" if p["step"] is not None else "")
            return ["${{random_number(" + args + ")}}"]
        return ["random_number:", f"  min: {p['min']}", f"  max: {p['max']}"] + ([f"  step: {p['step']}"] if p["step"] is not None else [])
    if k == "choice":
        if p["weights"] is None:
            if inline:
                return ["${{random_choice(" + ", ".join(f"'L{lab}'" for lab in p["labels"]) + ")}}"]
            return ["random_choice:"] + [f"  - L{lab}" for lab in p["labels"]]
        if p.get("form") == "dict":
            return ["random_choice:"] + [f"  L{lab}: {w}%" for lab, w in zip(p["labels"], p["weights"])]
        lines = ["random_choice:"]
        for lab, w in zip(p["labels"], p["weights"]):
            lines += ["  - choice:", f"      probability: {w}", f"      pick: L{lab}"]
        return lines
    if k == "date":
        return ["date_between:", f"  start_date: {p['start']}", f"  end_date: {p['end']}"]
    return ["datetime_between:", f"  start_date: '{p['start']}'", f"  end_date: '{p['end']}'"]


def fresh_recipe(case):
    """-> recipe text.  Layout: [version] plugins, statements of the features, [object T: targets of random_reference],
    [object P: the `pre` features], object A (count = rows): `row` features, the probes (in a friend F when struct is
    `friends`), `late` features."""
    fr = case["fresh"]
    feats = list(dict.fromkeys(fr["pre"] + fr["row"] + fr["late"]))
    plugins = list(dict.fromkeys(pl for f in feats for pl in FRESH_FEATS[f][0]))
    out = []
    if fr["dialect"] == 3:
        out.append("- snowfakery_version: 3")
    elif fr["dialect"] == 2 and fr.get("explicit_version"):
        out.append("- snowfakery_version: 2")
    out += [f"- plugin: {FRESH_PLUGINS[pl]}" for pl in plugins]
    for f in feats:
        out += list(FRESH_FEATS[f][1])
    if any(f.startswith("random_reference") for f in feats):
        out += ["- object: T", f"  count: {fr['rows'] + 3}", "  fields:", "    name: t${{id}}"]

    def feature_fields(names, prefix, indent):
        lines = []
        for n, f in enumerate(names):
            body = FRESH_FEATS[f][2]
            if body is None:
                continue
            name = f"{'__' if f.startswith('dataset') else ''}{prefix}{n}"
            one = len(body) == 1 and body[0].startswith("${{")
            lines.append(f"{indent}{name}:" + (f" {body[0]}" if one else ""))
            if not one:
                lines += [f"{indent}  {l}" for l in body]
            if f.startswith("dataset"):
                lines.append(f"{indent}{prefix}{n}v: ${{{{{name}.a}}}}-${{{{{name}.b}}}}")
        return lines

    def macro_line(names, indent):
        return [f"{indent}include: MC"] if "macro" in names else []

    if fr["pre"]:
        out += ["- object: P"] + (["  just_once: true"] if fr.get("pre_once") else [f"  count: {fr.get('pre_count', 1)}"])
        out += macro_line(fr["pre"], "  ")
        fl = feature_fields(fr["pre"], "g", "    ")
        out += (["  fields:"] + fl) if fl else []
    out += ["- object: A", f"  count: {fr['rows']}"] + macro_line(fr["row"] + fr["late"], "  ") + ["  fields:"]
    row_lines = feature_fields(fr["row"], "h", "    ")
    out += row_lines
    probe_lines = []
    ind = "        " if fr["struct"] == "friends" else "    "
    for j, p in enumerate(fr["probes"]):
        body = fresh_probe_lines(p, p.get("inline", False))
        probe_lines.append(f"{ind}p{j}:" + (f" {body[0]}" if len(body) == 1 else ""))
        if len(body) > 1:
            probe_lines += [f"{ind}  {l}" for l in body]
    if fr["struct"] == "friends":
        late = feature_fields(fr["late"], "i", "    ")
        if not row_lines and not late:
            out.append("    z: 0")
        out += late
        out += ["  friends:", "    - object: F", f"      count: {fr.get('children', 1)}", "      fields:"] + probe_lines
    else:
        out += probe_lines + feature_fields(fr["late"], "i", "    ")
    return "\n".join(out) + "\n"


FRESH_CHILD = r"""
import io, json, sys
from snowfakery import generate_data
kw = json.loads(sys.argv[2])
if "target_number" in kw:
    kw["target_number"] = tuple(kw["target_number"])
out = io.StringIO()
generate_data(sys.argv[1], output_file=out, output_format="json", **kw)
sys.stdout.write("\n@@ROWS@@" + json.dumps(json.loads(out.getvalue())))
"""


def run_fresh(case):
    """FRESH_PROCS new interpreter processes, started together, each running the recipe once (API: generate_data on
    the file; CLI: python -m snowfakery).  A process that does not finish in time is left out (never an alarm)."""
    import os
    import shutil
    import subprocess
    import sys
    import tempfile
    import time
    fr = case["fresh"]
    obs = {"runs": [], "errs": [], "late": 0}
    probe_table = "F" if fr["struct"] == "friends" else "A"
    wd = tempfile.mkdtemp(prefix="sfv_c11_fresh_", dir="/var/tmp")
    procs = []
    try:
        with open(os.path.join(wd, "recipe.yml"), "w", encoding="utf-8") as f:
            f.write(fresh_recipe(case))
        for name, text in FRESH_FILES.items():
            with open(os.path.join(wd, name), "w", encoding="utf-8") as f:
                f.write(text)
        env = dict(os.environ, PYTHONPATH=str(C.REPO), PYTHONWARNINGS="ignore", PYTHONDONTWRITEBYTECODE="1", TZ="UTC")
        env.pop("PYTHONHASHSEED", None)          # a user's processes do not share a hash seed either
        for k in range(fr.get("procs", FRESH_PROCS)):
            if fr["route"] == "cli":
                cmd = [sys.executable, "-m", "snowfakery", "recipe.yml", "--output-format", "json", "-o", f"out{k}.json"]
                if fr.get("target"):
                    cmd += ["--target-number", str(fr["target"]), "A"]
            else:
                kw = {"target_number": [fr["target"], "A"]} if fr.get("target") else {}
                cmd = [sys.executable, "-c", FRESH_CHILD, "recipe.yml", json.dumps(kw)]
            procs.append(subprocess.Popen(cmd, cwd=wd, env=env, stdout=subprocess.PIPE, stderr=subprocess.PIPE, text=True))
        deadline = time.time() + FRESH_DEADLINE
        for k, pr in enumerate(procs):
            try:
                so, se = pr.communicate(timeout=max(0.1, deadline - time.time()))
            except subprocess.TimeoutExpired:
                pr.kill()
                pr.communicate()
                obs["late"] += 1
                continue
            if pr.returncode != 0:
                obs["errs"].append(" | ".join(l.strip() for l in se.strip().splitlines()[-2:])[:300])
                continue
            try:
                if fr["route"] == "cli":
                    with open(os.path.join(wd, f"out{k}.json"), encoding="utf-8") as f:
                        rows = json.load(f)
                else:
                    rows = json.loads(so.split("@@ROWS@@", 1)[1])
                obs["runs"].append([{n: v for n, v in r.items() if re.fullmatch(r"p[0-9]+", n)}
                                    for r in rows if r.get("_table") == probe_table])
            except Exception as e:
                obs["errs"].append(f"output not readable: {type(e).__name__}: {e}"[:300])
    except C._CaseTimeout:
        obs["late"] += 1
        obs["runs"] = []
    finally:
        for pr in procs:
            if pr.poll() is None:
                try:
                    pr.kill()            # only processes this case started
                    pr.wait(timeout=5)
                except Exception:
                    pass
        shutil.rmtree(wd, ignore_errors=True)
    return obs


def fresh_probe_bits(p):
    """min-entropy (bits) of one draw of the probe on correct code: log2 of the number of equally likely values,
    -log2(largest probability) for weights.  None: less than 1 bit (not counted)."""
    import math
    k = p["kind"]
    if k == "number":
        n = (p["max"] - p["min"]) // (p["step"] or 1) + 1
    elif k == "choice":
        if p["weights"] is None:
            n = len(set(p["labels"]))
            if len(set(p["labels"])) != len(p["labels"]):
                return None
        else:
            tot, top = sum(p["weights"]), max(p["weights"])
            return math.log2(tot / top) if tot >= 2 * top else None
    elif k == "date":
        n = date.fromisoformat(p["end"]).toordinal() - date.fromisoformat(p["start"]).toordinal()     # Faker: [start 00:00, end 00:00)
    else:
        n = int((datetime.fromisoformat(p["end"]) - datetime.fromisoformat(p["start"])).total_seconds())
    return math.log2(n) if n >= 2 else None


def fresh_value_problem(p, v, dialect=3):
    """the ordinary bounds / lattice / listed-option statement for one value of one probe"""
    k = p["kind"]
    if k == "number":
        st = p["step"] or 1
        if dialect == 2 and p.get("inline") and isinstance(v, str) and re.fullmatch(r"0|-[1-9][0-9]*", v):
            v = int(v)           # dialect 2 re-reads a rendered formula result as a number only when it is a digit string >= 1
        if isinstance(v, bool) or not isinstance(v, int) or not (p["min"] <= v <= p["max"]) or (v - p["min"]) % st:
            return f"random_number(min={p['min']}, max={p['max']}, step={p['step']}) returned {v!r}: outside the lattice"
    elif k == "choice":
        ok = {f"L{lab}" for lab, w in zip(p["labels"], p["weights"] or [1] * len(p["labels"])) if w > 0}
        if v not in ok:
            return f"random_choice over {['L%d' % lab for lab in p['labels']]} with weights {p['weights']} returned {v!r}"
    elif k == "date":
        try:
            d = date.fromisoformat(v)
        except Exception:
            return f"date_between({p['start']}, {p['end']}) returned {v!r}"
        if not (date.fromisoformat(p["start"]) <= d <= date.fromisoformat(p["end"])):
            return f"date_between({p['start']}, {p['end']}) returned {v}: outside the bounds"
    else:
        try:
            d = datetime.fromisoformat(v)
        except Exception:
            return f"datetime_between({p['start']}, {p['end']}) returned {v!r}"
        if d.tzinfo is None:
            d = d.replace(tzinfo=timezone.utc)
        lo, hi = (datetime.fromisoformat(p[b]).replace(tzinfo=timezone.utc) for b in ("start", "end"))
        if not (lo <= d <= hi):
            return f"datetime_between({p['start']}, {p['end']}) returned {v}: outside the bounds"
    return None


def fresh_stuck(case, obs):
    """-> (positions compared, [(row, probe index, bits, value)] of the positions whose value is the same in every process)"""
    fr, runs = case["fresh"], obs.get("runs", [])
    nrows = min((len(r) for r in runs), default=0)
    stuck, npos = [], 0
    for i in range(nrows):
        for j, p in enumerate(fr["probes"]):
            b = fresh_probe_bits(p)
            vals = [r[i].get(f"p{j}", "<missing>") for r in runs]
            if b is None or "<missing>" in vals:
                continue
            npos += 1
            if all(json.dumps(v, sort_keys=True) == json.dumps(vals[0], sort_keys=True) for v in vals[1:]):
                stuck.append((i, j, b, vals[0]))
    return npos, stuck


def fresh_threshold(npos, procs):
    """bits B such that Pr[X >= B] <= 2^-59 for npos positions compared over `procs` processes (see fresh_oracle):
    (1 + 2^-((P-1)/2))^n * 2^-((P-1)B/2) <= 2^-59  <=>  B >= 2 (59 + n log2(1 + 2^-((P-1)/2))) / (P-1); never below FRESH_BITS"""
    import math
    s = (procs - 1) / 2
    return max(FRESH_BITS, (59 + npos * math.log2(1 + 2 ** -s)) / s)


def fresh_oracle(case, obs):
    """Correct code: the draws of different fresh processes are independent, so a position of min-entropy b bits shows
    the same value in all P processes with probability <= 2^-(b(P-1)), independently of the other positions.  Let X be
    the sum of b over the positions that are the same in all P processes.  Markov on 2^(sX) with s = (P-1)/2:
    Pr[X >= B] <= prod_j (1 + 2^-(b_j (P-1)/2)) * 2^-((P-1)B/2) <= (1 + 2^-((P-1)/2))^n * 2^-((P-1)B/2)   (b_j >= 1, n positions).
    With B = 40, n <= 64: P = 6 gives <= 1.18^64 * 2^-100 < 2^-84 (4e-26), P = 5 gives <= 1.25^64 * 2^-80 < 2^-59 (2e-18) per case;
    for more positions (long runs) B grows with n so that the bound stays <= 2^-59 (fresh_threshold)."""
    fr, runs = case["fresh"], obs.get("runs", [])
    what = (f"fresh processes ({fr['route']}, dialect {fr['dialect']}, {fr['struct']}); features before the draws: "
            f"earlier object {fr['pre'] or '-'}, earlier fields of the row {fr['row'] or '-'}, later fields {fr['late'] or '-'}")
    for r, run in enumerate(runs):
        for i, row in enumerate(run):
            for j, p in enumerate(fr["probes"]):
                if f"p{j}" in row:
                    msg = fresh_value_problem(p, row[f"p{j}"], fr["dialect"])
                    if msg:
                        return f"fresh: {msg} -- process {r + 1}, row {i + 1}; {what}; recipe: {json.dumps(fresh_recipe(case))[:700]}"
    if len(runs) < FRESH_MIN_PROCS:
        return None
    npos, stuck = fresh_stuck(case, obs)
    bits = sum(b for _, _, b, _ in stuck)
    if bits < fresh_threshold(npos, len(runs)):
        return None
    shown = []
    for i, j, b, v in stuck[:4]:
        body = " ".join(l.strip() for l in fresh_probe_lines(fr["probes"][j], fr["probes"][j].get("inline", False)))
        shown.append(f"row {i + 1} field p{j} [{body}] = {v!r} every time")
    two = [(i, j, v) for i, j, b, v in stuck if fr["probes"][j]["kind"] == "number" and b == 1.0]
    ends = (f"; of {len(two)} two-point lattices only one point each is ever produced" if two else "")
    return (f"fresh: stuck: {len(runs)} {what}: {len(stuck)} of {npos} draw positions gave the SAME value in every process "
            f"({bits:.0f} bits that should be free; correct code does this with probability < 2^-59): " + "; ".join(shown) + ends +
            f" -- the other lattice points (and the ends) are unattainable for this recipe; recipe: {json.dumps(fresh_recipe(case))[:900]}")


def recipe(case):
    if "fresh" in case:
        return fresh_recipe(case)
    if "blk" in case:
        return block_recipe(case)
    if "rowargs" in case:
        return rowargs_recipe(case)
    if "paths" in case:
        return paths_recipe(case)
    rows = case["draws"]["rows"]
    version = "" if case.get("syntax") == "legacy" else "- snowfakery_version: 3\n"   # << >> needs the legacy mode
    if "dlab" in case and case["dlab"]["dialect"] == 2:
        version = "- snowfakery_version: 2\n" if case["dlab"].get("explicit") else ""
    head = f"{version}- object: A\n  count: {rows}\n  fields:\n"
    if "dlab" in case and case["dlab"]["call"] == "inline":
        return head + "    d: ${{ random_choice(" + ", ".join("'" + dict(case["dlab"]["texts"])[lab] + "'" for lab, _, _ in case["items"]) + ") }}\n"
    if case["kind"] == "number" and case.get("style") == "inline":
        return head + f"    d: {inline_expr(case)}\n"
    return head + "    d:\n" + "".join(f"      {l}\n" for l in body_lines(case))


# ------------------------------------------------------------------------------------------------
# implementation side
@contextlib.contextmanager
def injected_random(chooser, log):
    """random.Random.random -> chooser(index)/DEN (a dyadic rational: all later float arithmetic on
    whole seconds / quarter weights is exact)."""
    orig = _random.Random.random

    def fake(self):
        num = chooser(len(log))
        assert 0 <= num < DEN
        log.append(num)
        return num / DEN

    _random.Random.random = fake
    try:
        yield
    finally:
        _random.Random.random = orig


@contextlib.contextmanager
def frozen_clock(tf, reading):
    """Make template_funcs read `reading` (an aware UTC datetime) from datetime.now(): the module-global
    name `datetime` is replaced by a subclass (isinstance checks keep accepting plain datetimes).
    Yields True if the clock could be frozen; False (nothing changed) if the module has no such global."""
    real = getattr(tf, "datetime", None)
    if real is not datetime:
        yield False
        return

    class _Meta(type):
        def __instancecheck__(cls, inst):
            return isinstance(inst, datetime)

    class FrozenDatetime(datetime, metaclass=_Meta):
        @classmethod
        def now(cls, tz=None):
            return reading.astimezone(tz) if tz is not None else reading.astimezone().replace(tzinfo=None)

    tf.datetime = FrozenDatetime
    try:
        yield True
    finally:
        tf.datetime = real


def canon_value(kind, v):
    if v is None:
        return ["null"]
    if kind == "number" and isinstance(v, int) and not isinstance(v, bool):
        return ["z", v]
    if kind == "choice" and isinstance(v, str) and v[:1] == "L" and v[1:].isdigit():
        return ["z", int(v[1:])]
    if kind == "date" and isinstance(v, str):
        try:
            return ["z", date.fromisoformat(v).toordinal() - EPOCH_ORD, v]
        except ValueError:
            pass
    if kind == "datetime" and isinstance(v, str):
        try:
            dt = datetime.fromisoformat(v)
            off = dt.utcoffset()
            naive = dt.replace(tzinfo=None) - datetime(1970, 1, 1)
            wall = (naive.days * 86400 + naive.seconds) * US + naive.microseconds
            if off is None:
                return ["dt", wall, None, v]
            offs = off.days * 86400 + off.seconds
            return ["dt", wall - offs * US, offs, v]
        except ValueError:
            pass
    return ["other", repr(v)[:80]]


def canon_key(k):
    """the row key as written to the sibling field `k` (an int, or digits when formulas give text)"""
    if isinstance(k, bool):
        return None
    if isinstance(k, int):
        return k
    if isinstance(k, float) and k == int(k):
        return int(k)
    if isinstance(k, str) and re.fullmatch(r"-?[0-9]+", k.strip()):
        return int(k.strip())
    return None


def _now_us():
    d = datetime.now(timezone.utc) - datetime(1970, 1, 1, tzinfo=timezone.utc)
    return (d.days * 86400 + d.seconds) * US + d.microseconds


def run_impl(case):
    import os
    import time
    if "fresh" in case:
        return run_fresh(case)
    os.environ["TZ"] = "UTC"
    time.tzset()
    from snowfakery import generate_data
    import snowfakery.template_funcs as tf
    dr = case["draws"]
    mode, raw = dr["mode"], dr.get("raw", [])
    uses_now = case["kind"] == "datetime" and any(sp.get("t") in ("now", "rel") for sp in all_specs(case))
    for fn in (getattr(tf, "parse_datetimespec", None), getattr(tf, "parse_date", None)):
        if hasattr(fn, "cache_clear"):
            fn.cache_clear()          # "now"/"today" are cached per process by lru_cache
    out = io.StringIO()
    obs = {}
    today0 = date.today().toordinal() - EPOCH_ORD
    t0 = _now_us()
    rlog = []
    reading = datetime(1970, 1, 1, tzinfo=timezone.utc) + timedelta(microseconds=t0)
    freezer = frozen_clock(tf, reading) if uses_now else contextlib.nullcontext(False)

    def below(n, i):
        if mode == "ends":
            return 0 if i % 2 == 0 else n - 1
        if mode == "all":
            return i % n
        return raw[i % len(raw)] % n

    def rnd(i):
        if mode == "ends":
            return 0 if i % 2 == 0 else DEN - 1
        return raw[i % len(raw)] % DEN

    frozen = False
    kw = {}
    if "blk" in case and case["blk"]["struct"] == "iter":
        kw["target_number"] = (case["blk"]["target"], "A")
    if "paths" in case and paths_parts(case)[4]:
        kw["user_options"] = paths_parts(case)[4]
    try:
      with freezer as frozen:
          if mode == "free":
              _random.seed(dr.get("seed", 0))
              try:
                  from faker import Faker
                  Faker.seed(dr.get("seed", 0))
              except Exception:
                  pass
              generate_data(io.StringIO(recipe(case)), output_file=out, output_format="json", **kw)
              obs["below"], obs["rand"], obs["widths"] = [], [], []
          else:
              with injected_randbelow(chooser=below) as rec, injected_random(rnd, rlog):
                  try:
                      generate_data(io.StringIO(recipe(case)), output_file=out, output_format="json", **kw)
                  finally:
                      obs["below"], obs["widths"], obs["rand"] = list(rec.values), list(rec.widths), list(rlog)
          rows = json.loads(out.getvalue())
          if "blk" in case:
              names = "de"[:len(case["blk"]["blocks"])]
              obs["rows"] = [[canon_key(r.get("k"))] + [canon_value("choice", r.get(f)) for f in names]
                             for r in rows if r.get("_table") == "A"]
              obs["ok"] = [v for r in obs["rows"] for v in r[1:]]
          elif "rowargs" in case:
              obs["rows"] = [[canon_key(r.get("k")), canon_value(case["kind"], r.get("d"))] for r in rows if r.get("_table") == "A"]
              obs["ok"] = [r[1] for r in obs["rows"]]
          else:
              vals = [r.get("d") for r in rows if r.get("_table") == "A"]
              if "dlab" in case:
                  vals = [dlab_back(case, v) for v in vals]
              if paths_result_reread(case):
                  # dialect 2 renders the result of a formula to text and reads back only digit strings >= 1:
                  # 0 and negative results stay the decimal text of the integer
                  obs["text_results"] = sum(1 for v in vals if isinstance(v, str))
                  vals = [int(v) if isinstance(v, str) and re.fullmatch(r"0|-[1-9][0-9]*", v) else v for v in vals]
              obs["ok"] = [canon_value(case["kind"], v) for v in vals]
    except BaseException as e:
        if isinstance(e, (KeyboardInterrupt, SystemExit, C._CaseTimeout)):
            raise
        obs["err"] = C.canon_exc(e)
        obs.setdefault("below", [])
        obs.setdefault("rand", list(rlog))
        obs.setdefault("widths", [])
    t1 = _now_us()
    obs["today"] = today0
    obs["t0"], obs["t1"] = t0, t1
    obs["clock_stable"] = (date.today().toordinal() - EPOCH_ORD) == today0
    # the clock reading `now` / relative bounds were resolved against: known only if the clock was frozen
    # (otherwise somewhere in [t0, t1]; the model comparison is then skipped)
    obs["now_us"] = t0 if (uses_now and frozen) else None
    return obs


# ------------------------------------------------------------------------------------------------
# model side
def row_fn_coq(case, r):
    """the function as evaluated for row r of a case whose weights are per-row formulas"""
    labs = [lab for lab, _, _ in case["items"]]
    ws = case["wrows"][r]
    if case["form"] == "choices":
        return "(FChoice (RCChoices " + C.clist(C.cpair(C.copt(q, C.cz), C.cz(lab)) for lab, q in zip(labs, ws)) + "))"
    return "(FChoice (RCDict " + C.clist(C.cpair(C.cz(lab), C.cz(q)) for lab, q in zip(labs, ws)) + "))"


def fn_coq(case, obs):
    k = case["kind"]
    if k == "number":
        step = 1 if case["step"] is None else case["step"]
        return f"(FNumber {C.cz(case['min'])} {C.cz(case['max'])} {C.cz(step)})"
    if k == "choice":
        form, items = case["form"], case["items"]
        if form == "list":
            return "(FChoice (RCList " + C.clist(C.cz(lab) for lab, _, _ in items) + "))"
        # the probabilities as the text written into the recipe; the model parses them (parse_weight_str)
        if "raw" in case:
            return ("(FBlock " + C.clist(C.cpair(f"(Some (WLit (WStr {C.cstr(t)})))", f"(PLab {C.cz(lab)})")
                                         for (lab, _, _), t in zip(items, case["raw"])) + " 0)")
        return ("(FBlock " + C.clist(C.cpair("None" if q is None else f"(Some (WLit {tok_coq(old_tok(q, st))}))", f"(PLab {C.cz(lab)})")
                                     for lab, q, st in items) + " 0)")
    now = obs.get("now_us")
    clock = f"(mkClock {C.cz(now if now is not None else 0)} {C.cz(obs['today'])})"
    if k == "date":
        return f"(FDate {clock} {spec_coq(case['start'])} {spec_coq(case['end'])})"
    tz = case.get("tz")
    tzs = 0 if tz is None else (None if tz == "false" else (tz[0] * 60 + tz[1]) * 60)
    return f"(FDateTime {clock} {clock} {spec_coq(case['start'])} {spec_coq(case['end'])} {C.copt(tzs, C.cz)})"


ISO_OUT = re.compile(r"\d{4}-\d\d-\d\d(T\d\d:\d\d:\d\d(\.\d{1,6})?([+-]\d\d:\d\d)?)?")


def value_coq(v):
    if v[0] in ("z", "dt") and isinstance(v[-1], str) and ISO_OUT.fullmatch(v[-1]) and sum(map(ord, v[-1])) % 4 != 0:
        return f"(value_of_text {C.cstr(v[-1])})"       # the model reads the printed date / datetime itself
    if v[0] == "z":
        return f"(VZ {C.cz(v[1])})"
    if v[0] == "null":
        return "VNull"
    if v[0] == "dt":
        return f"(VDT {C.cz(v[1])} {C.copt(v[2], C.cz)})"
    return None


def _uses_clock(case):
    return case["kind"] in ("date", "datetime") and any(sp["t"] in ("now", "today", "rel") for sp in all_specs(case))


def tok_coq(t):
    _, text, ty = t
    if ty == "int":
        return f"(WInt {C.cz(int(text))})"
    return f"({'WFlt' if ty == 'flt' else 'WStr'} {C.cstr(text)})"


def block_coq(b):
    """the block as it stands in the recipe: literal / by-key probabilities (as text), label / by-key picks"""
    items = []
    for j, col in enumerate(b["cols"]):
        if col["lit"]:
            w = f"(WLit {tok_coq(b['tab'][0][1][j])})"
        else:
            w = ("(WByKey " + C.clist(C.cpair(C.cz(key), tok_coq(row[j])) for key, row in b["tab"][:-1])
                 + " " + tok_coq(b["tab"][-1][1][j]) + ")")
        pk = f"(PKey {C.cz(col['lab'] * 1000)})" if col.get("pickf") else f"(PLab {C.cz(col['lab'])})"
        items.append(C.cpair(f"(Some {w})", pk))
    return C.clist(items)


def block_coq_case(case, obs):
    rows = obs.get("rows")
    if rows is None or not rows or any(r[0] is None for r in rows):
        return None                      # an error / unreadable keys: the oracle reports what the property says about it
    blocks = case["blk"]["blocks"]
    pairs = []                           # (block, key of the row, value) in the order the draws are made
    for r in rows:
        for i, v in enumerate(r[1:]):
            vc = value_coq(v)
            if vc is None:
                return None
            pairs.append((i, r[0], vc))
    free = case["draws"]["mode"] == "free"
    if not free and len(obs["rand"]) != len(pairs):
        draws = [-1] * len(pairs)        # unexpected number of draws: disagreement
    else:
        draws = [None] * len(pairs) if free else obs["rand"]
    return (f"CBlocks {DEN} " + C.clist(block_coq(b) for b in blocks) + " "
            + C.clist(f"({C.cnat(i)}, {C.cz(k)}, {C.copt(d, C.cz)}, {v})" for (i, k, v), d in zip(pairs, draws)))


def coq_case(case, obs):
    if "fresh" in case:
        return None                      # a statement about several processes: checked by the oracle only
    if _uses_clock(case) and not obs.get("clock_stable", True):
        return None                      # midnight passed during the run
    if case["kind"] == "datetime" and any(sp["t"] in ("now", "rel") for sp in all_specs(case)) \
            and obs.get("now_us") is None:
        return None                      # the value `now` resolved to could not be observed
    if "blk" in case:
        return block_coq_case(case, obs)
    if "rowargs" in case:
        if case["kind"] == "datetime" and any(sp["t"] in ("now", "rel") for sp in all_specs(case)) and obs.get("now_us") is None:
            return None
        rows = obs.get("rows")
        if not rows or any(r[0] is None for r in rows):
            return None
        vals = [value_coq(r[1]) for r in rows]
        if any(v is None for v in vals):
            return None
        fns = [fn_coq(row_case(case, r[0]), obs) for r in rows]
        if case["draws"]["mode"] == "free":
            return "CPerRowFree " + C.clist(C.cpair(f, v) for f, v in zip(fns, vals))
        drawn = obs["below"] if case["kind"] == "number" else obs["rand"]
        if case["kind"] == "date":       # a reversed pair of bounds returns nothing without drawing
            it = iter(drawn)
            drawn = [0 if r[1][0] == "null" else next(it, -1) for r in rows]
            if next(it, None) is not None:
                drawn = [-1] * len(rows)
        if len(drawn) != len(rows):
            drawn = [-1] * len(rows)     # unexpected number of draws: disagreement
        return f"CPerRow {DEN} " + C.clist(f"({f}, {C.cz(d)}, {v})" for f, d, v in zip(fns, drawn, vals))
    if "wrows" in case:
        if "ok" not in obs or len(obs["ok"]) != len(case["wrows"]):
            return None                  # every row is valid: the oracle reports an error / missing rows
        vals = [value_coq(v) for v in obs["ok"]]
        if any(v is None for v in vals):
            return None
        fns = [row_fn_coq(case, r) for r in range(len(vals))]
        if case["draws"]["mode"] == "free":
            return "CPerRowFree " + C.clist(C.cpair(f, v) for f, v in zip(fns, vals))
        if len(obs["rand"]) != len(vals):
            return f"CPerRow {DEN} [({fns[0]}, (-1), VNull)]"      # unexpected number of draws: disagreement
        return f"CPerRow {DEN} " + C.clist(f"({f}, {C.cz(d)}, {v})" for f, d, v in zip(fns, obs["rand"], vals))
    f = fn_coq(case, obs)
    rows = case["draws"]["rows"]
    if case["draws"]["mode"] == "free":
        if "ok" in obs:
            vals = [value_coq(v) for v in obs["ok"]]
            if any(v is None for v in vals):
                return None              # unexpected value shape: the oracle reports it
            return f"CFree {f} {C.clist(vals)}"
        # the model must fail whatever the draws are: give it draws, so that only a genuine error matches
        return f"CInjected {f} {DEN} {C.clist(['0'] * rows)} {C.cnat(rows)} None (Err {C.cerr(obs['err'])})"
    uses_below = case["kind"] == "number" or (case["kind"] == "choice" and case["form"] == "list")
    draws = obs["below"] if uses_below else obs["rand"]
    widths = C.copt(obs["widths"], lambda w: C.clist(C.cz(x) for x in w)) if uses_below else "None"
    if "ok" in obs:
        vals = [value_coq(v) for v in obs["ok"]]
        if any(v is None for v in vals):
            return None
        exp = f"(Ok {C.clist(vals)})"
    else:
        exp = f"(Err {C.cerr(obs['err'])})"
    return f"CInjected {f} {DEN} {C.clist(C.cz(d) for d in draws)} {C.cnat(rows)} {widths} {exp}"


# ------------------------------------------------------------------------------------------------
# property oracle, evaluated on the implementation's observables only
def choice_weights(case):
    """weights as the user wrote them (quarters); list form: all 1"""
    if case["form"] == "list":
        return [4 for _ in case["items"]]
    return [q for _, q, _ in case["items"]]


def dt_bounds(case, obs):
    """per bound: (instant_lo, instant_hi, wall_lo, wall_hi, has_offset, has_fraction) or None"""
    out = []
    for b in ("start", "end"):
        sp = case[b]
        if sp["t"] in ("now", "rel"):
            off = rel_seconds(sp["parts"]) * US if sp["t"] == "rel" else 0
            lo, hi = (obs["now_us"], obs["now_us"]) if obs.get("now_us") is not None else (obs["t0"], obs["t1"])
            out.append((lo + off, hi + off, lo + off, hi + off, False, True))
        elif sp["t"] == "today":
            v = obs["today"] * DAYUS
            out.append((v, v, v, v, False, False))
        elif sp["t"] == "abs":
            if sp["dateonly"]:
                v = spec_day(sp) * DAYUS
                out.append((v, v, v, v, False, False))
            else:
                w = spec_wall_us(sp)
                o = (sp["off"] or 0) * 60 * US
                out.append((w - o, w - o, w, w, bool(sp["off"]), sp["us"] != 0))
        else:
            out.append(None)
    return out


def date_bound(sp, obs):
    if sp["t"] in ("now", "today"):
        return obs["today"]
    if sp["t"] == "abs":
        return spec_day(sp)
    if sp["t"] == "rel":
        return obs["today"] + rel_days(sp["parts"])
    return None


def oracle(case, obs):
    if "fresh" in case:
        return fresh_oracle(case, obs)
    k = case["kind"]
    vals = obs.get("ok")
    if vals is not None and "dlab" in case and any(v[0] == "other" for v in vals):
        dl = case["dlab"]
        return (f"choice: random_choice over the options {[dict(dl['texts'])[lab] for lab, _, _ in case['items']]} (texts made of digit-like characters that are not ASCII digits; "
                f"dialect {dl['dialect']}, {case['form']} form, call written {dl['call']}) returned {[v[1] for v in vals if v[0] == 'other'][:2]}: not a listed option "
                f"(the recipe language reads only ASCII digit strings as numbers); recipe: {json.dumps(recipe(case), ensure_ascii=False)[:500]}")
    if vals is not None and any(v[0] == "other" for v in vals):
        return f"{k}: unexpected value in the output: {[v for v in vals if v[0] == 'other'][:2]}"
    mode = case["draws"]["mode"]
    if "paths" in case:
        pp = case["paths"]
        msg = oracle({kk: vv for kk, vv in case.items() if kk != "paths"}, obs)
        return msg and (msg + f" -- dialect {pp['dialect']}, call written as {pp['call']}, arguments reaching it as "
                        + ", ".join(f"{n}: {r}" for n, r in pp["args"].items() if case.get(n) is not None)
                        + "; recipe: " + json.dumps(paths_recipe(case))[:600])
    if "rowargs" in case:
        ra = case["rowargs"]
        what = (f"arguments changing from row to row (key {ra['driver']}, literal: {ra['lit'] or 'none'}, "
                f"table {[[key, [spec_text(a) if isinstance(a, dict) else a for a in row]] for key, row in ra['tab']]})")
        if vals is None:
            return f"{k}: {RA_FN[k]} with valid arguments in every row raised {obs['err']}; {what}" if rowargs_all_valid(case, obs) else None
        for n, r in enumerate(obs["rows"]):
            if r[0] is None:
                continue
            rc = row_case(case, r[0])
            msg = oracle(rc, dict(obs, ok=[r[1]]))
            if msg:
                return f"{msg} -- row {n + 1} (key {r[0]}); {what}"
            if k == "number" and mode == "ends" and len(obs.get("below", [])) == len(obs["rows"]):
                st = rc["step"] or 1
                want = rc["min"] if n % 2 == 0 else rc["max"] - (rc["max"] - rc["min"]) % st
                if r[1][0] == "z" and r[1][1] != want:
                    return (f"number: row {n + 1} (key {r[0]}): random_number(min={rc['min']}, max={rc['max']}, step={rc['step']}) with the "
                            f"{'lowest' if n % 2 == 0 else 'highest'} draw of the width requested gave {r[1][1]}, not the end {want} of that row's lattice; {what}")
        return None
    if k == "number":
        mn, mx = case["min"], case["max"]
        step = 1 if case["step"] is None else case["step"]
        if step < 1:
            return None
        if mn > mx:
            if vals:
                return f"number: random_number(min={mn}, max={mx}, step={step}) returned {vals[0][1]} for an empty range"
            return None
        if vals is None:
            return f"number: random_number(min={mn}, max={mx}, step={step}) raised {obs['err']}"
        top = mx - (mx - mn) % step
        for v in vals:
            x = v[1] if v[0] == "z" else None
            if x is None or not (mn <= x <= mx) or (x - mn) % step != 0:
                return f"number: random_number(min={mn}, max={mx}, step={step}) returned {x}: outside the lattice"
        got = {v[1] for v in vals}
        if mode == "ends" and len(vals) >= 2 and not ({mn, top} <= got):
            return (f"number: random_number(min={mn}, max={mx}, step={step}): with the lowest and highest draw of the "
                    f"width requested ({obs.get('widths')}) the values are {sorted(got)}; ends {mn} and {top} not both reached")
        if mode == "all" and got != set(range(mn, mx + 1, step)):
            return (f"number: random_number(min={mn}, max={mx}, step={step}): all draws of the requested width "
                    f"{obs.get('widths', [None])[:1]} give {sorted(got)}, not the whole lattice")
        return None
    if k == "choice" and "blk" in case:
        blk = case["blk"]
        what = (f"{blk['struct']} structure, key {driver_expr(blk)}, " +
                " / ".join(f"{b['form']} form with {sum(c['lit'] for c in b['cols'])} literal and "
                           f"{sum(not c['lit'] for c in b['cols'])} formula weights" for b in blk["blocks"]))
        if vals is None:
            return f"choice: random_choice block ({what}; every row has a positive total weight) raised {obs['err']}"
        for n, r in enumerate(obs["rows"]):
            if r[0] is None:
                continue                 # the key of this row could not be read back: nothing to say about it
            for name, b, v in zip("de", blk["blocks"], r[1:]):
                labs, ws = block_row(b, r[0])
                x = v[1] if v[0] == "z" else None
                if x not in labs:
                    return (f"choice: row {n + 1} (key {r[0]}) field {name} returned {v}, not one of the options {labs} "
                            f"listed for that row ({what})")
                if x not in {lab for lab, w in zip(labs, ws) if w > 0}:
                    return (f"choice: row {n + 1} (key {r[0]}) field {name} returned option L{x} whose weight in that row is 0 "
                            f"(weights {ws} quarters over {labs}; {what})")
        return None
    if k == "choice" and "wrows" in case:
        labels = [lab for lab, _, _ in case["items"]]
        if vals is None:
            return (f"choice: random_choice ({case['form']} form, {case['syntax']} formulas) with per-row weights "
                    f"{case['wrows']} (quarters) over {labels} raised {obs['err']}")
        if len(vals) != len(case["wrows"]):
            return f"choice: {len(vals)} rows produced, {len(case['wrows'])} expected"
        for r, (v, ws) in enumerate(zip(vals, case["wrows"])):
            x = v[1] if v[0] == "z" else None
            if x not in labels:
                return f"choice: row {r + 1} returned {v}, which is not a listed option {labels}"
            if x not in {lab for lab, w in zip(labels, ws) if w > 0}:
                return (f"choice: row {r + 1} returned option L{x} whose weight in that row is 0 "
                        f"({case['form']} form, {case['syntax']} formulas, per-row weights {case['wrows']} over {labels})")
        return None
    if k == "choice":
        ws = choice_weights(case)
        labels = [lab for lab, _, _ in case["items"]]
        if not labels:
            return None
        if any(w is None or w < 0 for w in ws):
            return None                 # malformed weights: outside the property
        if sum(ws) == 0:
            if vals:
                return f"choice: a value was returned although no option has a positive weight: {vals[0]}"
            return None
        if vals is None:
            return f"choice: random_choice with weights {ws} (quarters) over {labels} raised {obs['err']}"
        positive = {lab for lab, w in zip(labels, ws) if w > 0}
        for v in vals:
            x = v[1] if v[0] == "z" else None
            if x not in labels:
                return f"choice: returned {v}, which is not a listed option {labels}"
            if x not in positive:
                return f"choice: returned option L{x} whose weight is 0 (weights {ws} over {labels})"
        return None
    if k == "date":
        ds, de = date_bound(case["start"], obs), date_bound(case["end"], obs)
        if ds is None or de is None or not obs.get("clock_stable", True):
            return None
        if vals is None:
            return f"date: date_between over day numbers [{ds},{de}] raised {obs['err']}" if ds <= de else None
        for v in vals:
            if v[0] == "null":
                if ds <= de:
                    return f"date: date_between over day numbers [{ds},{de}] returned nothing"
            elif not (ds <= v[1] <= de):
                return f"date: date_between returned day {v[1]}, outside [{ds},{de}]"
        return None
    if k == "datetime":
        bs = dt_bounds(case, obs)
        if bs[0] is None or bs[1] is None or not obs.get("clock_stable", True):
            return None
        (s_lo, s_hi, _, _, _, _), (e_lo, e_hi, _, _, _, _) = bs
        if vals is None:
            if s_hi <= e_lo:
                return f"datetime: rejected: a range whose start instant {s_hi} is not after its end instant {e_lo} raised {obs['err']}"
            return None
        for v in vals:
            if v[0] != "dt":
                return f"datetime: returned {v}"
            if e_hi < s_lo:
                return f"datetime: empty: returned a value for a range whose end instant {e_hi} is before its start instant {s_lo}"
            if v[1] < s_lo:
                return f"datetime: before: value {v[1]} us is before the start instant {s_lo} us"
            if v[1] > e_hi:
                return f"datetime: after: value {v[1]} us is after the end instant {e_hi} us"
        return None
    return None


def violation_class(case, obs, msg):
    if "fresh" in case:
        return ":".join(msg.split(":")[:2])
    return ":".join(msg.split(":")[:2]) if case["kind"] == "datetime" else msg.split(":")[0]


def match_finding(case, obs, msg, findings):
    """No open finding for C11: every oracle failure is a violation.  (K4, K10, K11, K12, K13 were
    repaired in /repo; their witnesses stay in corpus/C11 as regression cases.)"""
    return None


# ------------------------------------------------------------------------------------------------
# evidence
def nontrivial(case, obs):
    k = case["kind"]
    if "fresh" in case:
        return len(obs.get("runs", [])) >= FRESH_MIN_PROCS and fresh_stuck(case, obs)[0] >= 2
    if "rowargs" in case:
        return "ok" in obs and len(obs.get("rows", [])) >= 2
    if k == "number":
        step = 1 if case["step"] is None else case["step"]
        if step < 1:
            return False
        return ((case["max"] - case["min"]) // step >= 1 and "ok" in obs) or case["min"] > case["max"]
    if k == "choice" and "blk" in case:
        return "ok" in obs and len(obs.get("rows", [])) >= 2
    if k == "choice":
        ws = choice_weights(case)
        if "ok" in obs:
            return len(case["items"]) >= 2
        return all(w is not None and w >= 0 for w in ws) and len(ws) >= 1
    if k == "date":
        return "ok" in obs and case["start"] != case["end"]
    if k == "datetime":
        return case["start"] != case["end"]
    return False


def stats(cases, obss):
    kinds = Counter(c["kind"] for c in cases)
    modes = Counter(f"{c['kind']}/{c['draws']['mode']}" for c in cases)
    outcomes = Counter()
    feats = Counter()
    span = Counter()
    rows = 0
    for c, o in zip(cases, obss):
        if not isinstance(o, dict):
            continue
        if "fresh" in c:
            fr = c["fresh"]
            runs = o.get("runs", [])
            outcomes["fresh:" + ("ok" if len(runs) >= FRESH_MIN_PROCS else "error-in-child" if o.get("errs") else "too-few-processes-in-time")] += 1
            rows += sum(len(row) for r in runs for row in r)
            feats["fresh"] += 1
            feats[f"fresh:route:{fr['route']}"] += 1
            feats[f"fresh:dialect-{fr['dialect']}"] += 1
            feats[f"fresh:structure:{fr['struct']}" + (":target_number" if fr.get("target") else "")] += 1
            feats["fresh:rows:" + ("2-4" if fr["rows"] <= 4 else "25-45")] += 1
            feats[f"fresh:processes-compared:{len(runs)}"] += 1
            if not (fr["pre"] or fr["row"] or fr["late"]):
                feats["fresh:no-other-feature (draws only)"] += 1
            for place in ("pre", "row", "late"):
                for f in fr[place]:
                    feats[f"fresh:feature:{f}"] += 1
                    feats[f"fresh:feature-place:{ {'pre': 'earlier-object', 'row': 'earlier-field-of-the-row', 'late': 'later-field (earlier than the next row)'}[place]}"] += 1
            for pb in fr["probes"]:
                b = fresh_probe_bits(pb)
                feats[f"fresh:probe:{pb['kind']}" + (":step" if pb.get("step") else "") + (":weighted" if pb.get("weights") else "")
                      + (":inline" if pb.get("inline") else "") + (":two-point" if b == 1.0 else ":wide" if b and b >= 16 else "")] += 1
            if len(runs) >= FRESH_MIN_PROCS:
                npos, stuck = fresh_stuck(c, o)
                feats["fresh:positions-compared"] += npos
                feats["fresh:positions-equal-in-every-process (chance)"] += len(stuck)
                two = [(i, j) for i in range(min(len(r) for r in runs)) for j, pb in enumerate(fr["probes"]) if fresh_probe_bits(pb) == 1.0]
                if two:
                    feats["fresh:two-point-positions"] += len(two)
                    feats["fresh:two-point-positions-with-both-ends-seen"] += sum(
                        1 for i, j in two if len({json.dumps(r[i].get(f"p{j}")) for r in runs}) == 2)
            continue
        outcomes[f"{c['kind']}:{o.get('err', 'ok') if ('ok' in o or 'err' in o) else 'n/a'}"] += 1
        rows += len(o.get("ok", []))
        k = c["kind"]
        if "rowargs" in c:
            ra = c["rowargs"]
            nl = len([n for n in RA_NAMES[k] if n in ra["lit"]])
            feats[f"rowargs:{k}"] += 1
            feats[f"rowargs:{k}:" + ("all-formula" if nl == 0 else "all-literal" if nl == len(RA_NAMES[k]) else "mixed-literal-and-formula")] += 1
            feats[f"rowargs:key:{ra['driver']}"] += 1
            seen = {r[0] for r in o.get("rows", []) if r[0] is not None}
            if len({json.dumps(row_case(c, kk), sort_keys=True) for kk in seen}) >= 2:
                feats["rowargs:arguments-differ-between-observed-rows"] += 1
            continue
        if k == "number":
            step = 1 if c["step"] is None else c["step"]
            w = c["max"] - c["min"]
            feats["number:" + ("step<=0" if step <= 0 else "empty" if w < 0 else "equal" if w == 0 else
                               "step>span" if step > w else "step=1" if step == 1 else "step>1")] += 1
            if abs(c["min"]) > 2 ** 64 or abs(c["max"]) > 2 ** 64:
                feats["number:beyond-64-bit"] += 1
            if c["min"] < 0:
                feats["number:negative-min"] += 1
            if "paths" in c:
                pp = c["paths"]
                feats["routes"] += 1
                feats[f"routes:dialect-{pp['dialect']}"] += 1
                feats[f"routes:call:{pp['call']}"] += 1
                big = [n for n in ("min", "max", "step") if c[n] is not None and abs(c[n]) > 2 ** 53]
                for n, r in pp["args"].items():
                    if c[n] is not None:
                        feats[f"routes:arg:{r}"] += 1
                        if n in big and reread_as_text(r, pp["call"], pp["dialect"]):
                            feats["routes:argument-beyond-2^53-rendered-to-text-and-re-read"] += 1
                        elif n in big and r != "yaml":
                            feats["routes:argument-beyond-2^53-through-formula-natively"] += 1
                if big:
                    feats["routes:some-argument-beyond-2^53"] += 1
                    m = max(len(str(abs(c[n]))) for n in big)
                    feats["routes:digits:" + ("17-20" if m <= 20 else "21-99" if m < 100 else "100+")] += 1
                if paths_result_reread(c) and any(v[0] == "z" and abs(v[1]) > 2 ** 53 for v in o.get("ok", [])):
                    feats["routes:result-beyond-2^53-rendered-to-text-and-re-read"] += 1
                if o.get("text_results"):
                    feats["routes:result-stays-text (0 / negative in dialect 2)"] += 1
            span["<0" if w < 0 else "0" if w == 0 else "1-9" if w < 10 else "10-999" if w < 1000 else ">=1000"] += 1
        elif k == "choice" and "blk" in c:
            blk = c["blk"]
            feats["block"] += 1
            feats[f"block:structure:{blk['struct']}"] += 1
            feats[f"block:key:{blk['driver']}"] += 1
            feats["block:renderings:" + ("2-3" if len(o.get("rows", [])) <= 3 else "4-6" if len(o.get("rows", [])) <= 6 else "7+")] += 1
            if len(blk["blocks"]) > 1:
                feats["block:two-blocks-in-one-object"] += 1
            if blk.get("legacy"):
                feats["block:legacy-mode"] += 1
            for b in blk["blocks"][:1]:
                nl, nf = sum(cc["lit"] for cc in b["cols"]), sum(not cc["lit"] for cc in b["cols"])
                feats[f"block:{b['form']}:" + ("mixed-literal-and-formula" if nl and nf else "all-formula" if nf else "all-literal")] += 1
                for cc in b["cols"]:
                    if not cc["lit"]:
                        feats[f"block:formula-syntax:{cc['syntax']}"] += 1
                    if cc.get("pickf"):
                        feats["block:pick-is-a-formula"] += 1
                if b.get("wrap"):
                    feats["block:nested-in-if"] += 1
                cols = list(zip(*[[t[0] for t in row] for _, row in b["tab"]]))
                if any(0 in col and any(w > 0 for w in col) for col in cols):
                    feats["block:weight-reaches-0-in-some-rows"] += 1
                if any(400 in col and 0 in col for col in cols):
                    feats["block:weight-moves-between-0-and-100"] += 1
                seen = {r[0] for r in o.get("rows", []) if r[0] is not None}
                if len({tuple(block_row(b, kk)[1]) for kk in seen}) >= 2:
                    feats["block:weights-differ-between-observed-rows"] += 1
        elif k == "choice":
            ws = choice_weights(c)
            feats[f"choice:{c['form']}"] += 1
            if "dlab" in c:
                feats["choice:digit-like-option-texts"] += 1
                feats[f"choice:digit-like-option-texts:dialect-{c['dlab']['dialect']}:{c['dlab']['call']}"] += 1
                for _, t in c["dlab"]["texts"]:
                    feats["choice:digit-like-option:" + ("non-ascii-decimal" if t.isdecimal() else "isdigit-not-decimal" if t.isdigit() else
                                                         "isnumeric-only" if t.isnumeric() else "float-like" if "." in t else "mixed-with-other-text")] += 1
            if "raw" in c:
                feats["choice:probability-text-as-written (float() accepts / rejects)"] += 1
            for _, q, st in c["items"]:
                if q is not None and st in ("sp", "plus", "zeros", "pp"):
                    feats[f"choice:weight-text:{st}"] += 1
            if "wrows" in c:
                feats[f"choice:per-row-formula-weights:{c['syntax']}:{c['form']}"] += 1
                if any(a[j] == 0 and b[j] > 0 or a[j] > 0 and b[j] == 0
                       for a, b in zip(c["wrows"], c["wrows"][1:]) for j in range(len(a))):
                    feats["choice:zero-weight-moves-between-rows"] += 1
            if any(w == 0 for w in ws):
                feats["choice:has-zero-weight"] += 1
            if any(w is not None and abs(w) > 4 * 2 ** 53 for w in ws + [w for row in c.get("wrows", []) for w in row]):
                feats["choice:weight-beyond-2^53"] += 1
            if sum(1 for w in ws if w) == 1 and all(w is not None for w in ws):
                feats["choice:single-mass"] += 1
            if any(w is None for w in ws):
                feats["choice:missing-probability"] += 1
            if any(w is not None and w < 0 for w in ws):
                feats["choice:negative-weight"] += 1
            if any(st == "pct" for _, _, st in c["items"]):
                feats["choice:percent-strings"] += 1
            feats[f"choice:n={min(len(ws), 6)}{'+' if len(ws) >= 6 else ''}"] += 1
        else:
            for b in ("start", "end"):
                sp = c[b]
                if sp["t"] != "bad":
                    feats[f"{k}:bound-text-parsed-by-" + ("the-model" if spec_coq(sp).startswith("(spec_of_text") else "python-datetime")] += 1
                for flag in ("zulu", "shortfrac", "zpad"):
                    if sp.get(flag):
                        feats[f"{k}:text:{flag}"] += 1
                feats[f"{k}:{b}:{sp['t']}" + (":offset" if sp.get("off") else "") + (":fraction" if sp.get("us") else "")
                      + (":dateonly" if sp.get("dateonly") else "") + (":quoted" if str(sp.get("style", "")).startswith("str") else "")] += 1
            if c["start"].get("t") == "abs" and c["end"].get("t") == "abs":
                if (c["start"]["mo"], c["start"]["d"]) == (2, 29) or (c["end"]["mo"], c["end"]["d"]) == (2, 29):
                    feats[f"{k}:leap-day"] += 1
                if k == "date":
                    d = spec_day(c["end"]) - spec_day(c["start"])
                    feats[f"date:span:{'<0' if d < 0 else '0' if d == 0 else '1' if d == 1 else '>1'}"] += 1
                else:
                    d = spec_wall_us(c["end"]) // US - spec_wall_us(c["start"]) // US
                    feats[f"datetime:wallspan:{'<0' if d < 0 else '0s' if d == 0 else '1s' if d == 1 else '>1s'}"] += 1
            if k == "datetime" and c.get("tz") is not None:
                feats["datetime:timezone-arg"] += 1
    return {"kinds": dict(kinds), "draw_modes": dict(modes), "outcomes": dict(outcomes), "features": dict(feats),
            "number_span": dict(span), "values_observed": rows}


# ------------------------------------------------------------------------------------------------
# generation
def draws(rng, mode, rows=None, seed=None):
    if mode == "ends":
        return {"mode": "ends", "rows": 2}
    if mode == "all":
        return {"mode": "all", "rows": rows}
    if mode == "free":
        return {"mode": "free", "rows": rows or 200, "seed": rng.randint(0, 10 ** 6) if seed is None else seed}
    rows = rows or rng.randint(1, 4)
    return {"mode": "raw", "rows": rows, "raw": [rng.choice([0, 1, DEN - 1, DEN // 2, rng.randint(0, 10 ** 9), rng.randint(0, 2 ** 80)])
                                                  for _ in range(rows)]}


def gen_number_triple(rng):
    big = rng.random() < 0.15
    mn = rng.choice([0, 1, -1, -7, 10, rng.randint(-50, 50), rng.randint(-10 ** 6, 10 ** 6)])
    if big:
        mn = rng.choice([-1, 1]) * (2 ** rng.choice([31, 32, 63, 64, 70]) + rng.randint(-2, 2))
    span = rng.choice([0, 0, 1, 2, 3, rng.randint(0, 12), rng.randint(0, 40), rng.randint(0, 1000),
                       2 ** rng.choice([31, 32, 63, 64, 70, 71]) + rng.randint(-2, 2) if big else rng.randint(0, 30)])
    r = rng.random()
    if r < 0.25:
        step = None
    elif r < 0.35:
        step = 1
    elif r < 0.5:
        step = 2
    elif r < 0.6:
        step = max(1, span + rng.choice([-1, 0, 1]))          # step = span-1, span, span+1
    elif r < 0.65:
        step = span + rng.randint(2, 50)                      # step > span
    elif r < 0.9:
        step = rng.randint(1, 12)
    else:
        step = rng.randint(1, max(1, span))
    return mn, mn + span, step


def gen_number(rng, tier):
    out = []
    n = 170 if tier == "quick" else 2600
    fixed = [(0, 0, None), (5, 5, 3), (1, 10, 3), (1, 10, 9), (1, 10, 10), (1, 10, 11), (-10, -1, 2), (-3, 3, 3), (-3, 4, 7),
             (0, 1, 1), (0, 1, 2), (12, 95, None), (10, 90, 10), (-2 ** 70, 2 ** 70, 7), (2 ** 64 - 1, 2 ** 64 + 1, 2)]
    triples = fixed + [gen_number_triple(rng) for _ in range(n)]
    for mn, mx, step in triples:
        st = 1 if step is None else step
        npts = (mx - mn) // st + 1
        style = rng.choice(["block", "block", "inline"])
        base = {"kind": "number", "min": mn, "max": mx, "step": step, "style": style}
        out.append(dict(base, draws=draws(rng, "ends")))
        if npts <= 40:
            out.append(dict(base, draws=draws(rng, "all", rows=npts)))
        else:
            out.append(dict(base, draws=draws(rng, "raw")))
        out.append(dict(base, draws=draws(rng, "free", rows=200 if tier == "quick" else 400)))
    # exhaustive small triples, every draw of each
    for mn in ((0,) if tier == "quick" else (-2, -1, 0, 1, 5)):
        for span in range(0, 7 if tier == "quick" else 13):
            for step in range(1, 9 if tier == "quick" else 15):
                out.append({"kind": "number", "min": mn, "max": mn + span, "step": step, "style": "block",
                            "draws": draws(rng, "all", rows=span // step + 1)})
    # the error stream: empty ranges, zero / negative steps
    bad = [(5, 4, None), (5, 4, 1), (5, 4, 3), (0, -1, 2), (10, 1, 3), (1, 4, 0), (4, 1, 0), (10, 1, -3), (10, 1, -1), (1, 10, -3),
           (3, 3, -1), (2 ** 70, 2 ** 70 - 1, 1), (-5, -6, 2)]
    for _ in range(20 if tier == "quick" else 300):
        mn = rng.randint(-100, 100)
        bad.append((mn, mn - rng.randint(1, 30), rng.choice([None, 1, 2, rng.randint(1, 9)])))
        bad.append((mn, mn + rng.randint(-20, 20), rng.choice([0, -1, -2, -rng.randint(1, 9)])))
    for mn, mx, step in bad:
        out.append({"kind": "number", "min": mn, "max": mx, "step": step, "style": rng.choice(["block", "inline"]),
                    "draws": draws(rng, rng.choice(["ends", "raw", "free"]), rows=3)})
    return out


def gen_magnitude(rng):
    """a positive integer, mostly one a double cannot hold"""
    r = rng.random()
    if r < 0.3:
        return 2 ** 53 + rng.choice([1, 1, 3, 5, 7, 2 * rng.randint(0, 5000) + 1])            # first integers beyond the doubles
    if r < 0.45:
        return 2 ** rng.choice([53, 54, 55, 60, 63, 64, 80, 100, 200, 1000]) + rng.randint(-9, 9)
    if r < 0.6:
        return rng.randint(10 ** 16, 10 ** rng.choice([17, 19, 20, 30, 40]))
    if r < 0.75:
        return rng.randint(10 ** 99, 10 ** rng.choice([100, 150, 300, 320, 400]))               # hundreds of digits (beyond the doubles' range too)
    if r < 0.85:
        return 10 ** rng.choice([16, 17, 22, 23, 50, 308, 309]) + rng.choice([1, -1, 3, 7])
    return rng.choice([1, 2, 7, 10, 99, 100, rng.randint(1, 10 ** 6), rng.randint(1, 2 ** 53)])


def gen_paths_triple(rng):
    mn = gen_magnitude(rng)
    r = rng.random()
    if r < 0.25:
        mn = -mn
    elif r < 0.3:
        mn = rng.choice([0, -1, -3])
    r = rng.random()
    span = (rng.choice([0, 0, 1, 2, 3, 6, rng.randint(0, 12), rng.randint(0, 40)]) if r < 0.6 else
            rng.randint(0, 1000) if r < 0.7 else gen_magnitude(rng))
    if mn < 0 and rng.random() < 0.3:
        span = -mn + gen_magnitude(rng)                                # the range straddles 0
    r = rng.random()
    if r < 0.25:
        step = None
    elif r < 0.5:
        step = rng.choice([1, 2, 2, 3, 5])
    elif r < 0.65:
        step = max(1, span + rng.choice([-1, 0, 1]))
    elif r < 0.85:
        step = max(1, gen_magnitude(rng) if span > 2 ** 53 else rng.randint(1, max(1, span)))
    else:
        step = gen_magnitude(rng)                                      # often > span: only min is on the lattice
    return mn, mn + span, step


def gen_paths_case(rng, mn, mx, step, i):
    dialect = 2 if i % 3 != 2 else 3                                   # dialect 2 is the default of the recipe language
    call = rng.choice(["block", "block", "inline", "inline", "positional"] + (["inline_legacy"] if dialect == 2 else []))
    case = {"kind": "number", "min": mn, "max": mx, "step": step, "style": "paths"}
    routes = {}
    for name in ("min", "max", "step"):
        v = case[name]
        if v is None:
            continue
        pool = ["yaml", "formula", "blocktag", "var", "var", "var_formula", "option", "user_option", "arith", "arith", "field", "this_field"]
        if dialect == 2:
            pool += ["quoted", "legacy"]
        if call != "block":                                            # inside a formula an argument is an expression
            pool = ["yaml", "var", "var", "var_formula", "option", "arith", "arith", "field", "this_field"]
        route = rng.choice(pool)
        if v < 1 and reread_as_text(route, call, dialect):
            route = "yaml"                                             # 0 / negative text is not read back as a number in dialect 2
        routes[name] = route
    case["paths"] = {"dialect": dialect, "call": call, "args": routes, "salt": rng.randint(0, 99)}
    return case


def gen_number_paths(rng, tier):
    out = []
    n = 130 if tier == "quick" else 2500
    fixed = [(2 ** 53 + 1, 2 ** 53 + 7, 2), (2 ** 53 + 1, 2 ** 53 + 1, None), (2 ** 53 - 1, 2 ** 53 + 2, None), (2 ** 53 + 1, 2 ** 54 + 3, 2 ** 53 + 1),
              (-(2 ** 53) - 7, -(2 ** 53) - 1, 3), (10 ** 22 + 1, 10 ** 22 + 9, 4), (1, 2 ** 64 + 1, 2 ** 63 + 1), (10 ** 300 + 1, 10 ** 300 + 3, None)]
    triples = fixed + [gen_paths_triple(rng) for _ in range(n)]
    for i, (mn, mx, step) in enumerate(triples):
        base = gen_paths_case(rng, mn, mx, step, i)
        st = 1 if step is None else step
        npts = (mx - mn) // st + 1
        out.append(dict(base, draws=draws(rng, "ends")))
        if npts <= 13:
            out.append(dict(base, draws=draws(rng, "all", rows=npts)))
        else:
            out.append(dict(base, draws=draws(rng, "raw")))
        if i % 2 == 0:
            out.append(dict(base, draws=draws(rng, "free", rows=12)))
    # empty ranges / zero steps through the same routes: still an error (or nothing), never a value
    for i in range(10 if tier == "quick" else 150):
        mn, mx, step = gen_paths_triple(rng)
        if i % 2:
            mn, mx = mx + rng.choice([1, 2, gen_magnitude(rng)]), mn
        else:
            step = 0
        out.append(dict(gen_paths_case(rng, mn, mx, step, i), draws=draws(rng, rng.choice(["ends", "free"]), rows=2)))
    return out


def gen_weights(rng, n):
    r = rng.random()
    pool = [0, 0, 4, 8, 40, 200, 240, 400, 1, 2, 3, 50, rng.randint(0, 400)]
    if r < 0.25:                                   # single mass
        ws = [0] * n
        ws[rng.randrange(n)] = rng.choice([4, 400, 1, 240, rng.randint(1, 400)])
    elif r < 0.35:                                 # all zero
        ws = [0] * n
    elif r < 0.5:                                  # no zero
        ws = [rng.choice([4, 8, 40, 200, 1, 2, 3, rng.randint(1, 400)]) for _ in range(n)]
    else:
        ws = [rng.choice(pool) for _ in range(n)]
    return ws


def gen_choice(rng, tier):
    out = []
    n = 110 if tier == "quick" else 2500
    for i in range(n):
        form = rng.choice(["list", "choices", "dict", "dict"])
        k = rng.choice([1, 2, 2, 3, 3, 4, 5, rng.randint(1, 9)])
        if form == "dict":
            labels = rng.sample(range(1, 40), k)
        else:
            labels = [rng.randint(1, 12) for _ in range(k)]      # duplicates allowed
        ws = gen_weights(rng, k)
        if form == "choices" and rng.random() < 0.3:
            ws = [w if w else rng.choice([4, 40, 1]) for w in ws]
        items = [[lab, (None if form == "list" else w), rng.choice(["pct", "pct", "num", "str", "flt", "sp", "plus", "zeros", "pp"])]
                 for lab, w in zip(labels, ws)]
        base = {"kind": "choice", "form": form, "items": items}
        if form == "list":
            out.append(dict(base, draws=draws(rng, "all", rows=k)))
        else:
            out.append(dict(base, draws=draws(rng, "ends")))
            out.append(dict(base, draws={"mode": "raw", "rows": 6, "raw": [rng.randint(0, DEN - 1) for _ in range(6)]}))
        out.append(dict(base, draws=draws(rng, "free", rows=60)))
    # weights that are formulas of the row number, evaluated anew for every row: the zero-weight
    # option moves between rows (list form and dict form; ${{ }}, ${% %} and << >> syntaxes)
    for i in range(36 if tier == "quick" else 900):
        form = rng.choice(["choices", "choices", "dict"])
        syntax = ["jinja", "block", "legacy"][i % 3]
        k = rng.choice([2, 2, 3, 4])
        nrows = rng.choice([2, 3, 4, 6])
        labels = rng.sample(range(1, 40), k)
        wrows = []
        for r in range(nrows):
            if rng.random() < 0.7:          # single mass, rotating
                ws = [0] * k
                ws[(r + i) % k] = rng.choice([400, 4, 50, 1, rng.randint(1, 400)])
            else:
                ws = gen_weights(rng, k)
                if sum(ws) == 0:
                    ws[rng.randrange(k)] = 4
            wrows.append(ws)
        base = {"kind": "choice", "form": form, "syntax": syntax, "pct": rng.random() < 0.4, "wrows": wrows,
                "items": [[lab, w, "num"] for lab, w in zip(labels, wrows[0])]}
        out.append(dict(base, draws={"mode": "raw", "rows": nrows,
                                     "raw": [rng.choice([0, DEN - 1, rng.randint(0, DEN - 1)]) for _ in range(nrows)]}))
        if i % 2 == 0:
            out.append(dict(base, draws={"mode": "free", "rows": nrows, "seed": rng.randint(0, 10 ** 6)}))
    # weights of large magnitude (beyond 2**53, up to hundreds of digits: float() rounds them, but 0 stays 0 and a positive
    # weight stays positive), as YAML ints, quoted / percent texts and per-row formulas in the three syntaxes
    def huge(rng):
        h = gen_magnitude(rng)
        while h >= 10 ** 300:
            h = gen_magnitude(rng)
        return 4 * h
    for i in range(24 if tier == "quick" else 500):
        form = rng.choice(["choices", "dict"])
        k = rng.choice([2, 2, 3, 4])
        labels = rng.sample(range(1, 40), k)
        single = i % 2 == 0
        ws = [0] * k
        ws[rng.randrange(k)] = huge(rng)
        if not single:
            ws[rng.randrange(k)] = huge(rng)
        if i % 4 < 2:
            items = [[lab, w, rng.choice(["num", "num", "str", "pct", "sp", "plus"])] for lab, w in zip(labels, ws)]
            base = {"kind": "choice", "form": form, "items": items}
            out.append(dict(base, draws=draws(rng, "free", rows=20)))
            if sum(1 for w in ws if w) == 1:
                out.append(dict(base, draws=draws(rng, "ends")))
        else:                                   # the single mass rotates over the rows; compared draw by draw
            nrows = rng.choice([2, 3, 4])
            h = [huge(rng) for _ in range(nrows)]
            wrows = [[h[r] if j == (r + i) % k else 0 for j in range(k)] for r in range(nrows)]
            base = {"kind": "choice", "form": form, "syntax": ["jinja", "block", "legacy"][i % 3], "pct": rng.random() < 0.4,
                    "wrows": wrows, "items": [[lab, w, "num"] for lab, w in zip(labels, wrows[0])]}
            out.append(dict(base, draws={"mode": "raw", "rows": nrows, "raw": [rng.choice([0, DEN - 1, rng.randint(0, DEN - 1)]) for _ in range(nrows)]}))
            out.append(dict(base, draws={"mode": "free", "rows": nrows, "seed": rng.randint(0, 10 ** 6)}))
    # boundaries of the bisect: draws exactly at the cumulative weights
    for ws in ([4, 4], [4, 0, 4], [0, 4], [4, 0], [256, 256, 512], [1, 1023 * 4 + 3], [0, 0, 4, 0, 0]):
        items = [[i + 1, w, "num"] for i, w in enumerate(ws)]
        tot = sum(ws)
        cum, acc = [], 0
        for w in ws:
            acc += w
            cum.append(acc)
        raw = sorted({min(DEN - 1, max(0, (c * DEN) // tot + d)) for c in cum for d in (-1, 0, 1)} | {0, DEN - 1})
        out.append({"kind": "choice", "form": "dict", "items": items, "draws": {"mode": "raw", "rows": len(raw), "raw": raw}})
    # malformed stream
    mal = [
        {"form": "list", "items": []},
        {"form": "choices", "items": [[1, None, "num"], [2, None, "num"]]},
        {"form": "choices", "items": [[1, 40, "pct"], [2, None, "num"]]},
        {"form": "choices", "items": [[1, 0, "pct"], [2, 200, "num"]]},
        {"form": "choices", "items": [[1, 200, "pct"], [2, 0, "num"]]},
        {"form": "choices", "items": [[1, 0, "flt"]]},
        {"form": "dict", "items": [[1, 0, "pct"], [2, 0, "num"]]},
        {"form": "dict", "items": [[1, -20, "num"], [2, 40, "num"]]},
        {"form": "dict", "items": [[1, 40, "num"], [2, -20, "num"], [3, 12, "num"]]},
        {"form": "dict", "items": [[1, -20, "num"], [2, 8, "num"]]},
        {"form": "choices", "items": [[1, -4, "num"], [2, 8, "pct"]]},
    ]
    for m in mal:
        out.append(dict(m, kind="choice", draws=draws(rng, "ends")))
        out.append(dict(m, kind="choice", draws=draws(rng, "free", rows=5)))
    # probabilities float() rejects / accepts, as written (the weight of these items is "not given": q = None)
    for bad in ("", "%", "1.2.3", "--1", "5%5", "+", ".", "1 2", "- 1", "50% ", "%50", "+-5"):
        good = rng.choice(["40", "40%", " 7.5 ", "+3%%"])
        for form in ("choices", "dict"):
            out.append({"kind": "choice", "form": form, "items": [[1, None, "raw"], [2, None, "raw"]],
                        "raw": [bad, good] if rng.random() < 0.5 else [good, bad], "draws": draws(rng, "ends")})
    for okt in ("5.", ".5", "+.5", "007", "0.250", " 12 ", "12 %", "1%%%"):
        out.append({"kind": "choice", "form": rng.choice(["choices", "dict"]), "items": [[1, None, "raw"], [2, None, "raw"]],
                    "raw": [okt, "0"], "draws": draws(rng, "ends")})
    return out


DLAB_DIGITS = ["\u0660\u0661\u0662\u0663\u0664\u0665\u0666\u0667\u0668\u0669",      # Arabic-Indic
               "\u06f0\u06f1\u06f2\u06f3\u06f4\u06f5\u06f6\u06f7\u06f8\u06f9",      # extended Arabic-Indic
               "\u0966\u0967\u0968\u0969\u096a\u096b\u096c\u096d\u096e\u096f",      # Devanagari
               "\u09e6\u09e7\u09e8\u09e9\u09ea\u09eb\u09ec\u09ed\u09ee\u09ef",      # Bengali
               "\u0e50\u0e51\u0e52\u0e53\u0e54\u0e55\u0e56\u0e57\u0e58\u0e59",      # Thai
               "\uff10\uff11\uff12\uff13\uff14\uff15\uff16\uff17\uff18\uff19",      # full-width
               "".join(chr(0x1d7ce + i) for i in range(10))]                                  # mathematical bold
DLAB_OTHER = ["\u00b2", "\u00b2\u00b3", "\u2460", "4\u00b2", "\u00bd", "\u216b", "\u56db\u5341\u4e8c", "\u2082\u2084", "\u0bf0"]


def gen_dlab_text(rng):
    """a text a reader might take for a number, but which is not an ASCII digit string"""
    r = rng.random()
    ds = rng.choice(DLAB_DIGITS)
    if r < 0.55:                                   # str.isdecimal(): int() would accept it
        n = rng.choice([1, 2, 2, 3, 9, 17])
        return ds[rng.randint(0 if rng.random() < 0.2 else 1, 9)] + "".join(rng.choice(ds) for _ in range(n - 1))
    if r < 0.7:                                    # ASCII and non-ASCII digits mixed (still isdecimal)
        t = "".join(rng.choice(ds + "0123456789") for _ in range(rng.randint(2, 6)))
        return (t if not t.isascii() else t + ds[3]).lstrip("0") or ds[4]
    if r < 0.82:                                   # float() would accept it
        return ds[rng.randint(1, 9)] + rng.choice(ds) + "." + rng.choice(ds)
    return rng.choice(DLAB_OTHER)                  # isdigit() / isnumeric() only, or neither int() nor float() reads it


def gen_dlab(rng, tier):
    """random_choice whose OPTIONS are such texts: `returns only listed options` means the text, in both dialects"""
    out = []
    for i in range(40 if tier == "quick" else 600):
        k = rng.choice([2, 2, 3, 4])
        texts = []
        while len(texts) < k:
            t = gen_dlab_text(rng)
            if t not in texts:
                texts.append(t)
        dialect = 2 if i % 4 != 3 else 3
        form = rng.choice(["list", "list", "choices"])
        call = "inline" if form == "list" and rng.random() < 0.4 else "block"
        dl = {"texts": [[j + 1, t] for j, t in enumerate(texts)], "dialect": dialect, "explicit": rng.random() < 0.3, "call": call,
              "quoted": rng.random() < 0.7}
        ws = [rng.choice([4, 40, 100, 200]) for _ in range(k)]
        items = [[j + 1, (None if form == "list" else ws[j]), "num"] for j in range(k)]
        base = {"kind": "choice", "form": form, "items": items, "dlab": dl}
        out.append(dict(base, draws=draws(rng, "all", rows=k) if form == "list" else draws(rng, "ends")))
        if i % 3 == 0:
            out.append(dict(base, draws=draws(rng, "free", rows=12)))
    return out


LIT_STYLES = ["num", "num", "flt", "pct", "pct", "str", "sp", "plus", "zeros", "pp"]


def gen_block_case(rng, i):
    """one random_choice block (or two in one object) rendered for many rows; see block_recipe"""
    struct = rng.choice(["count", "count", "iter", "friends"])
    legacy = i % 4 == 3
    if struct == "friends":
        driver = rng.choice(["parent", "parent", "parent_only", "id", "child_index", "field", "cimod"])
        parents, count = rng.choice([(2, 2), (3, 2), (2, 3), (4, 1), (3, 3)])
        nrows = parents * count
    else:
        driver = rng.choice(["id", "child_index", "idmod", "cimod", "field", "this_field", "counter", "var"])
        parents = 0
        if struct == "iter":
            count = rng.choice([1, 2, 3])
            nrows = count * rng.choice([2, 3, 4])
        else:
            count = nrows = rng.choice([2, 3, 4, 6, 8])
    blk = {"struct": struct, "driver": driver, "count": count, "parents": parents, "legacy": legacy}
    if struct == "iter":
        blk["target"] = nrows - rng.choice([0, 0, count - 1])
    # the keys the rows will have (only used to lay out the table; the observed key decides)
    if driver in ("id", "field", "this_field"):
        keys = list(range(1, nrows + 1))
    elif driver == "child_index":
        keys = list(range(count))
    elif driver in ("idmod", "cimod"):
        blk["mod"] = rng.choice([2, 2, 3])
        keys = list(range(blk["mod"]))
    elif driver == "counter":
        blk["start"], blk["step"] = rng.choice([1, 5, 0]), rng.choice([1, 2, 3])
        keys = [blk["start"] + blk["step"] * n for n in range(nrows)]
    elif driver == "var":
        blk["base"] = rng.choice([0, 3, 10])
        keys = [blk["base"] + n for n in range(count)]
    elif driver == "parent":
        keys = [10 * (p + 1) + c for p in range(parents) for c in range(count)]
    else:
        keys = [10 * (p + 1) for p in range(parents)]
    keys = keys[:8]
    ncols = rng.choice([2, 2, 3, 3, 4])
    mix = rng.choice(["mixed", "mixed", "mixed", "formula", "literal"])
    lit = [rng.random() < 0.45 for _ in range(ncols)]
    if mix == "mixed":
        if all(lit):
            lit[rng.randrange(ncols)] = False
        if not any(lit):
            lit[rng.randrange(ncols)] = True
    elif mix == "formula":
        lit = [False] * ncols
    else:
        lit = [True] * ncols
    fcols = [j for j in range(ncols) if not lit[j]]
    # weights (quarters): literal columns are the same in every row
    litw = [rng.choice([0, 0, 0, 4, 40, 200, 400, 1, rng.randint(1, 400)]) if lit[j] else None for j in range(ncols)]
    if not fcols and sum(w for w in litw) == 0:
        litw[rng.randrange(ncols)] = 400
    shape = rng.choice(["rotate", "rotate", "hundred", "random"])
    if shape != "random" and fcols and rng.random() < 0.6:
        litw = [0 if lit[j] else None for j in range(ncols)]       # the formulas carry all the weight
    rows = []
    for n, key in enumerate(keys):
        ws = list(litw)
        if shape == "rotate":                                      # one formula option has all the formulas' weight
            for j in fcols:
                ws[j] = 0
            if fcols:
                ws[fcols[(n + i) % len(fcols)]] = rng.choice([400, 400, 4, 50, 1, rng.randint(1, 400)])
        elif shape == "hundred":                                   # formulas moving between 0 and 100
            for j in fcols:
                ws[j] = rng.choice([0, 400])
        else:
            for j in fcols:
                ws[j] = rng.choice([0, 0, 4, 8, 40, 200, 400, 1, 3, rng.randint(0, 400)])
        if sum(ws) == 0:
            ws[(fcols or list(range(ncols)))[n % len(fcols or range(ncols))]] = 400
        rows.append(ws)
    syntaxes = ["jinja", "block", "legacy"] if legacy else ["jinja", "block"]
    form = rng.choice(["choices", "choices", "dict"])
    labels = rng.sample(range(1, 40), ncols)
    numeric_key = driver not in ()     # every driver gives integer keys
    cols = [{"lab": labels[j], "lit": lit[j], "syntax": rng.choice(syntaxes),
             "pickf": bool(form == "choices" and numeric_key and rng.random() < 0.25)} for j in range(ncols)]
    styles = [rng.choice(LIT_STYLES) for _ in range(ncols)]
    tab = [[key, [tok(w, styles[j] if lit[j] or rng.random() < 0.7 else rng.choice(LIT_STYLES)) for j, w in enumerate(ws)]]
           for key, ws in zip(keys, rows)]
    block = {"form": form, "cols": cols, "tab": tab, "wrap": rng.choice([None, None, None, "if"])}
    blk["blocks"] = [block]
    if rng.random() < (0.7 if mix == "literal" else 0.25):          # a second block in the same object: same options,
        rot = lambda l: l[1:] + l[:1]                              # the weights (and their literal / formula kind) of the next one
        cols2 = [dict(c2, lab=c["lab"], pickf=c["pickf"]) for c, c2 in zip(cols, rot(cols))]
        blk["blocks"].append(dict(block, cols=cols2, tab=[[key, rot(row)] for key, row in tab], wrap=None))
    return {"kind": "choice", "blk": blk}


def gen_blocks(rng, tier):
    out = []
    for i in range(220 if tier == "quick" else 3000):
        base = gen_block_case(rng, i)
        total = 64
        out.append(dict(base, draws={"mode": "raw", "rows": total,
                                     "raw": [rng.choice([0, 0, DEN - 1, DEN - 1, rng.randint(0, DEN - 1)]) for _ in range(total)]}))
        if i % 3 == 0:
            out.append(dict(base, draws={"mode": "free", "rows": total, "seed": rng.randint(0, 10 ** 6)}))
    return out


def gen_rowargs(rng, tier):
    """random_number / date_between / datetime_between whose arguments are literals or formulas of the row"""
    out = []
    n = 60 if tier == "quick" else 1200
    for i in range(n):
        kind = ["number", "date", "datetime"][i % 3]
        driver = rng.choice(["id", "id", "child_index", "field"])
        count = rng.choice([2, 3, 4, 5])
        keys = list(range(count)) if driver == "child_index" else list(range(1, count + 1))
        names = RA_NAMES[kind]
        # legacy mode (no snowfakery_version 3): formula results are text, converted back to numbers only when they consist of
        # digits and '.', so a negative number produced by a formula reaches random_number as a string (an error of the
        # formula language, not of random_number): numbers only in version 3 mode
        legacy = i % 5 == 4 and kind != "number"
        mix = rng.choice(["mixed", "mixed", "formula", "literal"])
        lit = [nm for nm in names if rng.random() < 0.5]
        if mix == "formula":
            lit = []
        elif mix == "literal":
            lit = list(names)
        elif len(lit) in (0, len(names)):
            lit = [rng.choice(names)]
        rows = []
        if kind == "number":
            mn0, mx0, st0 = gen_number_triple(rng)
            for _ in keys:
                mn, mx, st = gen_number_triple(rng)
                span = mx - mn
                if "min" in lit:
                    mn = mn0
                mx = mx0 if "max" in lit else mn + span
                if mx < mn:
                    mn = mx - span if "min" not in lit else mn
                if mx < mn:
                    mx = mn                              # both literal and reversed cannot happen: mn0 <= mx0
                st = st0 if "step" in lit else st
                rows.append([mn, mx, st])
            if any(r[2] is None for r in rows):
                rows = [[a, b, None] for a, b, _ in rows]
        else:
            def one(first):
                ymd = gen_day(rng)
                if kind == "date":
                    r = rng.random()
                    s = ab(*ymd, dateonly=True, style="str") if r < 0.6 else (gen_rel(rng, "yMwd") if r < 0.9 else {"t": "today"})
                    e = ab(*shift_day(ymd, rng.choice([0, 1, 2, 30, 366, rng.randint(0, 3000)])), dateonly=True, style="str") \
                        if s["t"] == "abs" else rng.choice([{"t": "rel", "parts": [["y", rng.randint(3, 9)]]}, ab(2200, 1, 1, dateonly=True, style="str")])
                    if s["t"] == "rel":
                        s = {"t": "rel", "parts": [[u, -abs(v)] for u, v in s["parts"]]}
                    return [s, e]
                s = ab(*ymd, H=rng.randint(0, 23), M=rng.randint(0, 59), S=rng.randint(0, 59), style=rng.choice(["str", "str_sp"]),
                       off=rng.choice([None, None, 0, -300, 330]))
                span = rng.choice([0, 1, 2, 3600, 86400, rng.randint(2, 10 ** 7)]) * US
                e = dict(add_us(s, span), style=rng.choice(["str", "str_sp"]))
                r = rng.random()
                if r < 0.15:
                    s, e = {"t": "rel", "parts": [["d", -rng.randint(1, 400)]]}, {"t": "rel", "parts": [["h", rng.randint(0, 400)]]}
                elif r < 0.25:
                    s, e = rng.choice([{"t": "today"}, {"t": "now"}]), ab(2200, 1, 1, dateonly=True, style="str")
                return [deco(rng, s), deco(rng, e)]
            first = one(True)
            for _ in keys:
                row = one(False)
                if names[0] in lit and names[1] in lit:
                    row = first
                elif names[0] in lit:
                    row = [first[0], ab(2300, 1, 1, dateonly=True, style="str") if kind == "date" or rng.random() < 0.5 else first[1]]
                    if row[1] is first[1]:
                        row = [first[0], dict(add_us(first[1], rng.randint(0, 10 ** 6) * US)) if first[1]["t"] == "abs" and not first[1]["dateonly"] else first[1]]
                elif names[1] in lit:
                    if kind == "datetime" and first[1]["t"] == "abs" and not first[1]["dateonly"]:
                        row = [dict(add_us(first[1], -rng.choice([0, 1, 2, 3600, rng.randint(2, 10 ** 7)]) * US), style="str"), first[1]]
                    else:
                        row = [ab(1900 + rng.randint(0, 40), rng.randint(1, 12), rng.randint(1, 28), dateonly=(kind == "date"), style="str"), first[1]]
                rows.append(row)
        rowargs = {"driver": driver, "count": count, "legacy": legacy, "lit": lit, "all_valid": True,
                   "syntax": [rng.choice(["jinja", "block", "legacy"] if legacy else ["jinja", "block"]) for _ in names],
                   "tab": [[key, row] for key, row in zip(keys, rows)]}
        base = {"kind": kind, "rowargs": rowargs}
        out.append(dict(base, draws={"mode": "ends", "rows": count}))
        if i % 2 == 0:
            out.append(dict(base, draws={"mode": "raw", "rows": count, "raw": [rng.randint(0, 2 ** 40) for _ in range(count)]}))
        if i % 3 == 0:
            out.append(dict(base, draws={"mode": "free", "rows": count, "seed": rng.randint(0, 10 ** 6)}))
    return out


DAY_POOL = [(2024, 2, 29), (2000, 2, 29), (1900, 2, 28), (1900, 3, 1), (2023, 2, 28), (2023, 3, 1), (2023, 12, 31), (2024, 1, 1),
            (1969, 12, 30), (1969, 12, 31), (1970, 1, 1), (1970, 1, 2), (1999, 12, 31), (2038, 1, 19), (2100, 2, 28), (1960, 6, 15)]


def gen_day(rng):
    if rng.random() < 0.4:
        return rng.choice(DAY_POOL)
    d = date(1950, 1, 1) + timedelta(days=rng.randint(0, 60000))
    return d.year, d.month, d.day


def shift_day(ymd, k):
    d = date(*ymd) + timedelta(days=k)
    return d.year, d.month, d.day


def gen_rel(rng, units):
    parts = []
    for u in units:
        if rng.random() < (0.5 if len(units) <= 3 else 0.3):
            lim = {"y": 50, "M": 50, "w": 300, "d": 2000, "h": 5000, "m": 100000, "s": 200000}[u]
            parts.append([u, rng.choice([0, 1, -1, 30, -30, rng.randint(-lim, lim)])])
    if not parts:
        parts = [[rng.choice(units), rng.choice([-30, 1, 7, -1, 0])]]
    return {"t": "rel", "parts": parts}


def gen_date_spec(rng, ymd=None):
    r = rng.random()
    ymd = ymd or gen_day(rng)
    if r < 0.45:
        return ab(*ymd, style=rng.choice(["yaml", "str"]), dateonly=True)
    if r < 0.6:   # a datetime where a date is expected: the date as written counts
        return ab(*ymd, H=rng.randint(0, 23), M=rng.randint(0, 59), S=rng.randint(0, 59),
                  off=rng.choice([None, 0, -300, 330, 840, -720]), style=rng.choice(["yaml", "str", "yaml_sp", "str_sp"]))
    if r < 0.7:
        return {"t": rng.choice(["today", "today", "now"])}
    return gen_rel(rng, "yMwdhms")


def deco(rng, sp):
    """other spellings of the same bound: Z for +00:00, fraction without trailing zeros, zero-padded counts"""
    sp = dict(sp)
    if sp["t"] == "abs" and not sp["dateonly"]:
        if rng.random() < 0.3:
            sp["zulu"] = True
        if rng.random() < 0.5:
            sp["shortfrac"] = True
    elif sp["t"] == "rel" and rng.random() < 0.3:
        sp["zpad"] = rng.choice([2, 3, 5])
    return sp


def gen_date(rng, tier):
    out = []
    n = 150 if tier == "quick" else 3000
    pairs = []
    for ymd in DAY_POOL:
        for k in (0, 1, -1, 2, 366):
            pairs.append((ab(*ymd, dateonly=True, style=rng.choice(["yaml", "str"])),
                          ab(*shift_day(ymd, k), dateonly=True, style=rng.choice(["yaml", "str"]))))
    pairs = rng.sample(pairs, 30) if tier == "quick" else pairs
    for _ in range(n):
        r = rng.random()
        ymd = gen_day(rng)
        if r < 0.35:
            k = rng.choice([0, 1, 2, 7, 31, 365, 366, rng.randint(0, 3000), -1, -rng.randint(1, 400)])
            pairs.append((gen_date_spec(rng, ymd) if rng.random() < 0.3 else ab(*ymd, dateonly=True, style=rng.choice(["yaml", "str"])),
                          ab(*shift_day(ymd, k), dateonly=True, style=rng.choice(["yaml", "str"]))))
        elif r < 0.6:
            pairs.append((gen_rel(rng, "yMwdhms") if rng.random() < 0.7 else {"t": "today"},
                          gen_rel(rng, "yMwdhms") if rng.random() < 0.7 else {"t": "today"}))
        elif r < 0.7:
            pairs.append(({"t": "rel", "parts": [["d", -30]]}, {"t": "rel", "parts": [["y", 1]]}))
        else:
            pairs.append((gen_date_spec(rng), gen_date_spec(rng)))
    for s, e in pairs:
        base = {"kind": "date", "start": deco(rng, s), "end": deco(rng, e)}
        out.append(dict(base, draws=draws(rng, "ends")))
        if rng.random() < 0.5:
            out.append(dict(base, draws={"mode": "raw", "rows": 4, "raw": [rng.randint(0, DEN - 1) for _ in range(4)]}))
        if rng.random() < 0.5:
            out.append(dict(base, draws=draws(rng, "free", rows=60)))
    for txt in ("2040-13-13", "not a date", "30d", ""):
        out.append({"kind": "date", "start": {"t": "bad", "text": txt}, "end": ab(2040, 1, 1, dateonly=True), "draws": draws(rng, "ends")})
        out.append({"kind": "date", "start": ab(2040, 1, 1, dateonly=True), "end": {"t": "bad", "text": txt}, "draws": draws(rng, "free", rows=3)})
    return out


def add_us(sp, us):
    base = datetime(sp["y"], sp["mo"], sp["d"], sp["H"], sp["M"], sp["S"], sp["us"]) + timedelta(microseconds=us)
    return dict(sp, y=base.year, mo=base.month, d=base.day, H=base.hour, M=base.minute, S=base.second, us=base.microsecond)


def gen_datetime(rng, tier):
    out = []
    n = 200 if tier == "quick" else 4000
    styles = ["yaml", "str", "yaml_sp", "str_sp"]
    for i in range(n):
        ymd = gen_day(rng)
        clean = rng.random() < 0.6          # offset-free, whole-second start, span >= 2 s
        s = ab(*ymd, H=rng.randint(0, 23), M=rng.randint(0, 59), S=rng.randint(0, 59), style=rng.choice(styles))
        if clean:
            span = rng.choice([2, 3, 59, 60, 3600, 86400, 86399, 86401, rng.randint(2, 10 ** 5), rng.randint(2, 10 ** 9)]) * US
            span += rng.choice([0, 0, 0, 1, 500000, 999999])
            e = dict(add_us(s, span), style=rng.choice(styles))
            s["off"] = rng.choice([None, None, 0])
            e["off"] = rng.choice([None, None, 0])
        else:
            s["us"] = rng.choice([0, 0, 0, 1, 500000, 900000, 999999])
            span = rng.choice([0, 0, 1, 100000, 999999, US, US + 1, 2 * US - 1, 2 * US, 3 * US, rng.randint(0, 3 * US), rng.randint(0, 10 ** 5) * US,
                               -1, -US, -rng.randint(1, 10 ** 6) * US])
            e = dict(add_us(s, span), style=rng.choice(styles))
            if rng.random() < 0.45:
                s["off"] = rng.choice([None, 0, -300, 300, 60, -60, 330, 840, -720, 90])
                e["off"] = rng.choice([None, 0, -300, 300, 60, -60, 330, 840, -720, 90])
        r = rng.random()
        if r < 0.08:
            s = ab(*ymd, dateonly=True, style=rng.choice(["yaml", "str"]))
        elif r < 0.14:
            e = ab(*shift_day(ymd, rng.choice([0, 1, 2, 30, -1])), dateonly=True, style=rng.choice(["yaml", "str"]))
        elif r < 0.19:
            s = {"t": rng.choice(["today", "now"])}
            e = ab(2100 + rng.randint(0, 300), 1, 1, dateonly=rng.random() < 0.5, style="yaml")
        elif r < 0.24:
            e = {"t": rng.choice(["today", "now"])}
            s = ab(1999, 12, 31, H=11, M=59, dateonly=rng.random() < 0.3)
        elif r < 0.26:
            s, e = {"t": "today"}, {"t": "now"}
        elif r < 0.46:
            # relative bounds (valid since bfa3786): both relative, relative vs absolute / today / now,
            # single and multi unit, both signs, right and wrong order
            def rel(lo, hi):
                u = rng.choice(["d", "y", "w", "h", "M", "m", "s"])
                scale = {"y": 31556736, "M": 2628288, "w": 604800, "d": 86400, "h": 3600, "m": 60, "s": 1}[u]
                a, b = sorted((lo // scale, hi // scale))
                parts = [[u, max(-50 if u in "yM" else -10 ** 6, min(50 if u in "yM" else 10 ** 6, rng.randint(a, b)))]]
                if rng.random() < 0.4:
                    u2 = rng.choice([x for x in "dhms" if x != u])
                    parts.append([u2, rng.randint(-50, 50)])
                    parts.sort(key=lambda p: "yMwdhms".index(p[0]))
                return {"t": "rel", "parts": parts}
            day = 86400
            rr = rng.random()
            if rr < 0.35:
                s, e = rel(-400 * day, 0), rel(0, 400 * day)
            elif rr < 0.5:
                s, e = rel(-40 * day, 40 * day), rel(-40 * day, 40 * day)      # either order
            elif rr < 0.6:
                s, e = rel(0, 40 * day), rel(-40 * day, -1)                    # wrong order
            elif rr < 0.7:
                s, e = rng.choice([{"t": "today"}, {"t": "now"}]), rel(day, 800 * day)
            elif rr < 0.8:
                s, e = rel(-800 * day, -day), rng.choice([{"t": "today"}, {"t": "now"}])
            elif rr < 0.9:
                s, e = ab(1999, 12, 31, H=11, M=59, style=rng.choice(styles)), rel(-800 * day, 800 * day)
            else:
                s, e = rel(-800 * day, 800 * day), ab(2100 + rng.randint(0, 100), 1, 1, dateonly=rng.random() < 0.5, style="yaml")
        tz = rng.choice([None, None, None, None, None, None, [rng.randint(-11, 12), rng.choice([0, 0, 30, 45])],
                         [rng.randint(-11, 12), rng.choice([0, 0, 30, 45])], "false"])
        base = {"kind": "datetime", "start": deco(rng, s), "end": deco(rng, e), "tz": tz}
        out.append(dict(base, draws=draws(rng, "ends")))
        if rng.random() < 0.5:
            out.append(dict(base, draws={"mode": "raw", "rows": 4, "raw": [rng.randint(0, DEN - 1) for _ in range(4)]}))
        if rng.random() < 0.4:
            out.append(dict(base, draws=draws(rng, "free", rows=40)))
    # every presentation zone x offset-carrying bounds (always present): naive result vs. aware bounds
    for off_s, off_e in ((300, 300), (-480, -480), (330, 0), (0, -720), (None, 840)):
        for tz in ("false", None, [rng.randint(-11, 12), rng.choice([0, 30])]):
            st = ab(*gen_day(rng), H=rng.randint(0, 23), M=rng.randint(0, 59), S=rng.randint(0, 59), off=off_s, style=rng.choice(styles))
            en = dict(add_us(st, rng.choice([10 * 60, 3, 86400, rng.randint(2, 10 ** 6)]) * US + ((off_e or 0) - (off_s or 0)) * 60 * US),
                      off=off_e, style=rng.choice(styles))
            base = {"kind": "datetime", "start": st, "end": en, "tz": tz}
            out.append(dict(base, draws=draws(rng, "ends")))
            out.append(dict(base, draws=draws(rng, "free", rows=10)))
    for sp, ep in ([["d", -30]], [["y", 1]]), ([["y", -1], ["d", 2]], [["w", 2], ["h", 3]]), ([["M", 1]], [["M", 1]]), ([["y", 1]], [["d", -30]]):
        out.append({"kind": "datetime", "start": {"t": "rel", "parts": sp}, "end": {"t": "rel", "parts": ep}, "tz": None, "draws": draws(rng, "ends")})
    out.append({"kind": "datetime", "start": {"t": "bad", "text": "2040-13-13T00:00:00"}, "end": ab(2041, 1, 1), "tz": None, "draws": draws(rng, "ends")})
    return out


def gen_fresh_probe(rng, role):
    if role == "wide":
        mn = rng.choice([0, 1, 1, -5, rng.randint(-10 ** 6, 10 ** 6), -(10 ** 9), 2 ** 53 + 1])
        step = rng.choice([None, None, 1, 2, 3, 7, 10, rng.randint(1, 50)])
        npts = rng.choice([2 ** 21 + 5, 2 ** 20, 2 ** 24, 10 ** 9, 2 ** 32 + 1, 2 ** 64 + 3, rng.randint(2 ** 20, 2 ** 40)])
        return {"kind": "number", "min": mn, "max": mn + (npts - 1) * (step or 1) + rng.randint(0, (step or 1) - 1), "step": step,
                "inline": rng.random() < 0.4}
    if role == "coin":
        mn = rng.choice([0, 1, 1, -1, rng.randint(-100, 100)])
        step = rng.choice([None, None, 1, 2, 5])
        return {"kind": "number", "min": mn, "max": mn + (step or 1) + (rng.randint(0, step - 1) if step else 0), "step": step,
                "inline": rng.random() < 0.4}
    if role == "small":
        mn = rng.randint(-20, 20)
        step = rng.choice([None, 1, 2, 3])
        return {"kind": "number", "min": mn, "max": mn + rng.randint(2, 30) * (step or 1), "step": step, "inline": rng.random() < 0.4}
    if role == "choice":
        n = rng.randint(2, 8)
        return {"kind": "choice", "labels": rng.sample(range(1, 30), n), "weights": None, "inline": rng.random() < 0.4}
    if role == "weighted":
        n = rng.randint(2, 6)
        ws = [rng.choice([0, 10, 10, 20, 25, 30, 50]) for _ in range(n)]
        if sum(1 for w in ws if w) < 2:
            ws[0], ws[-1] = 30, 30
        return {"kind": "choice", "labels": rng.sample(range(1, 30), n), "weights": ws, "form": rng.choice(["choices", "dict"])}
    if role == "date":
        y = rng.randint(1950, 2040)
        return {"kind": "date", "start": f"{y:04d}-{rng.randint(1, 12):02d}-{rng.randint(1, 28):02d}",
                "end": f"{y + rng.randint(3, 60):04d}-{rng.randint(1, 12):02d}-{rng.randint(1, 28):02d}"}
    y = rng.randint(1971, 2035)
    return {"kind": "datetime", "start": f"{y:04d}-{rng.randint(1, 12):02d}-{rng.randint(1, 28):02d}T{rng.randint(0, 23):02d}:{rng.randint(0, 59):02d}:00",
            "end": f"{y + rng.randint(1, 30):04d}-{rng.randint(1, 12):02d}-{rng.randint(1, 28):02d}T{rng.randint(0, 23):02d}:00:{rng.randint(0, 59):02d}"}


def gen_fresh_case(rng, i, feats=None, place=None, long=False):
    names = sorted(FRESH_FEATS)
    rows = rng.randint(25, 45) if long else rng.choice([2, 2, 3, 4])
    if feats is None:
        r = rng.random()
        feats = [] if r < 0.12 else rng.sample(names, 1 if r < 0.55 else 2 if r < 0.85 else 3)
    fr = {"dialect": 3 if i % 2 == 0 else 2, "explicit_version": rng.random() < 0.3, "route": "cli" if i % 4 == 3 else "api",
          "rows": rows, "struct": rng.choice(["count", "count", "count", "friends"]), "pre": [], "row": [], "late": [],
          "pre_once": rng.random() < 0.3, "pre_count": rng.choice([1, 1, 2, 3])}
    for f in feats:
        fr[place or rng.choice(["pre", "row", "row", "late"])].append(f)
    if fr["struct"] == "friends":
        fr["children"] = rng.choice([1, 2])
    elif rng.random() < 0.15:
        fr["target"] = rows + rng.randint(0, 2)          # stopping criterion instead of one pass
    # every row: three wide random_number lattices (>= 2^20 points each: 60 bits per row), two-point lattices whose ends
    # must both stay attainable, and a mix of the other bounded functions
    probes = [gen_fresh_probe(rng, "wide"), gen_fresh_probe(rng, "coin"), gen_fresh_probe(rng, "wide"), gen_fresh_probe(rng, "coin"), gen_fresh_probe(rng, "wide")]
    probes += [gen_fresh_probe(rng, rng.choice(["coin", "small", "choice", "weighted", "date", "datetime", "wide"])) for _ in range(rng.randint(1, 4))]
    head = [probes.pop(0)]
    rng.shuffle(probes)
    fr["probes"] = head + probes
    if long:             # a longer run (a re-seeding that happens only after some rows / ids): few draws per row
        fr["probes"] = [gen_fresh_probe(rng, "wide"), gen_fresh_probe(rng, "coin"), gen_fresh_probe(rng, rng.choice(["small", "choice", "date", "datetime"]))]
        fr["struct"], fr["target"] = "count", None
        fr.pop("children", None)
    return {"kind": "fresh", "fresh": fr, "draws": {"mode": "fresh", "rows": rows}}


def gen_fresh(rng, tier):
    """every feature at least once per run (quick: two per recipe, each in a place of its own; the pairing, the places and the
    companions vary with the seed; thorough: also alone), plus random mixes"""
    names = sorted(FRESH_FEATS)
    rng.shuffle(names)
    out = [gen_fresh_case(rng, i, feats=names[2 * i:2 * i + 2]) for i in range((len(names) + 1) // 2)]
    if tier != "quick":
        out += [gen_fresh_case(rng, len(out) + i, feats=[f]) for i, f in enumerate(names)]
    out += [gen_fresh_case(rng, len(out) + i) for i in range(4 if tier == "quick" else 60)]
    ids = [f for f in names if "unique" in f or "generator" in f]
    out += [gen_fresh_case(rng, len(out) + i, feats=[rng.choice(ids)] + ([rng.choice(names)] if i % 2 else []), long=True)
            for i in range(2 if tier == "quick" else 12)]
    return out


def generate(rng, tier):
    base = (gen_number(rng, tier) + gen_number_paths(rng, tier) + gen_choice(rng, tier) + gen_dlab(rng, tier) + gen_blocks(rng, tier) + gen_rowargs(rng, tier)
            + gen_date(rng, tier) + gen_datetime(rng, tier))
    # the fresh-process cases start several interpreters each: spread them over the list so that the pool's
    # chunks (consecutive cases go to one worker) do not serialise them
    fresh = gen_fresh(rng, tier)
    gap = max(1, len(base) // (len(fresh) + 1))
    out = []
    for n, c in enumerate(base):
        out.append(c)
        if n % gap == gap - 1 and fresh:
            out.append(fresh.pop())
    return out + fresh


def shrink(case):
    if "rowargs" in case:
        return
    if "fresh" in case:
        fr = case["fresh"]
        for place in ("pre", "row", "late"):
            for f in fr[place]:
                if len(fr["pre"]) + len(fr["row"]) + len(fr["late"]) > 1:
                    yield dict(case, fresh=dict(fr, **{place: [g for g in fr[place] if g != f]}))
        if fr["struct"] == "friends":
            yield dict(case, fresh=dict(fr, struct="count"))
        if fr.get("target"):
            yield dict(case, fresh=dict(fr, target=None))
        return
    if "blk" in case:
        blk = case["blk"]
        if len(blk["blocks"]) > 1:
            yield dict(case, blk=dict(blk, blocks=blk["blocks"][:1]))
        if blk["blocks"][0].get("wrap"):
            yield dict(case, blk=dict(blk, blocks=[dict(blk["blocks"][0], wrap=None)] + blk["blocks"][1:]))
        if any(c.get("pickf") for c in blk["blocks"][0]["cols"]):
            yield dict(case, blk=dict(blk, blocks=[dict(b, cols=[dict(c, pickf=False) for c in b["cols"]]) for b in blk["blocks"]]))
        if blk["struct"] == "count" and blk["count"] > 2:
            yield dict(case, blk=dict(blk, count=blk["count"] - 1))
        return
    if "paths" in case:
        pp = case["paths"]
        for n, r in pp["args"].items():
            if r != "yaml":
                yield dict(case, paths=dict(pp, args=dict(pp["args"], **{n: "yaml"})))
        if pp["call"] != "block":
            yield dict(case, paths=dict(pp, call="block", args={n: "yaml" if case[n] is not None and case[n] < 1 else r
                                                                 for n, r in pp["args"].items()}))
        return
    dr = case["draws"]
    if dr["rows"] > 1 and dr["mode"] in ("raw", "free") and "wrows" not in case:
        yield dict(case, draws=dict(dr, rows=1))
        yield dict(case, draws=dict(dr, rows=dr["rows"] // 2))
    if case["kind"] == "number":
        for f in ("min", "max"):
            if abs(case[f]) > 20:
                yield dict(case, **{f: case[f] // 2})
        if case["step"] and case["step"] > 3:
            yield dict(case, step=case["step"] // 2)
    if case["kind"] == "choice" and len(case["items"]) > 2 and "wrows" not in case:
        for i in range(len(case["items"])):
            yield dict(case, items=case["items"][:i] + case["items"][i + 1:])
    if case["kind"] == "datetime" and case.get("tz") is not None:
        yield dict(case, tz=None)


def directed_search(rng, disagreeing):
    out = []
    for c in disagreeing:
        for mode in ("ends", "free"):
            out.append(dict(c, draws=draws(rng, mode, rows=100 if mode == "free" else None)))
    for mn in (-3, 0, 1, 7):
        for span in range(0, 14):
            for step in (None, 1, 2, 3, 5, span, span + 1):
                if step is None or step >= 1:
                    st = step or 1
                    out.append({"kind": "number", "min": mn, "max": mn + span, "step": step, "style": "block",
                                "draws": draws(rng, "all", rows=span // st + 1)})
    out += gen_number_paths(rng, "quick") + gen_choice(rng, "quick") + gen_dlab(rng, "quick") + gen_blocks(rng, "quick") + gen_rowargs(rng, "quick") + gen_date(rng, "quick") + gen_datetime(rng, "quick")
    return out
