"""C20 — invalid recipes are rejected with a recipe error, not an internal failure.

Implementation: snowfakery/parse_recipe_yaml.py (whole file), plugins.py (resolve_plugin*),
data_generator.py (generate, merge_options), data_generator_runtime.py (get_referent_name,
Interpreter.__init__'s version assert), data_generator_runtime_object_model.py (the exception
wrappers), data_gen_exceptions.py.  Model: coq/theories/Reject.v.

Kinds of cases
  edit   a seed recipe (built-in, or a file of /repo/examples, /repo/tests that runs offline) with ONE
         structural edit: replace a node by a value of another shape, delete / rename / duplicate a
         key, delete a list element, swap two values.  Exhaustive per seed in thorough, sampled in quick.
  doc    an explicit YAML tree (arbitrary-YAML stream: random trees of depth <= 4 over the recipe
         vocabulary; corpus witnesses; shrunk replays).
  text   raw text (aliases, cycles, tags, merge keys, control characters, unloadable text).
  fault  a small recipe plus one injected run-time fault (a plugin function / attribute lookup /
         count conversion / for_each / write_row that raises a chosen exception at a chosen position):
         the exception class leaving `generate` is compared with the model of the wrappers.

Observable (per document): Accept | Reject (any DataGenError) | Crash (exception type, file:function of
the innermost snowfakery frame), whether the error came before Interpreter.execute started (static
phase), and the number of rows written before it.
"""
import copy
import datetime as _dt
import io
import json
import math
import os
import random
import re
import sys
import traceback
from collections import Counter
from pathlib import Path

import yaml

from . import common as C

PROP = "C20"
MODEL = "Reject"
SHARD = 250
CASE_TIMEOUT = 10
SKIPPED_FN = "case_unsupported"
RULE = ("cases: edit = a valid seed recipe (16 built-in seeds covering every construct, 11 tiny seeds one "
        "per declaration kind, ~90 repository examples/tests that run offline) with ONE structural edit "
        "(node replaced by each of ~40 values of other shapes; key deleted / renamed / duplicated over a "
        "28-key alphabet incl. non-string keys; list element deleted / duplicated; two values swapped), "
        "tiny seeds exhaustive in both tiers, other seeds exhaustive in thorough (budget 105k edits) and sampled in "
        "quick; doc = random YAML trees depth<=4 over the recipe vocabulary; text = raw texts (aliases, "
        "cycles, tags, merge keys, unloadable text); files = multi-file recipes: fixed sets plus generated include graphs (2-4 files, paths spelled with ./.. detours, cycles of length 1-3); macrograph = macro rings of length 1-3 with every combination of edge kinds (include / friend / nested object / nested below a friend) plus random graphs; the snowfakery_version option with 23 default shapes; fault = recipes with one injected run-time "
        "exception (plugin call, attribute lookup, count conversion, for_each, write_row; top level / "
        "friend / nested).  Each document runs under a 10 s limit.  Compared with the Coq model: the "
        "static verdict Accept / Reject / Crash(type@file:function) of parse_recipe + merge_options + "
        "the random_reference scan, and for fault cases the exception class leaving generate.  Oracle on "
        "the implementation: never a non-DataGenError exception, never a hang, a DataGenError has a "
        "message, zero rows when the error is raised before execution starts.  non-trivial: the document "
        "is rejected or crashes (the rejection machinery ran), or a fault case; distinct by case hash")
TRUSTED = ["harness/c20.py: tree <-> YAML text (yaml.safe_dump / yaml.safe_load); the model receives the tree "
           "PyYAML loads from the text the implementation receives (`__line__` keys dropped: the loader "
           "overwrites them); include_file targets and plugin names are resolved by the harness (pathlib, "
           "importlib under the implementation's plugin search path) and given to the model as an environment",
           "harness/c20.py: Interpreter.execute wrapped to learn whether the error came before execution "
           "started; a capturing OutputStream counts rows and aborts runs after 2000 rows",
           "harness/c20_plugin.py: the fault-injection plugin (raises the exception named in its argument)"]
ASSUMPTIONS = ["PyYAML maps text to trees; what it raises for unloadable text is an input of the model "
               "(marked YAMLError / unmarked YAMLError / other exception)",
               "importlib / the file system answer as observed by the harness in the same process",
               "Jinja, Faker and plugin code raise only Python exceptions (the theorems quantify over all of them)",
               "Python's recursion limit is the implementation's fuel: the model's OutOfFuel corresponds to RecursionError"]
EXHAUSTIVE = {"quick": False, "thorough": False}

REPO = C.REPO
ROW_LIMIT = 2000
SEEDS_FILE = C.CORPUS / "C20" / "seeds.json"

KEYWORDS = ["object", "fields", "friends", "include", "nickname", "just_once", "for_each", "count",
            "update_key", "var", "value", "macro", "option", "default", "plugin", "include_file",
            "snowfakery_version"]


# =============================================================================== trees
# JSON encoding of a YAML tree:
#   ["n"] ["b",bool] ["i",int] ["f",repr] ["s",str] ["d",iso] ["t",iso] ["y",latin1] ["e",[items]]
#   ["l",[items]] ["m",[[k,v],...]]
class Cyclic(Exception):
    pass


def from_py(o, _stack=()):
    if o is None:
        return ["n"]
    if isinstance(o, bool):
        return ["b", o]
    if isinstance(o, int):
        return ["i", o]
    if isinstance(o, float):
        return ["f", repr(o)]
    if isinstance(o, str):
        return ["s", o]
    if isinstance(o, _dt.datetime):
        return ["t", o.isoformat()]
    if isinstance(o, _dt.date):
        return ["d", o.isoformat()]
    if isinstance(o, bytes):
        return ["y", o.decode("latin1")]
    if id(o) in _stack:
        raise Cyclic()
    st = _stack + (id(o),)
    if isinstance(o, (set, frozenset)):
        return ["e", [from_py(x, st) for x in o]]
    if isinstance(o, (list, tuple)):
        return ["l", [from_py(x, st) for x in o]]
    if isinstance(o, dict):
        return ["m", [[from_py(k, st), from_py(v, st)] for k, v in o.items()]]
    return ["s", "<" + type(o).__name__ + ">"]


def to_py(t):
    k = t[0]
    if k == "n":
        return None
    if k in "bis":
        return t[1]
    if k == "f":
        return float(t[1])
    if k == "d":
        return _dt.date.fromisoformat(t[1])
    if k == "t":
        return _dt.datetime.fromisoformat(t[1])
    if k == "y":
        return t[1].encode("latin1")
    if k == "e":
        return {to_py(x) for x in t[1]}
    if k == "l":
        return [to_py(x) for x in t[1]]
    if k == "m":
        return {to_py(a): to_py(b) for a, b in t[1]}
    raise ValueError(t)


def dump(t):
    return yaml.safe_dump(to_py(t), sort_keys=False, allow_unicode=True, default_flow_style=False, width=1000)


def node_count(t):
    if t[0] in "el":
        return 1 + sum(node_count(x) for x in t[1])
    if t[0] == "m":
        return 1 + sum(node_count(a) + node_count(b) for a, b in t[1])
    return 1


def depth(t):
    if t[0] in "el":
        return 1 + max([depth(x) for x in t[1]] or [0])
    if t[0] == "m":
        return 1 + max([max(depth(a), depth(b)) for a, b in t[1]] or [0])
    return 1


# =============================================================================== seeds
BUILTIN = {
 "b_plain": """
- object: Account
  count: 2
  fields:
    Name: Acme
    Employees: 5
    Rate: 1.5
    Active: true
    Since: 2020-01-01
    Note: null
""",
 "b_formula": """
- var: base
  value: 10
- object: Order
  count: ${{base - 8}}
  fields:
    total: ${{base * 2}}
    idx: ${{child_index}}
    label: Order ${{id}}
""",
 "b_struct": """
- object: Person
  fields:
    age:
      random_number:
        min: 1
        max: 9
    kind:
      random_choice:
        - a
        - b
    name:
      fake: FirstName
    when:
      date_between:
        start_date: 2020-01-01
        end_date: today
    flag:
      if:
        - choice:
            when: ${{age > 3}}
            pick: old
        - choice:
            pick: young
""",
 "b_nested": """
- object: Parent
  nickname: pp
  fields:
    child:
      - object: Child
        fields:
          p:
            reference: Parent
    other:
      object: Other
      count: 2
  friends:
    - object: Friend
      count: 2
      fields:
        who:
          reference: pp
    - var: fv
      value: 3
""",
 "b_macro": """
- macro: addr
  fields:
    street: Main
    city: Town
- macro: contactable
  include: addr
  fields:
    phone: 555
  friends:
    - object: Log
      fields:
        msg: created
- object: Contact
  include: contactable
  fields:
    street: Side
- object: Lead
  include: addr, contactable
""",
 "b_option": """
- option: n
  default: 2
- option: label
  default: x
- object: Item
  count: ${{n}}
  fields:
    tag: ${{label}}
""",
 "b_ref": """
- object: A
  nickname: first
  count: 3
- object: B
  count: 2
  fields:
    a:
      random_reference: A
    b:
      random_reference:
        to: A
        unique: true
    c:
      reference: first
""",
 "b_once": """
- snowfakery_version: 3
- object: Owner
  just_once: true
  nickname: boss
  fields:
    n: 1
- object: Thing
  update_key: n
  fields:
    n: ${{ 1 + 1 }}
    o:
      reference: boss
""",
 "b_plugin": """
- plugin: snowfakery.standard_plugins.Counters
- plugin: snowfakery.standard_plugins.Math
- var: counter
  value:
    Counters.NumberCounter:
      start: 3
      step: 2
- object: Row
  count: 3
  fields:
    n: ${{counter.next}}
    r: ${{Math.sqrt(16)}}
    u: ${{unique_id}}
""",
 "b_foreach": """
- plugin: snowfakery.standard_plugins.datasets.Dataset
- object: Rec
  for_each:
    var: row
    value:
      Dataset.iterate:
        dataset: examples/datasets/addresses.csv
  fields:
    city: ${{row.City}}
""",
 "b_include": """
- include_file: examples/company.yml
- object: Extra
  fields:
    c:
      reference: Company
""",
 "b_version2": """
- snowfakery_version: 2
- snowfakery_version: 2
- object: V
  fields:
    x: "5"
""",
 "b_hidden": """
- object: __Hidden
  nickname: h
  fields:
    secret: 7
- object: Shown
  fields:
    __tmp: 1
    v: ${{h.secret}}
""",
 "b_varstruct": """
- var: pick
  value:
    random_choice:
      - red
      - blue
- var: tmpl
  value:
    - object: Made
- object: Use
  fields:
    colour: ${{pick}}
""",
 "b_friendmacro": """
- macro: withkids
  friends:
    - object: Kid
      include: named
- macro: named
  fields:
    name: n
- object: Mum
  include: withkids
  friends:
    - object: Pet
      nickname: pet
      fields:
        owner:
          reference: Mum
""",
 "b_keyargs": """
- object: K
  fields:
    a:
      random_number:
        min: 1
        max: 2
        step: 1
    b:
      random_choice:
        Yes: 50%
        5: 30%
        2020-01-01: 20%
    c:
      - random_number:
          min: 1
          max: 2
""",
}

# tiny seeds, one per kind of declaration: every single edit of these runs in BOTH tiers, so that every
# keyword position meets every replacement value on every run
MINI = {
 "m_include": "- include_file: examples/company.yml\n",
 "m_plugin": "- plugin: snowfakery.standard_plugins.Math\n",
 "m_macro": "- macro: m\n  fields:\n    a: 1\n- object: A\n  include: m\n",
 "m_option": "- option: o\n  default: 1\n",
 "m_var": "- var: v\n  value: 1\n",
 "m_version": "- snowfakery_version: 2\n",
 "m_veropt": "- option: snowfakery.standard_plugins.SnowfakeryVersion.snowfakery_version\n  default: 3\n- object: A\n",
 "m_object": "- object: A\n  count: 1\n  nickname: a\n  just_once: false\n  update_key: x\n  fields:\n    x: 1\n"
             "  friends:\n  - object: B\n    just_once: false\n",
 "m_nested": "- object: A\n  fields:\n    c:\n    - object: C\n      just_once: false\n",
 "m_foreach": "- plugin: snowfakery.standard_plugins.datasets.Dataset\n- object: R\n  for_each:\n    var: r\n    value:\n"
              "      Dataset.iterate:\n        dataset: examples/datasets/addresses.csv\n",
 "m_randref": "- object: A\n- object: B\n  fields:\n    r:\n      random_reference: A\n    s:\n      random_reference:\n        to: A\n",
 "m_call": "- object: A\n  fields:\n    n:\n      random_number:\n        min: 1\n        max: 2\n",
}

_SEEDS = None


def seeds():
    """id -> {"tree", "base", "nodes"}.  Repository seeds come from corpus/C20/seeds.json (a cached list of
    files that ran offline and quickly when the list was built); files that no longer load are skipped."""
    global _SEEDS
    if _SEEDS is not None:
        return _SEEDS
    out = {}
    for name, text in list(BUILTIN.items()) + list(MINI.items()):
        t = from_py(yaml.safe_load(text))
        out[name] = {"tree": t, "base": None, "nodes": node_count(t)}
    if SEEDS_FILE.exists():
        try:
            listed = json.loads(SEEDS_FILE.read_text()).get("seeds", [])
        except Exception:
            listed = []
        for s in listed:
            p = REPO / s["path"]
            try:
                t = from_py(yaml.safe_load(p.read_text()))
            except Exception:
                continue
            out["file:" + s["path"]] = {"tree": t, "base": s["path"], "nodes": node_count(t)}
    _SEEDS = out
    return out


# =============================================================================== edits
def _py_alpha():
    return [None, True, False, 0, 1, 5, -3, 0.0, 1.5, float("inf"), float("nan"),
            "", "x", "a.b.c", "/abs", ".", "5", "3", "3.0", "three", "inf", "${{ 1/0 }}", "m, ,q",
            _dt.date(2020, 1, 1), _dt.datetime(2020, 1, 1, 10, 0, 0), b"hi", {"a", "b"},
            [], ["x"], [{"object": "B"}], [1, 2], ["x", {"a": "b"}], [{"a": "b"}],
            {}, {"k": "v"}, {"object": "B"}, {5: "v"}, {None: "v"}, {"a.b": 1},
            {"var": "v", "value": 1}, {"random_number": {"min": 1, "max": 2}}, {"fake": "Name"},
            {"Nope.x": 1}]


REPL = [from_py(v) for v in _py_alpha()]
KEYALPHA = [from_py(k) for k in KEYWORDS + ["x", "", "__line__", "a.b", "to", "random_reference", 5, None, True, 1.5,
                                            _dt.date(2020, 1, 1)]]


def positions(t, path=()):
    """value positions: root, list / set items, map values"""
    yield path, t
    if t[0] in "l":
        for i, x in enumerate(t[1]):
            yield from positions(x, path + (i,))
    elif t[0] == "m":
        for i, (k, v) in enumerate(t[1]):
            yield from positions(v, path + (i,))


def edit_descriptors(t):
    """all single structural edits of tree t as JSON-able descriptors [path, op, arg]"""
    out = []
    for path, node in positions(t):
        p = list(path)
        for ri, r in enumerate(REPL):
            if r != node and not (r[0] == "f" and node[0] == "f" and r[1] == node[1]):
                out.append([p, "rep", ri])
        if node[0] == "l":
            n = len(node[1])
            for i in range(n):
                out.append([p, "del", i])
            for i in range(n - 1):
                out.append([p, "swap", [i, i + 1]])
            if n > 2:
                out.append([p, "swap", [0, n - 1]])
            for i in range(n):
                out.append([p, "dupi", i])
        elif node[0] == "m":
            n = len(node[1])
            keys = [kv[0] for kv in node[1]]
            for i in range(n):
                out.append([p, "del", i])
                for ki, k in enumerate(KEYALPHA):
                    if k not in keys:
                        out.append([p, "ren", [i, ki]])
                        out.append([p, "dup", [i, ki]])
                for j in range(i + 1, n):
                    out.append([p, "swap", [i, j]])
    return out


def apply_edit(t, desc):
    path, op, arg = desc

    def go(node, path):
        if path:
            i, rest = path[0], path[1:]
            if node[0] == "l":
                items = list(node[1])
                items[i] = go(items[i], rest)
                return ["l", items]
            items = [list(kv) for kv in node[1]]
            items[i][1] = go(items[i][1], rest)
            return ["m", items]
        if op == "rep":
            return copy.deepcopy(REPL[arg])
        items = [copy.deepcopy(x) for x in node[1]]
        if op == "del":
            del items[arg]
        elif op == "dupi":
            items.insert(arg, copy.deepcopy(items[arg]))
        elif op == "swap":
            i, j = arg
            if node[0] == "l":
                items[i], items[j] = items[j], items[i]
            else:
                items[i][1], items[j][1] = items[j][1], items[i][1]
        elif op == "ren":
            i, ki = arg
            items[i][0] = copy.deepcopy(KEYALPHA[ki])
        elif op == "dup":
            i, ki = arg
            items.append([copy.deepcopy(KEYALPHA[ki]), copy.deepcopy(items[i][1])])
        else:
            raise ValueError(op)
        return [node[0], items]
    return go(t, list(path))


# =============================================================================== arbitrary YAML stream
def arb_tree(rng, d=0, top=True):
    if top and rng.random() < 0.9:
        return ["l", [arb_stmt(rng, 1) for _ in range(rng.choice([0, 1, 1, 2, 2, 3]))]]
    return arb_value(rng, d)


def arb_key(rng):
    r = rng.random()
    if r < 0.75:
        return ["s", rng.choice(KEYWORDS + ["x", "y", "to", "random_reference", "reference", "fake", "a.b"])]
    return rng.choice(KEYALPHA)


def arb_scalar(rng):
    return copy.deepcopy(rng.choice(REPL[:27]))


def arb_value(rng, d):
    if d >= 4 or rng.random() < 0.35:
        return arb_scalar(rng)
    r = rng.random()
    if r < 0.35:
        return ["l", [arb_value(rng, d + 1) for _ in range(rng.choice([0, 1, 1, 2]))]]
    if r < 0.9:
        return arb_stmt(rng, d + 1)
    return copy.deepcopy(rng.choice(REPL))


def arb_stmt(rng, d):
    n = rng.choice([0, 1, 1, 2, 2, 3, 4])
    items, seen = [], []
    for _ in range(n):
        k = arb_key(rng)
        if k in seen:
            continue
        seen.append(k)
        if k[0] == "s" and k[1] in ("object", "var", "macro", "option", "nickname", "include", "update_key") \
                and rng.random() < 0.7:
            v = ["s", rng.choice(["A", "B", "m", "x"])]
        elif k[0] == "s" and k[1] in ("fields", "for_each") and rng.random() < 0.7 and d < 4:
            v = arb_stmt(rng, d + 1)
        elif k[0] == "s" and k[1] == "friends" and rng.random() < 0.7 and d < 4:
            v = ["l", [arb_stmt(rng, d + 1) for _ in range(rng.choice([0, 1, 2]))]]
        else:
            v = arb_value(rng, d)
        items.append([k, v])
    return ["m", items]


TEXTS = {
 "alias_shared": "- &a\n  object: A\n- *a\n",
 "alias_scalar": "- object: &n A\n  nickname: *n\n",
 "merge_key": "- &a {object: A}\n- <<: *a\n  nickname: b\n",
 "self_alias_fields": "- object: A\n  fields: &f\n    x: *f\n",
 "self_alias_list": "- object: A\n  fields:\n    x: &a [*a]\n",
 "self_alias_friends": "- object: A\n  friends: &f\n    - object: B\n      friends: *f\n",
 "self_alias_top": "&t\n- *t\n",
 "two_docs": "- object: A\n---\n- object: B\n",
 "unknown_tag": "- object: !foo A\n",
 "python_tag": "- object: !!python/object:os.system A\n",
 "tab_indent": "- object: A\n\tfields: x\n",
 "unterminated": "- object: 'A\n",
 "bad_indent": "- object: A\n fields:\n    x: 1\n   y: 2\n",
 "control_char": "- object: A\x01\n",
 "nul_char": "- object: A\x00\n",
 "bad_date": "- object: A\n  fields:\n    x: 2020-13-45\n",
 "bad_time": "- object: A\n  fields:\n    x: 2020-01-01 25:00:00\n",
 "unhashable_key": "- object: A\n  fields:\n    ? [1, 2]\n    : x\n",
 "undefined_alias": "- object: *nope\n",
 "empty": "",
 "only_comment": "# nothing\n",
 "scalar_doc": "hello\n",
 "map_doc": "a: b\n",
 "dup_keys": "- object: A\n  object: B\n",
 "flow": "[{object: A, fields: {x: [1, 2]}}]\n",
 "set_tag": "- object: A\n  fields:\n    x: !!set {a, b}\n",
 "binary_tag": "- object: A\n  fields:\n    x: !!binary aGVsbG8=\n",
 "int_forms": "- object: A\n  count: 0x2\n  fields:\n    x: 0o7\n    y: 1_000\n    z: 1:30\n",
 "float_forms": "- object: A\n  fields:\n    x: .inf\n    y: -.inf\n    z: .nan\n    w: 1e3\n",
 "bool_forms": "- object: A\n  just_once: yes\n  fields:\n    on: off\n",
 "null_key": "- object: A\n  fields:\n    ~: x\n",
 "version_nan": "- snowfakery_version: .nan\n- object: A\n",
 "bom": "﻿- object: A\n",
 "crlf": "- object: A\r\n  count: 2\r\n",
 "long_scalar": "- object: A\n  fields:\n    x: |\n      line one\n      line two\n",
 "folded_key": "- object: A\n  fields:\n    ? |\n      block key\n    : v\n",
}


FILESETS = {
 "self_include": {"main.yml": "- include_file: main.yml\n- object: A\n"},
 "two_cycle": {"main.yml": "- include_file: b.yml\n- object: A\n", "b.yml": "- include_file: main.yml\n- object: B\n"},
 "chain3": {"main.yml": "- include_file: b.yml\n- object: A\n  include: m\n", "b.yml": "- include_file: sub/c.yml\n- object: B\n",
            "sub/c.yml": "- macro: m\n  fields:\n    x: 1\n- option: o\n  default: 1\n"},
 "diamond": {"main.yml": "- include_file: b.yml\n- include_file: c.yml\n- object: A\n", "b.yml": "- include_file: d.yml\n",
             "c.yml": "- include_file: d.yml\n", "d.yml": "- object: D\n"},
 "included_dir": {"main.yml": "- include_file: sub\n- object: A\n", "sub/x.yml": "- object: X\n"},
 "included_control_char": {"main.yml": "- include_file: b.yml\n- object: A\n", "b.yml": "- object: B\x01\n"},
 "included_bad_date": {"main.yml": "- include_file: b.yml\n- object: A\n", "b.yml": "- object: B\n  fields:\n    x: 2020-13-45\n"},
 "included_bad_yaml": {"main.yml": "- include_file: b.yml\n- object: A\n", "b.yml": "- object: 'B\n"},
 "included_not_list": {"main.yml": "- include_file: b.yml\n- object: A\n", "b.yml": "a: b\n"},
 "included_missing": {"main.yml": "- include_file: nope.yml\n- object: A\n"},
 "included_version_overridden": {"main.yml": "- include_file: b.yml\n- object: A\n", "b.yml": "- snowfakery_version: 3\n"},
 "included_bad_statement": {"main.yml": "- include_file: b.yml\n- object: A\n", "b.yml": "- object: B\n  fields:\n    '': x\n"},
 "included_cyclic_alias": {"main.yml": "- include_file: b.yml\n- object: A\n", "b.yml": "- object: B\n  fields: &f\n    x: *f\n"},
 "include_extra_key": {"main.yml": "- include_file: b.yml\n  nickname: x\n- object: A\n", "b.yml": "- object: B\n"},
}


FILESETS.update({
 "dotdot_self": {"main.yml": "- include_file: sub/../main.yml\n- object: A\n", "sub/x.yml": "- object: X\n"},
 "dot_self": {"main.yml": "- include_file: ./main.yml\n- object: A\n"},
 "dotdot_two_cycle": {"main.yml": "- include_file: sub/second.yml\n- object: A\n",
                      "sub/second.yml": "- include_file: ../sub/../main.yml\n- object: B\n"},
 "dotdot_three_cycle": {"main.yml": "- include_file: b/b.yml\n- object: A\n", "b/b.yml": "- include_file: ../c/./c.yml\n",
                        "c/c.yml": "- include_file: ../b/../main.yml\n- object: C\n"},
 "dotdot_back_to_middle": {"main.yml": "- include_file: b/b.yml\n- object: A\n", "b/b.yml": "- include_file: ../c/c.yml\n",
                           "c/c.yml": "- include_file: ../c/../b/b.yml\n"},
 "dotdot_acyclic": {"main.yml": "- include_file: sub/../other.yml\n- include_file: sub/./x.yml\n- object: A\n",
                    "other.yml": "- object: O\n", "sub/x.yml": "- include_file: ../other.yml\n- object: X\n"},
 "dotdot_missing_dir": {"main.yml": "- include_file: nosuch/../main.yml\n- object: A\n"},
})


def _detour(rng, frm_dir, to_path, dirs):
    """a relative spelling of to_path as seen from directory frm_dir, with optional . / .. detours"""
    rel = os.path.relpath(to_path, frm_dir or ".")
    r = rng.random()
    if r < 0.35:
        return rel
    if r < 0.5:
        return "./" + rel
    d = rng.choice(dirs)
    up = os.path.relpath(".", frm_dir or ".")            # way back to the root of the file set
    via = os.path.normpath(os.path.join(up, d))
    back = os.path.relpath(frm_dir or ".", d)
    return os.path.join(via, back, rel).replace("/./", "/") if rng.random() < 0.8 else os.path.join(via, ".", back, rel)


def gen_fileset(rng):
    """2-4 files in up to 3 directories, include edges spelled with detours; cyclic (length 1-3) or not"""
    dirs = ["a", "b"][: rng.choice([1, 2, 2])]
    n = rng.choice([1, 2, 2, 3, 3, 4])
    names = ["main.yml"] + [f"{rng.choice(dirs + [''])}/f{i}.yml".lstrip("/") for i in range(1, n)]
    files = {d + "/keep.yml": "- object: K\n" for d in dirs}
    edges = {i: [] for i in range(n)}
    for i in range(n - 1):
        edges[i].append(i + 1)                                # a chain main -> f1 -> f2 ...
    shape = rng.choice(["acyclic", "cycle", "cycle", "cycle"])
    if shape == "cycle":
        edges[n - 1].append(rng.randrange(0, n))              # close a cycle of length 1..n
    elif n > 2 and rng.random() < 0.5:
        edges[0].append(n - 1)                                # a diamond-ish second route
    for i, name in enumerate(names):
        lines = []
        for j in edges[i]:
            lines.append("- include_file: " + _detour(rng, os.path.dirname(name), names[j], dirs) + "\n")
        lines.append(f"- object: T{i}\n")
        files[name] = "".join(lines)
    return {"kind": "files", "files": files, "main": "main.yml", "label": "files:gen:" + shape}


def macro_graph_doc(kinds, entry_via="include", extra_edges=()):
    """macros m0..m(k-1) in a ring; edge i -> i+1 of kind kinds[i]: 'include' (the macro's own include:),
    'friend' (a friends template that includes the next macro) or 'nested' (a nested object in a field)"""
    k = len(kinds)
    out = []
    edges = [(i, (i + 1) % k, kinds[i]) for i in range(k)] + list(extra_edges)
    for i in range(k):
        m = {"macro": f"m{i}"}
        incs, friends, fields = [], [], {"own": i}
        for a, b, kind in edges:
            if a != i:
                continue
            if kind == "include":
                incs.append(f"m{b}")
            elif kind == "friend":
                friends.append({"object": f"F{i}", "include": f"m{b}"})
            elif kind == "nested":
                fields[f"n{b}"] = [{"object": f"N{i}", "include": f"m{b}"}]
            elif kind == "nested_friend":
                friends.append({"object": f"F{i}", "fields": {"c": {"object": f"G{i}", "include": f"m{b}"}}})
        if incs:
            m["include"] = ", ".join(incs)
        if friends:
            m["friends"] = friends
        m["fields"] = fields
        out.append(m)
    if entry_via == "include":
        out.append({"object": "Top", "include": "m0"})
    elif entry_via == "friend":
        out.append({"object": "Top", "friends": [{"object": "TF", "include": "m0"}]})
    else:
        out.append({"object": "Top", "fields": {"c": [{"object": "TN", "include": "m0"}]}})
    return out


def macro_graph_cases(rng, tier):
    import itertools
    cases = []
    kinds = ["include", "friend", "nested", "nested_friend"]
    for k in (1, 2, 3):
        for combo in itertools.product(kinds, repeat=k):
            if k == 3 and tier == "quick" and "nested_friend" in combo and rng.random() < 0.5:
                continue
            cases.append({"kind": "doc", "tree": from_py(macro_graph_doc(combo, rng.choice(["include", "friend", "nested"]))),
                          "base": None, "label": "macrograph:ring:" + "-".join(combo)})
    # chains that do not close (legal), rings entered half way, rings with a chord
    for _ in range(30 if tier == "quick" else 1500):
        k = rng.choice([2, 2, 3, 3, 4])
        combo = [rng.choice(kinds) for _ in range(k)]
        doc = macro_graph_doc(combo, rng.choice(["include", "friend", "nested"]),
                              extra_edges=[(rng.randrange(k), rng.randrange(k), rng.choice(kinds))] if rng.random() < 0.5 else ())
        if rng.random() < 0.35:                               # open the ring: drop what closes it
            last = doc[k - 1]
            for key in ("include", "friends"):
                last.pop(key, None)
            last["fields"] = {"own": k - 1}
        cases.append({"kind": "doc", "tree": from_py(doc), "base": None, "label": "macrograph:random"})
    return cases


# the version option with every scalar shape
VERSION_DEFAULTS = [2, 3, 7, 0, 2.0, 3.0, 2.5, float("nan"), True, None, "2", "3", "3.0", "three", "v3", "", " 3 ",
                    "0x3", "3e0", "٣", _dt.date(2020, 1, 1), [3], {"a": 3}]


# =============================================================================== fault cases
# skeleton positions for an injected fault; see _fault_recipe.  `exc` is a Python exception name.
FAULT_SITES = ["field_call", "field_attr", "var_call", "var_attr", "count_call", "count_attr", "count_conv_simple",
               "count_conv_struct", "count_conv_inf", "foreach_call", "foreach_attr", "foreach_noniter", "write_row", "field_simple",
               "field_arg", "var_simple", "count_simple"]
FAULT_DEPTHS = ["top", "friend", "nested", "var_template", "friend_of_friend"]
FAULT_EXCS = ["KeyError", "ValueError", "TypeError", "AttributeError", "AssertionError", "OverflowError",
              "ZeroDivisionError", "RuntimeError", "StopIteration", "DGE", "RecursionError", "OSError"]


def _fault_recipe(site, dep, exc):
    """Python recipe object with the fault placed at `site` inside a template at nesting `dep`."""
    boom = {"Boom.boom": exc}
    t = {"object": "T", "fields": {"a": 1}}
    stmts = [{"plugin": "harness.c20_plugin.Boom"}]
    extra_top = []
    if site == "field_call":
        t["fields"]["f"] = boom
    elif site == "field_attr":
        t["fields"]["f"] = {"Boom.nosuch": 1}
    elif site == "field_arg":
        t["fields"]["f"] = {"random_number": {"min": boom, "max": 3}}
    elif site == "field_simple":
        t["fields"]["f"] = "${{ Boom.boom('%s') }}" % exc
    elif site == "var_call":
        extra_top = [{"var": "v", "value": boom}]
    elif site == "var_attr":
        extra_top = [{"var": "v", "value": {"Boom.nosuch": 1}}]
    elif site == "var_simple":
        extra_top = [{"var": "v", "value": "${{ Boom.boom('%s') }}" % exc}]
    elif site == "count_call":
        t["count"] = boom
    elif site == "count_attr":
        t["count"] = {"Boom.nosuch": 1}
    elif site == "count_simple":
        t["count"] = "${{ Boom.boom('%s') }}" % exc
    elif site == "count_conv_simple":
        t["count"] = "abc"
    elif site == "count_conv_struct":
        t["count"] = {"Boom.text": "abc"}
    elif site == "count_conv_inf":
        t["count"] = "inf"
    elif site == "foreach_call":
        t["for_each"] = {"var": "r", "value": boom}
    elif site == "foreach_noniter":
        t["for_each"] = {"var": "r", "value": {"Boom.text": "abc"}}
    elif site == "foreach_attr":
        t["for_each"] = {"var": "r", "value": {"Boom.nosuch": 1}}
    elif site == "write_row":
        t["count"] = 2
    else:
        raise ValueError(site)
    if site.startswith("var_"):
        # the var statement itself sits at depth `dep`
        v = extra_top[0]
        if dep == "top":
            stmts += [v, t]
        elif dep == "friend":
            stmts += [{"object": "P", "friends": [v, t]}]
        elif dep == "friend_of_friend":
            stmts += [{"object": "P", "friends": [{"object": "Q", "friends": [v, t]}]}]
        else:
            return None
        return stmts
    if dep == "top":
        stmts += [t]
    elif dep == "friend":
        stmts += [{"object": "P", "friends": [t]}]
    elif dep == "nested":
        stmts += [{"object": "P", "fields": {"c": t}}]
    elif dep == "var_template":
        stmts += [{"var": "vt", "value": [t]}]
    elif dep == "friend_of_friend":
        stmts += [{"object": "P", "friends": [{"object": "Q", "friends": [t]}]}]
    return stmts


# =============================================================================== generation
def generate(rng, tier):
    cases = []
    sd = seeds()
    # texts and boundary documents always
    for name, text in TEXTS.items():
        cases.append({"kind": "text", "text": text, "label": "text:" + name})
    for name, fs in FILESETS.items():
        cases.append({"kind": "files", "files": fs, "main": "main.yml", "label": "files:" + name})
    for _ in range(60 if tier == "quick" else 2500):
        cases.append(gen_fileset(rng))
    cases.extend(macro_graph_cases(rng, tier))
    for v in VERSION_DEFAULTS:
        for where in ("default", "both"):
            doc = [{"option": "snowfakery.standard_plugins.SnowfakeryVersion.snowfakery_version", "default": v},
                   {"object": "A"}]
            if where == "both":
                doc.insert(0, {"snowfakery_version": 3})
            cases.append({"kind": "doc", "tree": from_py(doc), "base": None, "label": "version-option"})
    for name in sd:
        cases.append({"kind": "edit", "seed": name, "edit": None})      # the unchanged seed
    for site in FAULT_SITES:
        for dep in FAULT_DEPTHS:
            for exc in (FAULT_EXCS if tier == "thorough" else ["KeyError", "ValueError", "OverflowError", "DGE", "TypeError"]):
                if _fault_recipe(site, dep, exc) is not None:
                    if exc == "StopIteration" and site.endswith("_simple"):
                        continue        # Jinja's generator-based rendering absorbs StopIteration
                    if site in ("count_conv_simple", "count_conv_struct", "count_conv_inf", "foreach_noniter",
                                "field_attr", "var_attr", "count_attr", "foreach_attr") and exc != "KeyError":
                        continue
                    cases.append({"kind": "fault", "site": site, "depth": dep, "exc": exc,
                                  "nth": rng.choice([1, 1, 2]) if site == "write_row" else 0})
    n_arb = 300 if tier == "quick" else 12000
    for _ in range(n_arb):
        cases.append({"kind": "doc", "tree": arb_tree(rng), "base": None, "label": "arb"})
    for n in sorted(MINI):
        cases.extend({"kind": "edit", "seed": n, "edit": d} for d in edit_descriptors(sd[n]["tree"]))
    names = sorted((n for n in sd if not n.startswith("m_")), key=lambda n: (not n.startswith("b_"), sd[n]["nodes"], n))
    if tier == "quick":
        budget = 900
        descs = {n: edit_descriptors(sd[n]["tree"]) for n in names}
        builtin = [n for n in names if n.startswith("b_")]
        files = [n for n in names if not n.startswith("b_")]
        byop = {n: {} for n in names}
        for n in names:
            for d in descs[n]:
                byop[n].setdefault(d[1], []).append(d)
        for i in range(budget):
            pool = builtin if (i % 3 != 2 or not files) else files
            n = rng.choice(pool)
            # half of the sample uniform over edits (mostly replacements / renames), half uniform over operators
            d = rng.choice(descs[n]) if i % 2 == 0 else rng.choice(byop[n][rng.choice(sorted(byop[n]))])
            cases.append({"kind": "edit", "seed": n, "edit": d})
    else:
        budget = 105000
        used = 0
        for n in names:
            ds = edit_descriptors(sd[n]["tree"])
            if n.startswith("b_") or used + len(ds) <= budget:
                take = ds
            else:
                room = max(0, min(len(ds), (budget - used)))
                take = rng.sample(ds, min(len(ds), max(room, 300)))
            used += len(take)
            cases.extend({"kind": "edit", "seed": n, "edit": d} for d in take)
    return cases


def materialise(case):
    """-> (text, base) for the implementation"""
    k = case["kind"]
    if k == "text":
        return case["text"], case.get("base")
    if k == "doc":
        return dump(case["tree"]), case.get("base")
    if k == "edit":
        s = seeds().get(case["seed"])
        if s is None:
            return None, None
        t = s["tree"] if case.get("edit") is None else apply_edit(s["tree"], case["edit"])
        return dump(t), s["base"]
    if k == "fault":
        return yaml.safe_dump(_fault_recipe(case["site"], case["depth"], case["exc"]), sort_keys=False), None
    if k == "files":
        return case["files"][case["main"]], None       # run_impl writes the files and supplies the base
    raise ValueError(k)


# =============================================================================== implementation side
class _Enough(BaseException):
    pass


def _site(e):
    tb = traceback.extract_tb(e.__traceback__)
    pkg = str((REPO / "snowfakery").resolve()) + os.sep
    frames = [f for f in tb if str(Path(f.filename).resolve()).startswith(pkg)]
    if not frames:
        return "?"
    if any(f.name == "yaml_safe_load_with_line_numbers" for f in frames):
        return "parse_recipe_yaml.py:yaml_safe_load_with_line_numbers"
    f = frames[-1]
    return f"{os.path.basename(f.filename)}:{f.name}"


class _NamedIO(io.StringIO):
    name = None


def _classify_plugin(name, search):
    """What importlib makes of a dotted plugin name (the part of resolve_plugin that is not Snowfakery's)."""
    from importlib import import_module
    from snowfakery import plugins as P
    from faker.providers import BaseProvider
    prefix, cls_name = name.rsplit(".", 1)
    with P.plugin_path(search):
        for testname in [name + "." + cls_name, name]:
            mod_name, cn = testname.rsplit(".", 1)
            try:
                module = import_module(mod_name)
            except ModuleNotFoundError:
                continue
            except BaseException as e:
                if type(e).__name__ == "_CaseTimeout":
                    raise
                return "crash:" + type(e).__name__ + ":plugins.py:resolve_plugin_alternatives"
            if hasattr(module, cn):
                cls = getattr(module, cn)
                if not cls:
                    return "missing"
                if not isinstance(cls, type):
                    return "notplugin"
                if issubclass(cls, BaseProvider):
                    return "faker"
                a, b = issubclass(cls, P.SnowfakeryPlugin), issubclass(cls, P.ParserMacroPlugin)
                if b:
                    return "parser"
                if a:
                    return "plugin"
                return "notplugin"
    return "missing"


def _load_err(e):
    if isinstance(e, yaml.YAMLError):
        return "marked" if getattr(e, "problem_mark", None) is not None else "unmarked"
    if isinstance(e, ValueError):
        return "valueerror"
    return "exc:" + type(e).__name__


def _environment(py, base):
    """files / plugins the document (and the files it includes) refers to, as seen from the worker"""
    files, plugs = [], {}
    visited = set()

    def scan(doc, filekey, path, depth):
        if not isinstance(doc, list) or depth > 6:
            return
        for obj in doc:
            if not isinstance(obj, dict):
                continue
            p = obj.get("plugin")
            if isinstance(p, str) and "." in p and all(x.isidentifier() for x in p.split(".")) and p not in plugs:
                # (names of any other shape are rejected before importlib is asked)
                plugs[p] = _classify_plugin(p, [path.parent / "plugins"]) if p.isascii() else "nonascii"
            v = obj.get("include_file")
            if isinstance(v, str) and v and not v.startswith("/") and "\x00" not in v:
                if any(f[0] == filekey and f[1] == v for f in files):
                    continue
                target = path.parent / v
                if not target.exists():
                    files.append([filekey, v, "missing"])
                elif target.is_dir():
                    files.append([filekey, v, "dir"])
                else:
                    key = os.path.realpath(target)
                    if main_real is not None and key == main_real:
                        key = ""                 # the main file itself
                    try:
                        with target.open() as f:
                            inc = yaml.safe_load(f)
                        tree = from_py(inc)
                    except BaseException as e:
                        if type(e).__name__ == "_CaseTimeout":
                            raise
                        files.append([filekey, v, "bad:" + (_load_err(e) if not isinstance(e, Cyclic) else "cyclic")])
                        continue
                    files.append([filekey, v, "doc", key, tree])
                    if key not in visited:
                        visited.add(key)
                        scan(inc, key, target, depth + 1)
    path = (REPO / base).absolute() if base else Path("<stream>")
    main_real = os.path.realpath(path) if base else None
    visited.add("")
    scan(py, "", path, 0)
    return {"files": files, "plugins": plugs}


def run_impl(case):
    text, base = materialise(case)
    if text is None:
        return {"skip": "seed unavailable"}
    tmpdir = None
    if case["kind"] == "files":
        import tempfile
        tmpdir = tempfile.mkdtemp(prefix="sfv.c20.", dir="/var/tmp")
        for name, content in case["files"].items():
            fp = Path(tmpdir) / name
            fp.parent.mkdir(parents=True, exist_ok=True)
            fp.write_text(content)
        base = str(Path(tmpdir) / case["main"])
    try:
        return _run_text(case, text, base)
    finally:
        if tmpdir:
            import shutil
            shutil.rmtree(tmpdir, ignore_errors=True)


def _run_text(case, text, base):
    from snowfakery.data_generator import generate as sf_generate
    from snowfakery.output_streams import OutputStream
    from snowfakery.data_gen_exceptions import DataGenError
    from snowfakery import data_generator_runtime as rt
    os.chdir(REPO)
    random.seed(0)
    sys.unraisablehook = lambda *a, **k: None       # example plugins' __del__ noise
    state = {"rows": 0, "started": False}
    fault = case if case["kind"] == "fault" else None

    class Capture(OutputStream):
        def __init__(self):
            pass

        def write_row(self, tablename, row):
            state["rows"] += 1
            if fault and fault["site"] == "write_row" and state["rows"] >= fault["nth"] and tablename == "T":
                from harness.c20_plugin import make_exc
                raise make_exc(fault["exc"])
            if state["rows"] > ROW_LIMIT:
                raise _Enough()

        def write_single_row(self, *a):
            pass

        def close(self, **kw):
            return []

    interp = getattr(rt, "Interpreter", None)
    orig = interp.__dict__.get("execute") if interp is not None else None
    if orig is not None:
        def execute(self, *a, **k):
            state["started"] = True
            return orig(self, *a, **k)
        interp.execute = execute
    stream = _NamedIO(text)
    if base:
        stream.name = str(REPO / base)            # an absolute base stays as it is
    obs = {}
    import contextlib
    sink = io.StringIO()
    try:
        with contextlib.redirect_stdout(sink), contextlib.redirect_stderr(sink):
            if base:
                sf_generate(stream, {}, Capture())
            else:
                sf_generate(io.StringIO(text), {}, Capture())
        obs["outcome"] = "accept"
    except _Enough:
        obs["outcome"] = "accept"
        obs["truncated"] = True
    except BaseException as e:
        if type(e).__name__ == "_CaseTimeout":
            raise
        if isinstance(e, DataGenError):
            obs["outcome"] = "DGE"
            obs["dge"] = type(e).__name__
            try:
                obs["msg_ok"] = bool(str(e).strip()) and bool(str(e.message).strip())
            except Exception:
                obs["msg_ok"] = False
            obs["has_line"] = bool(e.line_num)
            obs["has_file"] = bool(e.filename)
        else:
            obs["outcome"] = type(e).__name__
            obs["where"] = _site(e)
            obs["msg"] = str(e)[:160]
    finally:
        if orig is not None:
            interp.execute = orig
    obs["rows"] = state["rows"]
    obs["phase"] = None if orig is None else ("run" if state["started"] else "static")
    # what the model needs to know about the world
    if case["kind"] != "fault":
        try:
            py = yaml.safe_load(text)
            obs["env"] = _environment(py, base)
        except BaseException as e:
            if type(e).__name__ == "_CaseTimeout":
                raise
            obs["env"] = None
    return obs


# =============================================================================== model side
def cs(s):
    if all(32 <= ord(ch) <= 126 for ch in s):
        return C.cstr(s)
    return "(sbytes " + C.clist(C.cz(b) for b in s.encode("utf-8")) + ")"


_UWS = re.compile("[\x85\xa0\u1680\u2000-\u200a\u2028\u2029\u202f\u205f\u3000]")


def _strings(t):
    if t[0] == "s":
        yield t[1]
    elif t[0] in "el":
        for x in t[1]:
            yield from _strings(x)
    elif t[0] == "m":
        for a, b in t[1]:
            yield from _strings(a)
            yield from _strings(b)


def cy(t):
    k = t[0]
    if k == "n":
        return "YNull"
    if k == "b":
        return f"(YBool {C.cbool(t[1])})"
    if k == "i":
        return f"(YInt {C.cz(t[1])})"
    if k == "f":
        f = float(t[1])
        if math.isnan(f):
            return "(YFloat FlNan)"
        if f == 0:
            return "(YFloat FlZero)"
        if math.isinf(f) or f != int(f) or abs(f) >= 2 ** 53:
            return "(YFloat FlOther)"
        return f"(YFloat (FlInt {C.cz(int(f))}))"
    if k == "s":
        return f"(YStr {cs(t[1])})"
    if k == "d":
        return "YDate"
    if k == "t":
        return "YDateTime"
    if k == "y":
        return f"(YBytes {C.cbool(len(t[1]) > 0)})"
    if k == "e":
        return f"(YSet {C.cbool(len(t[1]) > 0)})"
    if k == "l":
        return "(YSeq " + C.clist(cy(x) for x in t[1]) + ")"
    if k == "m":
        return "(YMap " + C.clist(C.cpair(cy(a), cy(b)) for a, b in t[1] if a != ["s", "__line__"]) + ")"
    raise ValueError(t)


YAML_SITE = "parse_recipe_yaml.py:yaml_safe_load_with_line_numbers"


def _cloaderr(how):
    if how == "marked":
        return "LMarked"
    if how == "unmarked":
        return "LUnmarked"
    if how == "valueerror":
        return "LValueError"
    return f"(LExc {cs(how[4:] + ':' + YAML_SITE)})"


def _cenv(env):
    fs = []
    for f in env["files"]:
        kind = f[2]
        if kind == "missing":
            e = "FMissing"
        elif kind == "dir":
            e = "FDir"
        elif kind.startswith("bad:"):
            if kind == "bad:cyclic":
                return None
            e = f"(FBad {_cloaderr(kind[4:])})"
        else:
            if any(_UWS.search(s) for s in _strings(f[4])):
                return None
            e = f"(FDoc {cs(f[3])} {cy(f[4])})"
        fs.append(f"(({cs(f[0])}, {cs(f[1])}), {e})")
    ps = []
    for name, r in env["plugins"].items():
        if r == "nonascii":
            return None                   # str.isidentifier() on non-ASCII text is not modelled
        if r.startswith("crash:"):
            v = f"(PCrash {cs(r[6:])})"
        else:
            v = {"missing": "PMissing", "notplugin": "PNotPlugin", "faker": "PFaker", "plugin": "PPlugin",
                 "parser": "PParser"}[r]
        ps.append(f"({cs(name)}, {v})")
    return f"(mkEnv {C.clist(fs)} {C.clist(ps)})"


def expected_static(obs):
    """the implementation's verdict up to the start of execution, in the model's vocabulary"""
    if obs.get("phase") is None:
        return None
    if obs["outcome"] == "accept" or obs["phase"] == "run":
        return "OAccept"
    if obs["outcome"] == "DGE":
        return "OReject"
    if obs["outcome"] == "RecursionError":
        return '(OCrash "RecursionError")'
    return f"(OCrash {cs(obs['outcome'] + ':' + obs.get('where', '?'))})"


# (site, depth) -> (path, leaf, raised exception) of the wrapper model
_DEPTH_STEPS = {"top": [], "friend": ["STmplFriend"], "nested": ["STmplField", "SNested"],
                "var_template": ["SVarExpr", "SNested"], "friend_of_friend": ["STmplFriend", "STmplFriend"]}
_VAR_DEPTH = {"top": [], "friend": ["STmplFriend"], "friend_of_friend": ["STmplFriend", "STmplFriend"]}


def fault_path(case):
    site, dep, exc = case["site"], case["depth"], case["exc"]
    if site.startswith("var_"):
        steps = _VAR_DEPTH[dep] + ["SVarExpr"]
        leaf, e = {"var_call": ("LFunc", exc), "var_attr": ("LLookup", "AttributeError"),
                   "var_simple": ("LEval", exc)}[site]
        return steps, leaf, e
    steps = list(_DEPTH_STEPS[dep])
    table = {
        "field_call": (["STmplField"], "LFunc", exc),
        "field_attr": (["STmplField"], "LLookup", "AttributeError"),
        "field_arg": (["STmplField", "SCallArg"], "LFunc", exc),
        "field_simple": (["STmplField"], "LEval", exc),
        "count_call": (["STmplCount"], "LFunc", exc),
        "count_attr": (["STmplCount"], "LLookup", "AttributeError"),
        "count_simple": (["STmplCount"], "LEval", exc),
        "count_conv_simple": (["STmplCount"], "LCountConv", "ValueError"),
        "count_conv_struct": (["STmplCount"], "LCountConv", "ValueError"),
        "count_conv_inf": (["STmplCount"], "LCountConv", "OverflowError"),
        "foreach_call": (["STmplForEach"], "LFunc", exc),
        "foreach_attr": (["STmplForEach"], "LLookup", "AttributeError"),
        "foreach_noniter": (["STmplForEach"], "LForEachType", "DGE"),
        "write_row": ([], "LWrite", exc),
    }
    s, leaf, e = table[site]
    return steps + s, leaf, e


def _cexn(name):
    return "EDGE" if name == "DGE" else f"(EPy {cs(name)})"


def coq_case(case, obs):
    if not isinstance(obs, dict) or obs.get("skip") or "outcome" not in obs:
        return None
    if case["kind"] == "fault":
        steps, leaf, e = fault_path(case)
        got = "DGE" if obs["outcome"] == "DGE" else obs["outcome"]
        if got == "accept":
            got = "NoException"
        return f"CFault {C.clist(steps)} {leaf} {_cexn(e)} {_cexn(got)}"
    exp = expected_static(obs)
    if exp is None:
        return None
    text, base = materialise(case)
    try:
        py = yaml.safe_load(text)
    except yaml.YAMLError as e:
        return f"CText {_cloaderr(_load_err(e))} {exp}"
    except RecursionError:
        return None
    except Exception as e:
        return f"CText {_cloaderr(_load_err(e))} {exp}"
    try:
        tree = from_py(py)
    except (Cyclic, RecursionError):
        return None                      # an alias cycle is not a tree: outside the model's datatype
    if any(_UWS.search(s) for s in _strings(tree)):
        return None                      # str.strip() on non-ASCII whitespace is not modelled
    env = obs.get("env")
    if env is None:
        return None
    cenv = _cenv(env)
    if cenv is None:
        return None
    return f"CDoc {cenv} {cy(tree)} {exp}"


# =============================================================================== property oracle
def oracle(case, obs):
    if obs.get("skip"):
        return None
    out = obs["outcome"]
    if case["kind"] == "fault":
        if out not in ("accept", "DGE"):
            return f"crash {out}@{obs.get('where')}: injected {case['exc']} at {case['site']}/{case['depth']} left generate as {out}"
        return None
    if out not in ("accept", "DGE"):
        return (f"crash {out}@{obs.get('where')}: the document is answered with {out} ({obs.get('msg')}) "
                f"in the {obs.get('phase')} phase after {obs.get('rows')} rows")
    if out == "DGE" and not obs.get("msg_ok"):
        return "message: rejected with a DataGenError that carries no message"
    if obs.get("phase") == "static" and obs.get("rows", 0) > 0:
        return f"rows: {obs['rows']} rows were written although the error was raised before execution started"
    return None


def violation_class(case, obs, msg):
    return msg.split(":")[0]


def nontrivial(case, obs):
    if not isinstance(obs, dict) or "outcome" not in obs:
        return False
    return case["kind"] == "fault" or obs["outcome"] != "accept"


def stats(cases, obss):
    kinds = Counter(c["kind"] for c in cases)
    outc = Counter()
    crash = Counter()
    dge = Counter()
    ops = Counter()
    lines = Counter()
    rows_before_dge = Counter()
    for c, o in zip(cases, obss):
        if not isinstance(o, dict) or "outcome" not in o:
            outc["hang" if isinstance(o, dict) and o.get("hang") else "n/a"] += 1
            continue
        out = o["outcome"]
        outc[("accept" if out == "accept" else "reject" if out == "DGE" else "crash") + "/" + str(o.get("phase"))] += 1
        if out == "DGE":
            dge[o.get("dge")] += 1
            lines["with line" if o.get("has_line") else "with file" if o.get("has_file") else "no location"] += 1
            if o.get("phase") == "run":
                rows_before_dge["0" if o["rows"] == 0 else ">0"] += 1
        elif out != "accept":
            crash[f"{out}@{o.get('where')}"] += 1
        if c["kind"] == "edit" and c.get("edit"):
            ops[c["edit"][1]] += 1
    sd = seeds()
    per_seed = Counter(c["seed"] for c in cases if c["kind"] == "edit" and c.get("edit"))
    exhaustive = sorted(n for n, k in per_seed.items() if n in sd and k >= len(edit_descriptors(sd[n]["tree"])))
    return {"seeds_enumerated_exhaustively": len(exhaustive), "kinds": dict(kinds), "outcome/phase": dict(outc), "crash_sites": dict(crash), "reject_classes": dict(dge),
            "reject_location": dict(lines), "runtime_reject_rows_before": dict(rows_before_dge),
            "edit_ops": dict(ops), "seeds": len(sd), "seed_nodes": sum(s["nodes"] for s in sd.values())}


def shrink(case):
    """first make the case self-contained (explicit tree), then drop list elements / map entries"""
    if case["kind"] == "edit":
        s = seeds().get(case["seed"])
        if s is not None:
            t = s["tree"] if case.get("edit") is None else apply_edit(s["tree"], case["edit"])
            yield {"kind": "doc", "tree": t, "base": s["base"], "label": f"{case['seed']} {case.get('edit')}"}
        return
    if case["kind"] != "doc":
        return
    t = case["tree"]
    for path, node in positions(t):
        if node[0] in "lm" and node[1]:
            for i in range(len(node[1])):
                yield dict(case, tree=apply_edit(t, [list(path), "del", i]))


def directed_search(rng, disagreeing):
    out = []
    sd = seeds()
    for n in [n for n in sd if n.startswith("b_")]:
        ds = edit_descriptors(sd[n]["tree"])
        out.extend({"kind": "edit", "seed": n, "edit": d} for d in rng.sample(ds, min(len(ds), 500)))
    for site in FAULT_SITES:
        for dep in FAULT_DEPTHS:
            for exc in FAULT_EXCS:
                if _fault_recipe(site, dep, exc) is not None and not (exc == "StopIteration" and site.endswith("_simple")):
                    out.append({"kind": "fault", "site": site, "depth": dep, "exc": exc, "nth": 1})
    return out


# =============================================================================== known findings
# id -> (exception signatures (type, file:function) | special, what, witness case)
FINDINGS = {}        # every defect found while this check was built is repaired (KNOWN_FINDINGS.json: fixed)


def _walk_py(o):
    yield o
    if isinstance(o, dict):
        for k, v in o.items():
            yield from _walk_py(v)
    elif isinstance(o, (list, tuple)):
        for v in o:
            yield from _walk_py(v)


def _recursion_class(case, obs):
    text, _ = materialise(case)
    try:
        py = yaml.safe_load(text)
        from_py(py)
    except Cyclic:
        return "cyclic-alias"
    except Exception:
        return None
    env = obs.get("env") or {}
    files = env.get("files", [])
    if any(f[2] == "bad:cyclic" for f in files):
        return "cyclic-alias"
    edges = {}
    for f in files:
        if f[2] == "doc":
            edges.setdefault(f[0], set()).add(f[3])
    seen, stack = set(), [""]
    path_cycle = False

    def dfs(n, anc):
        nonlocal path_cycle
        for m in edges.get(n, ()):
            if m in anc:
                path_cycle = True
            elif m not in seen:
                seen.add(m)
                dfs(m, anc | {m})
    dfs("", {""})
    if path_cycle:
        return "file-cycle"
    has_macro = any(isinstance(o, dict) and o.get("macro") for o in (py if isinstance(py, list) else []))
    for f in files:
        if f[2] == "doc" and any(x[0] == "m" and any(k == ["s", "macro"] for k, _ in x[1])
                                 for x in (f[4][1] if f[4][0] == "l" else [])):
            has_macro = True
    return "macro-cycle" if has_macro else None


def _hang_class(case):
    text, _ = materialise(case)
    try:
        py = yaml.safe_load(text)
    except Exception:
        return None
    for o in _walk_py(py):
        if isinstance(o, dict) and "Schedule.Event" in o:
            a = o["Schedule.Event"]
            if isinstance(a, dict) and "interval" in a and a["interval"] in (0, False) and a["interval"] is not None:
                return "schedule-interval"
    return None


def _top_templates(py):
    """templates that run without a wrapping handler around their count / context: top-level statements and
    templates that are the value of a top-level var (directly, or unwrapped from a one-element list)"""
    out = []
    for o in py if isinstance(py, list) else []:
        if not isinstance(o, dict):
            continue
        if o.get("object"):
            out.append(o)
        elif o.get("var"):
            v = o.get("value")
            if isinstance(v, list) and len(v) == 1:
                v = v[0]
            if isinstance(v, dict) and v.get("object"):
                out.append(v)
    return out


def _runtime_class_ok(fid, case):
    """the input class of a run-time finding (so that the same exception from another place still fails)"""
    if case["kind"] == "fault":
        site, dep = case["site"], case["depth"]
        return {"C20-R1-count-not-simple-value": site in ("count_conv_struct",) and dep in ("top", "var_template"),
                "C20-R2-count-infinite": site in ("count_conv_inf", "count_call") and dep in ("top", "var_template")
                                         and (site != "count_call" or case["exc"] == "OverflowError"),
                "C20-R4-top-level-var-plugin-attribute": (site == "var_attr" and dep == "top") or
                                                         (site == "count_attr" and dep in ("top", "var_template"))
                }.get(fid, False)
    text, _ = materialise(case)
    try:
        py = yaml.safe_load(text)
        from_py(py)
    except Exception:
        return False
    tops = [o for o in (py if isinstance(py, list) else []) if isinstance(o, dict)]
    if fid == "C20-R1-count-not-simple-value":
        return any(isinstance(t.get("count"), dict) for t in _top_templates(py))
    if fid == "C20-R2-count-infinite":
        return any(t.get("count") is not None for t in _top_templates(py))
    if fid == "C20-R3-top-level-var-dot":
        return any(o.get("var") and o.get("value") == "." for o in tops)
    if fid == "C20-R4-top-level-var-plugin-attribute":
        def dotted(v):
            if isinstance(v, list) and len(v) == 1:
                v = v[0]
            return isinstance(v, dict) and any(isinstance(k, str) and "." in k for k in list(v)[:1])
        return any(o.get("var") and dotted(o.get("value")) for o in tops) or \
            any(dotted(t.get("count")) for t in _top_templates(py))
    if fid == "C20-R5-invalid-locale":
        return any(o.get("var") == "snowfakery_locale" for o in tops)
    return True


def match_finding(case, obs, msg, findings):
    """the id of the open finding this failure belongs to, or None (a model disagreement never matches)"""
    if msg == "model-disagreement" or not isinstance(obs, dict):
        return None
    open_ids = {f["id"] for f in findings}
    if obs.get("hang"):
        sig = ("HANG", _hang_class(case))
    else:
        out = obs.get("outcome")
        if out in (None, "accept", "DGE") or not msg.startswith("crash "):
            return None
        where = obs.get("where")
        if out == "RecursionError":
            where = _recursion_class(case, obs)
        sig = (out, where)
    for fid, f in FINDINGS.items():
        if fid not in open_ids:
            continue
        for t, w in f["sigs"]:
            if w == sig[1] and (t == "*" or t == sig[0]):
                if fid.startswith("C20-R") and not fid.startswith("C20-R6") and not _runtime_class_ok(fid, case):
                    continue
                return fid
    return None


def write_findings_corpus():   # (maintenance; FINDINGS is empty at present)
    """(maintenance) corpus/C20/known_findings.json and the KNOWN_FINDINGS.json entries as text"""
    cases = []
    entries = []
    for fid, f in FINDINGS.items():
        c = dict(f["case"])
        c["label"] = "finding:" + fid
        cases.append(c)
        entries.append({"id": fid, "property": "C20", "what": f["what"],
                        "signature": "exception (type @ innermost snowfakery frame) in " +
                                     ", ".join(f"{t}@{w}" for t, w in f["sigs"]) +
                                     "; static sites only when the Coq model predicts the same crash for the document",
                        "witness": "corpus/C20/known_findings.json (label finding:%s): %s" % (
                            fid, json.dumps(f["case"].get("text", f["case"].get("files")))[:160])})
    (C.CORPUS / "C20").mkdir(parents=True, exist_ok=True)
    (C.CORPUS / "C20" / "known_findings.json").write_text(json.dumps({"cases": cases}, indent=1))
    return entries


# =============================================================================== seed list maintenance
def build_seeds():
    """(maintenance, not part of a check run) try every recipe of /repo/examples and /repo/tests once and
    cache those that run offline, quickly and are small:  python -m harness.c20 build-seeds"""
    import time
    cands = sorted(set(REPO.glob("examples/**/*.yml")) | set(REPO.glob("tests/*.yml")))
    keep = []
    for p in cands:
        rel = str(p.relative_to(REPO))
        txt = p.read_text(errors="replace")
        if re.search(r"salesforce|soql|Salesforce|SOQL|http|sql|debug|RecipeState", txt):
            continue
        try:
            t = from_py(yaml.safe_load(txt))
        except Exception:
            continue
        n = node_count(t)
        if n > 160:
            continue
        case = {"kind": "text", "text": dump(t), "base": rel}
        t0 = time.time()
        import harness.c20 as me
        obs = C.run_impl_all(me, [case], timeout=5, workers=1)[0]
        dt = time.time() - t0
        ok = obs.get("outcome") == "accept" and not obs.get("truncated") and obs.get("rows", 0) <= 400
        print(f"{rel:60s} nodes={n:4d} {obs.get('outcome')} rows={obs.get('rows')} {dt:.2f}s {'KEEP' if ok else ''}")
        if ok:
            keep.append({"path": rel, "nodes": n, "rows": obs.get("rows")})
    SEEDS_FILE.parent.mkdir(parents=True, exist_ok=True)
    SEEDS_FILE.write_text(json.dumps({"_comment": "cached list of repository recipes used as C20 seeds (built by "
                                      "`python -m harness.c20 build-seeds`; each ran offline, < 5 s, <= 400 rows)",
                                      "seeds": keep}, indent=1))
    print(len(keep), "seeds kept")


if __name__ == "__main__":
    if sys.argv[1:] == ["build-seeds"]:
        build_seeds()
    if sys.argv[1:] == ["findings"]:
        print(json.dumps(write_findings_corpus(), indent=1))
