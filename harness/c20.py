"""C20 — invalid recipes are rejected with a recipe error, not an internal failure.

Implementation: snowfakery/parse_recipe_yaml.py (whole file), plugins.py (resolve_plugin*),
data_generator.py (generate, merge_options), data_generator_runtime.py (get_referent_name,
Interpreter.__init__'s version assert), data_generator_runtime_object_model.py (the exception
wrappers), data_gen_exceptions.py.  Model: coq/theories/Reject.v.

Kinds of cases
  edit   a seed recipe (built-in, or a file of /repo/examples, /repo/tests that runs offline) with ONE
         structural edit: replace a node by a value of another shape, delete / rename / duplicate a
         key, delete a list element, swap two values.  Exhaustive per seed in thorough, sampled in quick.
  doc    an explicit YAML tree (arbitrary-YAML stream: random trees of depth <= 4 over the recipe
         vocabulary; corpus witnesses; shrunk replays).
  text   raw text (aliases, cycles, tags, merge keys, control characters, unloadable text).
  fault  a small recipe plus one injected run-time fault (a plugin function / attribute lookup /
         count conversion / for_each / write_row that raises a chosen exception at a chosen position):
         the exception class leaving `generate` is compared with the model of the wrappers.

Observable (per document): Accept | Reject (any DataGenError) | Crash (exception type, file:function of
the innermost snowfakery frame), whether the error came before Interpreter.execute started (static
phase), and the number of rows written before it.
"""
import copy
import datetime as _dt
import io
import json
import math
import os
import random
import re
import sys
import traceback
from collections import Counter
from pathlib import Path

import yaml

from . import common as C

PROP = "C20"
MODEL = "Reject"
SHARD = 250
CASE_TIMEOUT = 90        # wall-clock backstop (a run that sleeps); the limit that counts is CPU_LIMIT, see run_impl
CPU_LIMIT = 10           # seconds of CPU one document may use: the machine's load does not eat into it
CPU_LIMIT_BY_KIND = {"empty": 5}   # (the unchanged code answers these in milliseconds)
SKIPPED_FN = "case_unsupported"
RULE = ("cases: edit = a valid seed recipe (16 built-in seeds covering every construct, 11 tiny seeds one "
        "per declaration kind, ~90 repository examples/tests that run offline) with ONE structural edit "
        "(node replaced by each of ~40 values of other shapes; key deleted / renamed / duplicated over a "
        "28-key alphabet incl. non-string keys; list element deleted / duplicated; two values swapped), "
        "tiny seeds exhaustive in both tiers, other seeds exhaustive in thorough (budget 105k edits) and sampled in "
        "quick; doc = random YAML trees depth<=4 over the recipe vocabulary; text = raw texts (aliases, "
        "cycles, tags, merge keys, unloadable text); files = multi-file recipes: fixed sets plus generated include graphs (2-4 files, paths spelled with ./.. detours, cycles of length 1-3); macrograph = macro rings of length 1-3 with every combination of edge kinds (include / friend / nested object / nested below a friend) plus random graphs; the snowfakery_version option with 23 default shapes; fault = recipes with one injected run-time "
        "exception (plugin call, attribute lookup, count conversion, for_each, write_row; top level / "
        "friend / nested); round 3: hostile = the fault recipes (22 sites x 5 depths x exception classes) with text from a "
        "108-string hostile alphabet ({ } {} {0} {x} {e} %s %(x)s $x backslashes quotes newlines unicode control characters NUL, regex and SQL metacharacters, sqlite_ names, long, "
        "empty) in every name around the fault (table, nickname, enclosing templates, field, variable, for_each variable, function "
        "name, definition text, count text) and as the text of the raised exception - every (site, depth, class), every string "
        "in every slot at a site whose message quotes that slot, every string as exception text; hostile-static = 26 document "
        "patterns whose error message quotes a name (macro, plugin, option, file, function, reference, key, version) with hostile "
        "names; files with hostile file names; fmt / fix = str.format itself and fix_exception called directly on generated "
        "templates, arguments and exception texts (the four templates of the code among them); dag = documents with anchors: "
        "ladders (list / dict / mixed / comb, width 2-4, depth 1-64 in quick, -96 in thorough) in 14 places where the parser "
        "does not follow the references and (depth <= 6) in 9 places where it does, shared parts used the ordinary way, random "
        "acyclic and cyclic graphs; big = deep nesting (10-3000), long lists / strings / formulas, many statements / fields, "
        "counts up to 10**5000.  Each document runs under a limit of 10 s of CPU time (90 s wall clock), dag / big "
        "documents also under a CPU budget that grows with the length of the text only (3 s + 10 us per character).  Compared with the Coq model: the "
        "static verdict Accept / Reject / Crash(type@file:function) of parse_recipe + merge_options + "
        "the random_reference scan (for documents with anchors on the graph PyYAML built: alias check, then the tree), the number "
        "of invocations of the alias check (at most the model's count + one per mapping), for fault / hostile cases the exception "
        "class leaving generate and - where the model promises them - message and line, for fmt the exact result of Python's "
        "str.format, for fix the class fix_exception returns / raises.  Oracle on "
        "the implementation: never a non-DataGenError exception, never a hang, a DataGenError has a "
        "message, a line when what was raised at the fault was not a DataGenError, zero rows when the error is raised before "
        "execution starts, the CPU budget.  round 4: ctx = every single edit (one value per shape, delete / rename each key) of the 12 tiny seeds "
        "placed BEHIND valid statements of every kind (var of each value type, templates plain / full / for_each / nested / "
        "friends with a var, macros used / unused / chained, option, plugin, include_file, random_reference, hidden, just_once; "
        "all of them in two orders, or one kind), also in front of / between them, and behind the unchanged seed itself (same "
        "names); sampled edits of the built-in seeds the same way; run together with the edited seed ALONE in the same process: "
        "what is rejected before execution alone must be rejected before execution, with no row written, in company (the "
        "surrounding statements write rows and use names no seed or replacement value uses); empty = 95 sources that have "
        "nothing to give or run out (CSV with header only / 0 bytes / blank lines / BOM only, SQL table / view without rows, "
        "database without tables, a plugin iterator over 0-2 records, each linear / shuffled, repeat on / off; random_choice of "
        "nothing / zero weights, random_number over an empty / one-point range / step 0, date ranges backwards, if without a "
        "true branch, counters with step 0, schedules with count 0 / interval 0 / until before start, UniqueId with an empty "
        "alphabet / template, an empty file, references to tables with count 0 / used up uniquely) x 11 ways of using them "
        "(field, hidden field + formula, var + formula, .next, for_each, friend, nested, argument, count, twice) behind a "
        "template that writes rows, under 5 s of CPU: the run must end with rows or a DataGenError.  round 5: mode = the "
        "documents (66 hand-written statement mixes: no statement at all / [] / empty text, only options / macros / plugins / "
        "version lines / an include_file of macros, one template plain / nicknamed / hidden / with count / for_each / friends / "
        "nested / just_once, a lone var, rows made only by templates held in variables, only vars, several templates, hidden "
        "tables, case-twin tables; every unchanged seed; single edits of the tiny and built-in seeds; seeds in the company of "
        "valid statements; random trees) offered through the other entry modes of the public API: update mode "
        "(update_input_file = one of 7 small CSV inputs - rows, header only, no id column, zero bytes, BOM + CRLF, ragged - "
        "with 0-2 passthrough fields, existing / missing / repeated / odd names) and a run continued from the continuation "
        "file of a first run of the same document (then once more from the continued run's file), each through "
        "generate_data on open streams, generate_data on paths, and snowfakery.cli in-process; same oracle, plus: what an "
        "ordinary run rejects before execution must be rejected before any row in update mode, and an update recipe "
        "with 0 or several object / var statements, a lone var or a count must be rejected before any row.  "
        "non-trivial: the document "
        "is rejected or crashes (the rejection machinery ran), or a fault / hostile / dag / big case, or a format template with a brace; distinct by case hash")
TRUSTED = ["harness/c20.py: tree <-> YAML text (yaml.safe_dump / yaml.safe_load); the model receives the tree "
           "PyYAML loads from the text the implementation receives (`__line__` keys dropped: the loader "
           "overwrites them); include_file targets and plugin names are resolved by the harness (pathlib, "
           "importlib under the implementation's plugin search path) and given to the model as an environment",
           "harness/c20.py: Interpreter.execute wrapped to learn whether the error came before execution "
           "started; a capturing OutputStream counts rows and aborts runs after 2000 rows",
           "harness/c20_plugin.py: the fault-injection plugin (raises the exception named in its argument, with the text "
           "chosen from the hostile alphabet; any attribute starting with `boom` is such a function)",
           "harness/c20.py graph_of: the object graph yaml.safe_load builds from the text (containers by identity) is the "
           "heap given to the model; the implementation's own loader adds a `__line__` entry per mapping (slack of the "
           "invocation count); check_no_recursive_aliases is counted through a wrapper installed under its module-level "
           "name (absent name: not counted)",
           "harness/c20.py run_impl: CPU-time limit by signal.ITIMER_PROF, reported like the driver's wall-clock alarm",
           "harness/c20.py ctx cases: the verdict of the edited seed on its own (same worker process, cached per seed and edit) "
           "is the yardstick for `detectable from the recipe alone`; harness/c20_plugin.py Boom.items: an iterator plugin "
           "written like the dataset iterators (start / next_result) over k records"]
ASSUMPTIONS = ["PyYAML maps text to trees; what it raises for unloadable text is an input of the model "
               "(marked YAMLError / unmarked YAMLError / other exception)",
               "importlib / the file system answer as observed by the harness in the same process",
               "Jinja, Faker and plugin code raise only Python exceptions (the theorems quantify over all of them)",
               "Python's recursion limit is the implementation's fuel: the model's OutOfFuel corresponds to RecursionError "
               "(documents nested beyond it: open finding C20-D1)",
               "str.format behaves as modelled (py_format) on the fragment without conversions, format specs, attribute / "
               "index access and non-ASCII field names: compared with Python's own str.format on every run (fmt cases)",
               "get_evaluator raises only for a definition that contains one of Jinja's opening delimiters "
               "(compiler_for_string), hence never for the empty definition"]
EXHAUSTIVE = {"quick": False, "thorough": False}

REPO = C.REPO
ROW_LIMIT = 2000
SEEDS_FILE = C.CORPUS / "C20" / "seeds.json"

KEYWORDS = ["object", "fields", "friends", "include", "nickname", "just_once", "for_each", "count",
            "update_key", "var", "value", "macro", "option", "default", "plugin", "include_file",
            "snowfakery_version"]


# =============================================================================== trees
# JSON encoding of a YAML tree:
#   ["n"] ["b",bool] ["i",int] ["f",repr] ["s",str] ["d",iso] ["t",iso] ["y",latin1] ["e",[items]]
#   ["l",[items]] ["m",[[k,v],...]]
class Cyclic(Exception):
    pass


def from_py(o, _stack=()):
    if o is None:
        return ["n"]
    if isinstance(o, bool):
        return ["b", o]
    if isinstance(o, int):
        return ["i", o]
    if isinstance(o, float):
        return ["f", repr(o)]
    if isinstance(o, str):
        return ["s", o]
    if isinstance(o, _dt.datetime):
        return ["t", o.isoformat()]
    if isinstance(o, _dt.date):
        return ["d", o.isoformat()]
    if isinstance(o, bytes):
        return ["y", o.decode("latin1")]
    if id(o) in _stack:
        raise Cyclic()
    st = _stack + (id(o),)
    if isinstance(o, (set, frozenset)):
        return ["e", [from_py(x, st) for x in o]]
    if isinstance(o, (list, tuple)):
        return ["l", [from_py(x, st) for x in o]]
    if isinstance(o, dict):
        return ["m", [[from_py(k, st), from_py(v, st)] for k, v in o.items()]]
    return ["s", "<" + type(o).__name__ + ">"]


def to_py(t):
    k = t[0]
    if k == "n":
        return None
    if k in "bis":
        return t[1]
    if k == "f":
        return float(t[1])
    if k == "d":
        return _dt.date.fromisoformat(t[1])
    if k == "t":
        return _dt.datetime.fromisoformat(t[1])
    if k == "y":
        return t[1].encode("latin1")
    if k == "e":
        return {to_py(x) for x in t[1]}
    if k == "l":
        return [to_py(x) for x in t[1]]
    if k == "m":
        return {to_py(a): to_py(b) for a, b in t[1]}
    raise ValueError(t)


def dump(t):
    return yaml.safe_dump(to_py(t), sort_keys=False, allow_unicode=True, default_flow_style=False, width=1000)


def node_count(t):
    if t[0] in "el":
        return 1 + sum(node_count(x) for x in t[1])
    if t[0] == "m":
        return 1 + sum(node_count(a) + node_count(b) for a, b in t[1])
    return 1


def depth(t):
    if t[0] in "el":
        return 1 + max([depth(x) for x in t[1]] or [0])
    if t[0] == "m":
        return 1 + max([max(depth(a), depth(b)) for a, b in t[1]] or [0])
    return 1


# =============================================================================== seeds
BUILTIN = {
 "b_plain": """
- object: Account
  count: 2
  fields:
    Name: Acme
    Employees: 5
    Rate: 1.5
    Active: true
    Since: 2020-01-01
    Note: null
""",
 "b_formula": """
- var: base
  value: 10
- object: Order
  count: ${{base - 8}}
  fields:
    total: ${{base * 2}}
    idx: ${{child_index}}
    label: Order ${{id}}
""",
 "b_struct": """
- object: Person
  fields:
    age:
      random_number:
        min: 1
        max: 9
    kind:
      random_choice:
        - a
        - b
    name:
      fake: FirstName
    when:
      date_between:
        start_date: 2020-01-01
        end_date: today
    flag:
      if:
        - choice:
            when: ${{age > 3}}
            pick: old
        - choice:
            pick: young
""",
 "b_nested": """
- object: Parent
  nickname: pp
  fields:
    child:
      - object: Child
        fields:
          p:
            reference: Parent
    other:
      object: Other
      count: 2
  friends:
    - object: Friend
      count: 2
      fields:
        who:
          reference: pp
    - var: fv
      value: 3
""",
 "b_macro": """
- macro: addr
  fields:
    street: Main
    city: Town
- macro: contactable
  include: addr
  fields:
    phone: 555
  friends:
    - object: Log
      fields:
        msg: created
- object: Contact
  include: contactable
  fields:
    street: Side
- object: Lead
  include: addr, contactable
""",
 "b_option": """
- option: n
  default: 2
- option: label
  default: x
- object: Item
  count: ${{n}}
  fields:
    tag: ${{label}}
""",
 "b_ref": """
- object: A
  nickname: first
  count: 3
- object: B
  count: 2
  fields:
    a:
      random_reference: A
    b:
      random_reference:
        to: A
        unique: true
    c:
      reference: first
""",
 "b_once": """
- snowfakery_version: 3
- object: Owner
  just_once: true
  nickname: boss
  fields:
    n: 1
- object: Thing
  update_key: n
  fields:
    n: ${{ 1 + 1 }}
    o:
      reference: boss
""",
 "b_plugin": """
- plugin: snowfakery.standard_plugins.Counters
- plugin: snowfakery.standard_plugins.Math
- var: counter
  value:
    Counters.NumberCounter:
      start: 3
      step: 2
- object: Row
  count: 3
  fields:
    n: ${{counter.next}}
    r: ${{Math.sqrt(16)}}
    u: ${{unique_id}}
""",
 "b_foreach": """
- plugin: snowfakery.standard_plugins.datasets.Dataset
- object: Rec
  for_each:
    var: row
    value:
      Dataset.iterate:
        dataset: examples/datasets/addresses.csv
  fields:
    city: ${{row.City}}
""",
 "b_include": """
- include_file: examples/company.yml
- object: Extra
  fields:
    c:
      reference: Company
""",
 "b_version2": """
- snowfakery_version: 2
- snowfakery_version: 2
- object: V
  fields:
    x: "5"
""",
 "b_hidden": """
- object: __Hidden
  nickname: h
  fields:
    secret: 7
- object: Shown
  fields:
    __tmp: 1
    v: ${{h.secret}}
""",
 "b_varstruct": """
- var: pick
  value:
    random_choice:
      - red
      - blue
- var: tmpl
  value:
    - object: Made
- object: Use
  fields:
    colour: ${{pick}}
""",
 "b_friendmacro": """
- macro: withkids
  friends:
    - object: Kid
      include: named
- macro: named
  fields:
    name: n
- object: Mum
  include: withkids
  friends:
    - object: Pet
      nickname: pet
      fields:
        owner:
          reference: Mum
""",
 "b_keyargs": """
- object: K
  fields:
    a:
      random_number:
        min: 1
        max: 2
        step: 1
    b:
      random_choice:
        Yes: 50%
        5: 30%
        2020-01-01: 20%
    c:
      - random_number:
          min: 1
          max: 2
""",
}

# tiny seeds, one per kind of declaration: every single edit of these runs in BOTH tiers, so that every
# keyword position meets every replacement value on every run
MINI = {
 "m_include": "- include_file: examples/company.yml\n",
 "m_plugin": "- plugin: snowfakery.standard_plugins.Math\n",
 "m_macro": "- macro: m\n  fields:\n    a: 1\n- object: A\n  include: m\n",
 "m_option": "- option: o\n  default: 1\n",
 "m_var": "- var: v\n  value: 1\n",
 "m_version": "- snowfakery_version: 2\n",
 "m_veropt": "- option: snowfakery.standard_plugins.SnowfakeryVersion.snowfakery_version\n  default: 3\n- object: A\n",
 "m_object": "- object: A\n  count: 1\n  nickname: a\n  just_once: false\n  update_key: x\n  fields:\n    x: 1\n"
             "  friends:\n  - object: B\n    just_once: false\n",
 "m_nested": "- object: A\n  fields:\n    c:\n    - object: C\n      just_once: false\n",
 "m_foreach": "- plugin: snowfakery.standard_plugins.datasets.Dataset\n- object: R\n  for_each:\n    var: r\n    value:\n"
              "      Dataset.iterate:\n        dataset: examples/datasets/addresses.csv\n",
 "m_randref": "- object: A\n- object: B\n  fields:\n    r:\n      random_reference: A\n    s:\n      random_reference:\n        to: A\n",
 "m_call": "- object: A\n  fields:\n    n:\n      random_number:\n        min: 1\n        max: 2\n",
}

_SEEDS = None


def seeds():
    """id -> {"tree", "base", "nodes"}.  Repository seeds come from corpus/C20/seeds.json (a cached list of
    files that ran offline and quickly when the list was built); files that no longer load are skipped."""
    global _SEEDS
    if _SEEDS is not None:
        return _SEEDS
    out = {}
    for name, text in list(BUILTIN.items()) + list(MINI.items()):
        t = from_py(yaml.safe_load(text))
        out[name] = {"tree": t, "base": None, "nodes": node_count(t)}
    if SEEDS_FILE.exists():
        try:
            listed = json.loads(SEEDS_FILE.read_text()).get("seeds", [])
        except Exception:
            listed = []
        for s in listed:
            p = REPO / s["path"]
            try:
                t = from_py(yaml.safe_load(p.read_text()))
            except Exception:
                continue
            out["file:" + s["path"]] = {"tree": t, "base": s["path"], "nodes": node_count(t)}
    _SEEDS = out
    return out


# =============================================================================== edits
def _py_alpha():
    return [None, True, False, 0, 1, 5, -3, 0.0, 1.5, float("inf"), float("nan"),
            "", "x", "a.b.c", "/abs", ".", "5", "3", "3.0", "three", "inf", "${{ 1/0 }}", "m, ,q",
            _dt.date(2020, 1, 1), _dt.datetime(2020, 1, 1, 10, 0, 0), b"hi", {"a", "b"},
            [], ["x"], [{"object": "B"}], [1, 2], ["x", {"a": "b"}], [{"a": "b"}],
            {}, {"k": "v"}, {"object": "B"}, {5: "v"}, {None: "v"}, {"a.b": 1},
            {"var": "v", "value": 1}, {"random_number": {"min": 1, "max": 2}}, {"fake": "Name"},
            {"Nope.x": 1}]


REPL = [from_py(v) for v in _py_alpha()]
KEYALPHA = [from_py(k) for k in KEYWORDS + ["x", "", "__line__", "a.b", "to", "random_reference", 5, None, True, 1.5,
                                            _dt.date(2020, 1, 1)]]


def positions(t, path=()):
    """value positions: root, list / set items, map values"""
    yield path, t
    if t[0] in "l":
        for i, x in enumerate(t[1]):
            yield from positions(x, path + (i,))
    elif t[0] == "m":
        for i, (k, v) in enumerate(t[1]):
            yield from positions(v, path + (i,))


def edit_descriptors(t):
    """all single structural edits of tree t as JSON-able descriptors [path, op, arg]"""
    out = []
    for path, node in positions(t):
        p = list(path)
        for ri, r in enumerate(REPL):
            if r != node and not (r[0] == "f" and node[0] == "f" and r[1] == node[1]):
                out.append([p, "rep", ri])
        if node[0] == "l":
            n = len(node[1])
            for i in range(n):
                out.append([p, "del", i])
            for i in range(n - 1):
                out.append([p, "swap", [i, i + 1]])
            if n > 2:
                out.append([p, "swap", [0, n - 1]])
            for i in range(n):
                out.append([p, "dupi", i])
        elif node[0] == "m":
            n = len(node[1])
            keys = [kv[0] for kv in node[1]]
            for i in range(n):
                out.append([p, "del", i])
                for ki, k in enumerate(KEYALPHA):
                    if k not in keys:
                        out.append([p, "ren", [i, ki]])
                        out.append([p, "dup", [i, ki]])
                for j in range(i + 1, n):
                    out.append([p, "swap", [i, j]])
    return out


def apply_edit(t, desc):
    path, op, arg = desc

    def go(node, path):
        if path:
            i, rest = path[0], path[1:]
            if node[0] == "l":
                items = list(node[1])
                items[i] = go(items[i], rest)
                return ["l", items]
            items = [list(kv) for kv in node[1]]
            items[i][1] = go(items[i][1], rest)
            return ["m", items]
        if op == "rep":
            return copy.deepcopy(REPL[arg])
        items = [copy.deepcopy(x) for x in node[1]]
        if op == "del":
            del items[arg]
        elif op == "dupi":
            items.insert(arg, copy.deepcopy(items[arg]))
        elif op == "swap":
            i, j = arg
            if node[0] == "l":
                items[i], items[j] = items[j], items[i]
            else:
                items[i][1], items[j][1] = items[j][1], items[i][1]
        elif op == "ren":
            i, ki = arg
            items[i][0] = copy.deepcopy(KEYALPHA[ki])
        elif op == "dup":
            i, ki = arg
            items.append([copy.deepcopy(KEYALPHA[ki]), copy.deepcopy(items[i][1])])
        else:
            raise ValueError(op)
        return [node[0], items]
    return go(t, list(path))


# =============================================================================== arbitrary YAML stream
def arb_tree(rng, d=0, top=True):
    if top and rng.random() < 0.9:
        return ["l", [arb_stmt(rng, 1) for _ in range(rng.choice([0, 1, 1, 2, 2, 3]))]]
    return arb_value(rng, d)


def arb_key(rng):
    r = rng.random()
    if r < 0.75:
        return ["s", rng.choice(KEYWORDS + ["x", "y", "to", "random_reference", "reference", "fake", "a.b"])]
    return rng.choice(KEYALPHA)


def arb_scalar(rng):
    return copy.deepcopy(rng.choice(REPL[:27]))


def arb_value(rng, d):
    if d >= 4 or rng.random() < 0.35:
        return arb_scalar(rng)
    r = rng.random()
    if r < 0.35:
        return ["l", [arb_value(rng, d + 1) for _ in range(rng.choice([0, 1, 1, 2]))]]
    if r < 0.9:
        return arb_stmt(rng, d + 1)
    return copy.deepcopy(rng.choice(REPL))


def arb_stmt(rng, d):
    n = rng.choice([0, 1, 1, 2, 2, 3, 4])
    items, seen = [], []
    for _ in range(n):
        k = arb_key(rng)
        if k in seen:
            continue
        seen.append(k)
        if k[0] == "s" and k[1] in ("object", "var", "macro", "option", "nickname", "include", "update_key") \
                and rng.random() < 0.7:
            v = ["s", rng.choice(["A", "B", "m", "x"])]
        elif k[0] == "s" and k[1] in ("fields", "for_each") and rng.random() < 0.7 and d < 4:
            v = arb_stmt(rng, d + 1)
        elif k[0] == "s" and k[1] == "friends" and rng.random() < 0.7 and d < 4:
            v = ["l", [arb_stmt(rng, d + 1) for _ in range(rng.choice([0, 1, 2]))]]
        else:
            v = arb_value(rng, d)
        items.append([k, v])
    return ["m", items]


TEXTS = {
 "alias_shared": "- &a\n  object: A\n- *a\n",
 "alias_scalar": "- object: &n A\n  nickname: *n\n",
 "merge_key": "- &a {object: A}\n- <<: *a\n  nickname: b\n",
 "self_alias_fields": "- object: A\n  fields: &f\n    x: *f\n",
 "self_alias_list": "- object: A\n  fields:\n    x: &a [*a]\n",
 "self_alias_friends": "- object: A\n  friends: &f\n    - object: B\n      friends: *f\n",
 "self_alias_top": "&t\n- *t\n",
 "two_docs": "- object: A\n---\n- object: B\n",
 "unknown_tag": "- object: !foo A\n",
 "python_tag": "- object: !!python/object:os.system A\n",
 "tab_indent": "- object: A\n\tfields: x\n",
 "unterminated": "- object: 'A\n",
 "bad_indent": "- object: A\n fields:\n    x: 1\n   y: 2\n",
 "control_char": "- object: A\x01\n",
 "nul_char": "- object: A\x00\n",
 "bad_date": "- object: A\n  fields:\n    x: 2020-13-45\n",
 "bad_time": "- object: A\n  fields:\n    x: 2020-01-01 25:00:00\n",
 "unhashable_key": "- object: A\n  fields:\n    ? [1, 2]\n    : x\n",
 "undefined_alias": "- object: *nope\n",
 "empty": "",
 "only_comment": "# nothing\n",
 "scalar_doc": "hello\n",
 "map_doc": "a: b\n",
 "dup_keys": "- object: A\n  object: B\n",
 "flow": "[{object: A, fields: {x: [1, 2]}}]\n",
 "set_tag": "- object: A\n  fields:\n    x: !!set {a, b}\n",
 "binary_tag": "- object: A\n  fields:\n    x: !!binary aGVsbG8=\n",
 "int_forms": "- object: A\n  count: 0x2\n  fields:\n    x: 0o7\n    y: 1_000\n    z: 1:30\n",
 "float_forms": "- object: A\n  fields:\n    x: .inf\n    y: -.inf\n    z: .nan\n    w: 1e3\n",
 "bool_forms": "- object: A\n  just_once: yes\n  fields:\n    on: off\n",
 "null_key": "- object: A\n  fields:\n    ~: x\n",
 "version_nan": "- snowfakery_version: .nan\n- object: A\n",
 "bom": "﻿- object: A\n",
 "crlf": "- object: A\r\n  count: 2\r\n",
 "long_scalar": "- object: A\n  fields:\n    x: |\n      line one\n      line two\n",
 "folded_key": "- object: A\n  fields:\n    ? |\n      block key\n    : v\n",
 # round 5: plugin classes that bring no function library (/repo 97f838d rejects them when the recipe is parsed)
 "plugin_base_class": "- plugin: snowfakery.plugins.SnowfakeryPlugin\n- object: A\n",
 "plugin_base_class_used": "- plugin: snowfakery.plugins.SnowfakeryPlugin\n- object: A\n  fields:\n    x: ${{SnowfakeryPlugin.f()}}\n",
 "plugin_base_class_alone": "- plugin: snowfakery.plugins.SnowfakeryPlugin\n",
 "plugin_without_functions": "- plugin: harness.c20_plugin.NoFunctions\n- object: A\n  fields:\n    x: 1\n",
 "plugin_own_custom_functions": "- plugin: harness.c20_plugin.OwnLibrary\n- object: A\n  fields:\n    x: ${{OwnLibrary.one()}}\n",
 "plugin_parser_macro_base": "- plugin: snowfakery.plugins.ParserMacroPlugin\n- object: A\n",
 "plugin_after_valid": "- plugin: snowfakery.standard_plugins.Math\n- object: A\n- plugin: snowfakery.plugins.SnowfakeryPlugin\n",
}


FILESETS = {
 "self_include": {"main.yml": "- include_file: main.yml\n- object: A\n"},
 "two_cycle": {"main.yml": "- include_file: b.yml\n- object: A\n", "b.yml": "- include_file: main.yml\n- object: B\n"},
 "chain3": {"main.yml": "- include_file: b.yml\n- object: A\n  include: m\n", "b.yml": "- include_file: sub/c.yml\n- object: B\n",
            "sub/c.yml": "- macro: m\n  fields:\n    x: 1\n- option: o\n  default: 1\n"},
 "diamond": {"main.yml": "- include_file: b.yml\n- include_file: c.yml\n- object: A\n", "b.yml": "- include_file: d.yml\n",
             "c.yml": "- include_file: d.yml\n", "d.yml": "- object: D\n"},
 "included_dir": {"main.yml": "- include_file: sub\n- object: A\n", "sub/x.yml": "- object: X\n"},
 "included_control_char": {"main.yml": "- include_file: b.yml\n- object: A\n", "b.yml": "- object: B\x01\n"},
 "included_bad_date": {"main.yml": "- include_file: b.yml\n- object: A\n", "b.yml": "- object: B\n  fields:\n    x: 2020-13-45\n"},
 "included_bad_yaml": {"main.yml": "- include_file: b.yml\n- object: A\n", "b.yml": "- object: 'B\n"},
 "included_not_list": {"main.yml": "- include_file: b.yml\n- object: A\n", "b.yml": "a: b\n"},
 "included_missing": {"main.yml": "- include_file: nope.yml\n- object: A\n"},
 "included_version_overridden": {"main.yml": "- include_file: b.yml\n- object: A\n", "b.yml": "- snowfakery_version: 3\n"},
 "included_bad_statement": {"main.yml": "- include_file: b.yml\n- object: A\n", "b.yml": "- object: B\n  fields:\n    '': x\n"},
 "included_cyclic_alias": {"main.yml": "- include_file: b.yml\n- object: A\n", "b.yml": "- object: B\n  fields: &f\n    x: *f\n"},
 "include_extra_key": {"main.yml": "- include_file: b.yml\n  nickname: x\n- object: A\n", "b.yml": "- object: B\n"},
}


FILESETS.update({
 "dotdot_self": {"main.yml": "- include_file: sub/../main.yml\n- object: A\n", "sub/x.yml": "- object: X\n"},
 "dot_self": {"main.yml": "- include_file: ./main.yml\n- object: A\n"},
 "dotdot_two_cycle": {"main.yml": "- include_file: sub/second.yml\n- object: A\n",
                      "sub/second.yml": "- include_file: ../sub/../main.yml\n- object: B\n"},
 "dotdot_three_cycle": {"main.yml": "- include_file: b/b.yml\n- object: A\n", "b/b.yml": "- include_file: ../c/./c.yml\n",
                        "c/c.yml": "- include_file: ../b/../main.yml\n- object: C\n"},
 "dotdot_back_to_middle": {"main.yml": "- include_file: b/b.yml\n- object: A\n", "b/b.yml": "- include_file: ../c/c.yml\n",
                           "c/c.yml": "- include_file: ../c/../b/b.yml\n"},
 "dotdot_acyclic": {"main.yml": "- include_file: sub/../other.yml\n- include_file: sub/./x.yml\n- object: A\n",
                    "other.yml": "- object: O\n", "sub/x.yml": "- include_file: ../other.yml\n- object: X\n"},
 "dotdot_missing_dir": {"main.yml": "- include_file: nosuch/../main.yml\n- object: A\n"},
})


def _detour(rng, frm_dir, to_path, dirs):
    """a relative spelling of to_path as seen from directory frm_dir, with optional . / .. detours"""
    rel = os.path.relpath(to_path, frm_dir or ".")
    r = rng.random()
    if r < 0.35:
        return rel
    if r < 0.5:
        return "./" + rel
    d = rng.choice(dirs)
    up = os.path.relpath(".", frm_dir or ".")            # way back to the root of the file set
    via = os.path.normpath(os.path.join(up, d))
    back = os.path.relpath(frm_dir or ".", d)
    return os.path.join(via, back, rel).replace("/./", "/") if rng.random() < 0.8 else os.path.join(via, ".", back, rel)


def gen_fileset(rng):
    """2-4 files in up to 3 directories, include edges spelled with detours; cyclic (length 1-3) or not"""
    dirs = ["a", "b"][: rng.choice([1, 2, 2])]
    n = rng.choice([1, 2, 2, 3, 3, 4])
    names = ["main.yml"] + [f"{rng.choice(dirs + [''])}/f{i}.yml".lstrip("/") for i in range(1, n)]
    files = {d + "/keep.yml": "- object: K\n" for d in dirs}
    edges = {i: [] for i in range(n)}
    for i in range(n - 1):
        edges[i].append(i + 1)                                # a chain main -> f1 -> f2 ...
    shape = rng.choice(["acyclic", "cycle", "cycle", "cycle"])
    if shape == "cycle":
        edges[n - 1].append(rng.randrange(0, n))              # close a cycle of length 1..n
    elif n > 2 and rng.random() < 0.5:
        edges[0].append(n - 1)                                # a diamond-ish second route
    for i, name in enumerate(names):
        lines = []
        for j in edges[i]:
            lines.append("- include_file: " + _detour(rng, os.path.dirname(name), names[j], dirs) + "\n")
        lines.append(f"- object: T{i}\n")
        files[name] = "".join(lines)
    return {"kind": "files", "files": files, "main": "main.yml", "label": "files:gen:" + shape}


def macro_graph_doc(kinds, entry_via="include", extra_edges=()):
    """macros m0..m(k-1) in a ring; edge i -> i+1 of kind kinds[i]: 'include' (the macro's own include:),
    'friend' (a friends template that includes the next macro) or 'nested' (a nested object in a field)"""
    k = len(kinds)
    out = []
    edges = [(i, (i + 1) % k, kinds[i]) for i in range(k)] + list(extra_edges)
    for i in range(k):
        m = {"macro": f"m{i}"}
        incs, friends, fields = [], [], {"own": i}
        for a, b, kind in edges:
            if a != i:
                continue
            if kind == "include":
                incs.append(f"m{b}")
            elif kind == "friend":
                friends.append({"object": f"F{i}", "include": f"m{b}"})
            elif kind == "nested":
                fields[f"n{b}"] = [{"object": f"N{i}", "include": f"m{b}"}]
            elif kind == "nested_friend":
                friends.append({"object": f"F{i}", "fields": {"c": {"object": f"G{i}", "include": f"m{b}"}}})
        if incs:
            m["include"] = ", ".join(incs)
        if friends:
            m["friends"] = friends
        m["fields"] = fields
        out.append(m)
    if entry_via == "include":
        out.append({"object": "Top", "include": "m0"})
    elif entry_via == "friend":
        out.append({"object": "Top", "friends": [{"object": "TF", "include": "m0"}]})
    else:
        out.append({"object": "Top", "fields": {"c": [{"object": "TN", "include": "m0"}]}})
    return out


def macro_graph_cases(rng, tier):
    import itertools
    cases = []
    kinds = ["include", "friend", "nested", "nested_friend"]
    for k in (1, 2, 3):
        for combo in itertools.product(kinds, repeat=k):
            if k == 3 and tier == "quick" and "nested_friend" in combo and rng.random() < 0.5:
                continue
            cases.append({"kind": "doc", "tree": from_py(macro_graph_doc(combo, rng.choice(["include", "friend", "nested"]))),
                          "base": None, "label": "macrograph:ring:" + "-".join(combo)})
    # chains that do not close (legal), rings entered half way, rings with a chord
    for _ in range(30 if tier == "quick" else 1500):
        k = rng.choice([2, 2, 3, 3, 4])
        combo = [rng.choice(kinds) for _ in range(k)]
        doc = macro_graph_doc(combo, rng.choice(["include", "friend", "nested"]),
                              extra_edges=[(rng.randrange(k), rng.randrange(k), rng.choice(kinds))] if rng.random() < 0.5 else ())
        if rng.random() < 0.35:                               # open the ring: drop what closes it
            last = doc[k - 1]
            for key in ("include", "friends"):
                last.pop(key, None)
            last["fields"] = {"own": k - 1}
        cases.append({"kind": "doc", "tree": from_py(doc), "base": None, "label": "macrograph:random"})
    return cases


# the version option with every scalar shape
VERSION_DEFAULTS = [2, 3, 7, 0, 2.0, 3.0, 2.5, float("nan"), True, None, "2", "3", "3.0", "three", "v3", "", " 3 ",
                    "0x3", "3e0", "٣", _dt.date(2020, 1, 1), [3], {"a": 3}]


# =============================================================================== fault cases
# skeleton positions for an injected fault; see _fault_recipe.  `exc` is a Python exception name.
FAULT_SITES = ["field_call", "field_attr", "var_call", "var_attr", "count_call", "count_attr", "count_conv_simple",
               "count_conv_struct", "count_conv_inf", "foreach_call", "foreach_attr", "foreach_noniter", "write_row", "field_simple",
               "field_arg", "var_simple", "count_simple"]
FAULT_DEPTHS = ["top", "friend", "nested", "var_template", "friend_of_friend"]
FAULT_EXCS = ["KeyError", "ValueError", "TypeError", "AttributeError", "AssertionError", "OverflowError",
              "ZeroDivisionError", "RuntimeError", "StopIteration", "DGE", "RecursionError", "OSError"]


DEFAULT_NAMES = {"T": "T", "Tn": None, "P": "P", "Pn": None, "Q": "Q", "Qn": None, "field": "f", "pfield": "c",
                 "var": "v", "vt": "vt", "fe": "r", "fn": "", "defn": "", "cdef": ""}
FAULT_SITES_V = FAULT_SITES + ["ctx_locale", "ctx_locale_var", "field_compile", "count_compile", "var_compile"]


def _tmpl(names, which, **rest):
    t = {"object": names[which]}
    if names.get(which + "n"):
        t["nickname"] = names[which + "n"]
    t.update(rest)
    return t


def _fault_recipe(site, dep, exc, names=None, msg=None):
    """Python recipe object with the fault placed at `site` inside a template at nesting `dep`.
    names: the text of every name around the fault (DEFAULT_NAMES); msg: index of the exception's text in
    c20_plugin.HOSTILE (None = the plugin's default text)."""
    nm = dict(DEFAULT_NAMES)
    nm.update(names or {})
    fname = "Boom.boom" + nm["fn"]
    boom = {fname: exc} if msg is None else {fname: {"name": exc, "msg": msg}}
    formula = ("${{ Boom.boom('%s') }}" % exc) if msg is None else ("${{ Boom.boom('%s', %d) }}" % (exc, msg))
    broken = nm["defn"] + "${{ 1 + }}"
    t = _tmpl(nm, "T", fields={"a": 1})
    f = nm["field"]
    stmts = [{"plugin": "harness.c20_plugin.Boom"}]
    extra_top = []
    if site == "field_call":
        t["fields"][f] = boom
    elif site == "field_attr":
        t["fields"][f] = {"Boom.nosuch": 1}
    elif site == "field_arg":
        t["fields"][f] = {"random_number": {"min": boom, "max": 3}}
    elif site == "field_simple":
        t["fields"][f] = formula
    elif site == "field_compile":
        t["fields"][f] = broken
    elif site == "var_call":
        extra_top = [{"var": nm["var"], "value": boom}]
    elif site == "var_attr":
        extra_top = [{"var": nm["var"], "value": {"Boom.nosuch": 1}}]
    elif site == "var_simple":
        extra_top = [{"var": nm["var"], "value": formula}]
    elif site == "var_compile":
        extra_top = [{"var": nm["var"], "value": broken}]
    elif site == "count_call":
        t["count"] = boom
    elif site == "count_attr":
        t["count"] = {"Boom.nosuch": 1}
    elif site == "count_simple":
        t["count"] = formula
    elif site == "count_compile":
        t["count"] = broken
    elif site == "count_conv_simple":
        t["count"] = "abc" + nm["cdef"]
    elif site == "count_conv_struct":
        t["count"] = {"Boom.text": "abc" + nm["cdef"]}
    elif site == "count_conv_inf":
        t["count"] = "inf"
    elif site == "foreach_call":
        t["for_each"] = {"var": nm["fe"], "value": boom}
    elif site == "foreach_noniter":
        t["for_each"] = {"var": nm["fe"], "value": {"Boom.text": "abc"}}
    elif site == "foreach_attr":
        t["for_each"] = {"var": nm["fe"], "value": {"Boom.nosuch": 1}}
    elif site == "write_row":
        t["count"] = 2
    elif site == "ctx_locale":
        # an unknown Faker locale: creating the template's context fails
        if dep != "top":
            return None
        return stmts + [{"var": "snowfakery_locale", "value": "xx_QQ"}, t]
    elif site == "ctx_locale_var":
        if dep != "top":
            return None
        return stmts + [{"var": "snowfakery_locale", "value": "xx_QQ"}, {"var": nm["var"], "value": 1}, t]
    else:
        raise ValueError(site)
    if site.startswith("var_"):
        # the var statement itself sits at depth `dep`
        v = extra_top[0]
        if dep == "top":
            stmts += [v, t]
        elif dep == "friend":
            stmts += [_tmpl(nm, "P", friends=[v, t])]
        elif dep == "friend_of_friend":
            stmts += [_tmpl(nm, "P", friends=[_tmpl(nm, "Q", friends=[v, t])])]
        else:
            return None
        return stmts
    if dep == "top":
        stmts += [t]
    elif dep == "friend":
        stmts += [_tmpl(nm, "P", friends=[t])]
    elif dep == "nested":
        stmts += [_tmpl(nm, "P", fields={nm["pfield"]: t})]
    elif dep == "var_template":
        stmts += [{"var": nm["vt"], "value": [t]}]
    elif dep == "friend_of_friend":
        stmts += [_tmpl(nm, "P", friends=[_tmpl(nm, "Q", friends=[t])])]
    return stmts


# ----------------------------------------------------------------- hostile text around an injected fault
from .c20_plugin import HOSTILE                                   # noqa: E402

_NAME_SLOTS = ["T", "Tn", "P", "Pn", "Q", "Qn", "field", "pfield", "var", "vt", "fe", "fn", "defn", "cdef"]


def _slot_ok(slot, text, site):
    """may `text` stand in this slot without changing which fault the recipe runs into?"""
    if slot == "defn":
        return True
    if slot == "cdef":
        # the count stays text that is neither a formula nor a number
        return not any(d in text for d in ("${{", "${%", "<<", "<%")) and "\x00" not in text
    if text == "":
        return False                                   # names must not be empty (a different, static, error)
    if slot in ("T", "P", "Q") and text.startswith("__"):
        return False                                   # hidden tables are not written
    if slot == "fn":
        # the function name is resolved with str.split('.') and, in formulas, by Jinja
        return "." not in text and not site.endswith("_simple")
    if slot in ("var", "vt", "fe") and text in ("snowfakery_locale", "id"):
        return False
    if slot in ("field", "pfield") and text in ("a", "id"):
        return False
    return True


def hostile_case(rng, site, dep, exc, slots=None, text=None, msg=None):
    """a fault case with hostile text in some of the names around it (and as the exception's own text)"""
    names = {}
    if slots is None:
        k = rng.choice([1, 1, 2, 3, len(_NAME_SLOTS)])
        slots = rng.sample(_NAME_SLOTS, k)
    for sl in slots:
        for _ in range(6):
            tx = text if (text is not None and sl == slots[0]) else rng.choice(HOSTILE)
            if _slot_ok(sl, tx, site):
                names[sl] = tx
                break
            text = None
    # the templates on the way must stay distinguishable (the fault is keyed on T's table name)
    tabs = [names.get(k, DEFAULT_NAMES[k]) for k in ("T", "P", "Q")]
    if len(set(tabs)) < 3:
        for i, k in enumerate(("T", "P", "Q")):
            if k in names:
                names[k] = names[k] + "#%d" % i
    nicks = [names.get(k) for k in ("Tn", "Pn", "Qn") if names.get(k)]
    if len(set(nicks)) < len(nicks):
        for i, k in enumerate(("Tn", "Pn", "Qn")):
            if names.get(k):
                names[k] = names[k] + "#%d" % i
    if names.get("field") and names.get("field") == names.get("pfield"):
        names["pfield"] += "#"
    if msg is None and not site.endswith("_compile") and rng.random() < 0.7:
        msg = rng.randrange(len(HOSTILE))
    return {"kind": "hostile", "site": site, "depth": dep, "exc": exc, "names": names, "msg": msg,
            "nth": rng.choice([1, 1, 2]) if site == "write_row" else 0}


def _valid_fault(site, dep, exc):
    if _fault_recipe(site, dep, "KeyError") is None:
        return False
    if exc == "StopIteration" and site.endswith("_simple"):
        return False                                   # Jinja's generator-based rendering absorbs StopIteration
    fixed = ("count_conv_simple", "count_conv_struct", "count_conv_inf", "foreach_noniter", "field_attr", "var_attr",
             "count_attr", "foreach_attr", "ctx_locale", "ctx_locale_var", "field_compile", "count_compile", "var_compile")
    return not (site in fixed and exc != "KeyError")


def hostile_cases(rng, tier):
    cases = []
    excs = FAULT_EXCS if tier == "thorough" else ["KeyError", "DGE", "AssertionError"]
    combos = [(s, d, e) for s in FAULT_SITES_V for d in FAULT_DEPTHS for e in excs if _valid_fault(s, d, e)]
    # every (site, depth, exception) with random hostile text ...
    for s, d, e in combos:
        for _ in range((2 if e == "KeyError" else 1) if tier == "quick" else 6):
            cases.append(hostile_case(rng, s, d, e))
    # ... every hostile text in every slot, at a site whose message is built from that slot ...
    on_path = {"T": ["count_attr", "count_call", "ctx_locale", "write_row", "foreach_attr", "count_conv_struct"],
               "Tn": ["count_attr", "count_call", "ctx_locale", "write_row", "foreach_attr"],
               "P": ["count_attr", "field_call"], "Pn": ["count_attr"], "Q": ["count_attr"], "Qn": ["count_attr"],
               "field": ["field_call", "field_attr", "field_simple", "field_compile", "field_arg"],
               "pfield": ["field_call", "count_attr"],
               "var": ["var_call", "var_attr", "var_simple", "var_compile", "ctx_locale_var"],
               "vt": ["count_attr", "field_call"], "fe": ["foreach_call", "foreach_noniter", "foreach_attr"],
               "fn": ["field_call", "count_call", "var_call", "foreach_call", "field_arg"],
               "defn": ["field_compile", "count_compile", "var_compile"],
               "cdef": ["count_conv_simple", "count_conv_struct"]}
    deps_for = {"P": ["friend", "nested", "friend_of_friend"], "Pn": ["friend", "nested", "friend_of_friend"],
                "Q": ["friend_of_friend"], "Qn": ["friend_of_friend"], "pfield": ["nested"], "vt": ["var_template"]}
    for sl in _NAME_SLOTS:
        for h in HOSTILE:
            if tier == "quick" and rng.random() < 0.5 and sl not in ("T", "Tn", "field", "var", "fn"):
                continue
            sites = [x for x in on_path[sl] if _slot_ok(sl, h, x)]
            if not sites:
                continue
            s = rng.choice(sites)
            deps = [d for d in deps_for.get(sl, FAULT_DEPTHS) if _valid_fault(s, d, "KeyError")]
            if not deps:
                continue
            d = rng.choice(deps)
            e = "KeyError" if not _valid_fault(s, d, "AttributeError") else rng.choice(["KeyError", "AttributeError", "ValueError"])
            cases.append(hostile_case(rng, s, d, e, slots=[sl], text=h))
    # ... and every hostile text as the text of the exception itself
    for i, h in enumerate(HOSTILE):
        for s in ("field_call", "field_simple", "var_call", "var_simple", "count_call", "count_simple", "foreach_call",
                  "write_row"):
            if tier == "quick" and rng.random() < 0.6:
                continue
            d = rng.choice([d for d in FAULT_DEPTHS if _valid_fault(s, d, "KeyError")])
            cases.append(hostile_case(rng, s, d, rng.choice(["ValueError", "DGE", "AssertionError", "KeyError"]),
                                      slots=[], msg=i))
    return cases


# ----------------------------------------------------------------- hostile text in static positions
def hostile_static_docs(rng, tier):
    """documents whose names (option, macro, plugin, file, function, reference target, keys) are hostile text and
    that are wrong (or right) in a way whose message quotes the name; compared with the model as documents"""
    out = []

    def add(label, doc):
        out.append({"kind": "doc", "tree": from_py(doc), "base": None, "label": "hostile-static:" + label})
    hs = [h for h in HOSTILE if h]
    pick = hs if tier == "thorough" else rng.sample(hs, 14) + ["{", "}", "{}", "{0}", "{x}", "%s", "%"]
    for h in pick:
        add("unknown-macro", [{"object": "A", "include": h}])
        add("macro-cycle", [{"macro": h, "include": h}, {"object": "A", "include": h}])
        add("macro-ok", [{"macro": h, "fields": {h: 1}}, {"object": "A", "include": h}])
        add("plugin-name", [{"plugin": h}, {"object": "A"}])
        add("plugin-dotted", [{"plugin": "harness." + h}, {"object": "A"}])
        add("option-no-default", [{"option": h}, {"object": "A"}])
        add("option-ok", [{"option": h, "default": h}, {"object": h, "fields": {h: "${{ 1 }}"}}])
        add("include-file-missing", [{"include_file": h}, {"object": "A"}])
        add("unknown-function", [{"object": "A", "fields": {"x": {h: 1}}}])
        add("unknown-function-kw", [{"object": "A", "fields": {"x": {h: {h: h}}}}])
        add("unknown-reference", [{"object": "A", "fields": {"x": {"reference": h}}}])
        add("unknown-random-reference", [{"object": "A", "fields": {"x": {"random_reference": h}}}])
        add("random-reference-ok", [{"object": h, "count": 2}, {"object": "B", "fields": {"x": {"random_reference": h}}}])
        add("random-reference-nickname", [{"object": "T", "nickname": h, "count": 2},
                                          {"object": "B", "fields": {"x": {"random_reference": {"to": h, "unique": True}}}}])
        add("unknown-top-key", [{h: 1}])
        add("unknown-template-key", [{"object": "A", h: 1}])
        add("bad-field-value", [{"object": h, "fields": {h: [1, 2]}}])
        add("bad-count", [{"object": h, "nickname": h, "count": "abc" + h}])
        add("count-and-for-each", [{"object": h, "count": 1, "for_each": {"var": h, "value": {"x": 1}}}])
        add("nested-just-once", [{"object": "A", "friends": [{"object": h, "just_once": True}]}])
        add("var-bad-value", [{"var": h, "value": 1.5}, {"var": h, "value": {h: []}}])
        add("names-ok", [{"var": h, "value": h}, {"object": h, "nickname": h + "n", "fields": {h: h, "r": {"reference": h + "n"}}}])
        add("two-categories", [{"object": h, "macro": h}])
        add("version", [{"snowfakery_version": h}, {"object": "A"}])
        add("friend-not-a-statement", [{"object": "A", "friends": [{h: h}]}])
        add("jinja-undefined", [{"object": "A", "fields": {h: "${{ nosuch_" + "".join(c for c in h if c.isalnum()) + " }}"}}])
    return out


HOSTILE_FILESETS = {
 "hostile_included_name_braces": {"main.yml": "- include_file: 'inc{x}.yml'\n- object: A\n", "inc{x}.yml": "- object: B\n"},
 "hostile_included_name_percent": {"main.yml": "- include_file: 'a%sb.yml'\n- object: A\n",
                                   "a%sb.yml": "- object: B\n  fields:\n    '': x\n"},
 "hostile_included_bad_yaml": {"main.yml": "- include_file: '{0}.yml'\n- object: A\n", "{0}.yml": "- object: 'B\n"},
 "hostile_included_unicode": {"main.yml": "- include_file: '名 前.yml'\n- object: A\n", "名 前.yml": "- object: B\n  bogus: 1\n"},
 "hostile_included_missing": {"main.yml": "- include_file: '{e}/{}.yml'\n- object: A\n"},
 "hostile_main_name_runtime": {"ma{in}.yml": "- object: A\n  count: abc\n", "_main": "ma{in}.yml"},
 "hostile_main_name_static": {"ma%(x)sin {0}.yml": "- object: A\n  bogus: 1\n", "_main": "ma%(x)sin {0}.yml"},
 "hostile_main_name_self_include": {"{}.yml": "- include_file: '{}.yml'\n- object: A\n", "_main": "{}.yml"},
 "hostile_include_cycle": {"main.yml": "- include_file: '{a}.yml'\n", "{a}.yml": "- include_file: '%s.yml'\n",
                           "%s.yml": "- include_file: '{a}.yml'\n"},
}


# ----------------------------------------------------------------- str.format and fix_exception, directly
_FMT_PIECES = ["{}", "{}", "{0}", "{1}", "{2}", "{e}", "{e}", "{x}", "{y}", "{{", "}}", "{", "}", "{e!r}", "{:>3}", "{0.real}",
               "{ }", "{e }", "{00}", "{-1}", "{1_0}", "{+1}", "{0}{}", "{}{0}", "{e[0]}", "{٣}", "{0000001}", "{12345678}",
               "{é}", "{{}}", "{{{}}}", "{{{e}}}", "}{", "{}}", "{{}", "{a b}", "{%}", "{\\}", "{'}"]
REAL_TEMPLATES = ["Cannot evaluate function `{}`:\n {e}", "Problem rendering field {}:\n {e}",
                  "Cannot evaluate variable `{}`:\n {e}", "Cannot parse value {}"]


def _arb_template(rng):
    n = rng.choice([0, 1, 1, 2, 2, 3, 4, 6])
    parts = []
    for _ in range(n):
        r = rng.random()
        if r < 0.55:
            parts.append(rng.choice(_FMT_PIECES))
        elif r < 0.8:
            parts.append(rng.choice(["a", " ", "Cannot generate ", " : ", "\n", "é", "%s", "x" * 20]))
        else:
            parts.append(rng.choice(HOSTILE))
    return "".join(parts)


def fmt_cases(rng, tier):
    out = []
    n = 350 if tier == "quick" else 4000
    for i in range(n):
        real = i % 5 == 0
        t = rng.choice(REAL_TEMPLATES) if real else _arb_template(rng)
        args = [rng.choice(HOSTILE) for _ in range(rng.choice([0, 1, 1, 1, 2, 3]) if not real else rng.choice([1, 1, 2]))]
        kw = {}
        if rng.random() < 0.3:
            kw[rng.choice(["x", "y", "a b", " ", "-1", "1_0"])] = rng.choice(HOSTILE)
        emsg = rng.choice(HOSTILE)
        if i % 2 == 0:
            out.append({"kind": "fmt", "template": t, "args": args, "kw": dict(kw, e=emsg)})
        else:
            if real and t == REAL_TEMPLATES[3]:
                d = rng.choice([h for h in HOSTILE if h]) + "${{"
                args = list(d)                       # *definition
            out.append({"kind": "fix", "template": t, "args": args, "emsg": emsg, "edge": rng.random() < 0.4})
    return out


# ----------------------------------------------------------------- documents with anchors (graphs), big documents
# place -> does the unchanged parser follow the references below it (parse, or print in a message)?
DAG_PLACES = {
    "option_default": False, "unused_macro_fields": False, "unused_macro_friends": False, "unknown_template_key": False,
    "object_name": False, "nickname": False, "fields_wrong_type": False, "friends_wrong_type": False,
    "count_wrong_type": False, "include_value": False, "just_once_value": False, "macro_unused_body_key": False,
    "second_option_default": False,
    "version_option_default": True,        # "snowfakery_version should be 2 or 3, not `{snowfakery_version}`"
    "field_value": True, "var_value": True, "friends": True, "count": True, "used_macro_fields": True,
    "top_element": True, "for_each_value": True, "function_args": True,
}


def _ladder(depth, width, kind):
    """level 0 = a small container, level i refers `width` times to level i-1 (kind list / dict / mixed), or to
    every earlier level (comb)"""
    cur = ["a", "b"] if kind != "dict" else {"p": 1, "q": 2}
    levels = [cur]
    for i in range(depth):
        if kind == "list":
            cur = [cur] * width
        elif kind == "dict":
            cur = {"k%d" % j: cur for j in range(width)}
        elif kind == "mixed":
            cur = [cur, {"x": cur, "y": levels[max(0, i - 1)]}] if i % 2 else {"x": cur, "y": [cur] * (width - 1)}
        else:
            cur = list(levels)
        levels.append(cur)
    return cur


def _random_graph(rng, n, cyclic):
    nodes = []
    scal = ["a", 1, None, True, 1.5, "x y", "${{ 1 }}", _dt.date(2020, 1, 1)]
    for i in range(n):
        k = rng.choice([0, 1, 2, 2, 3])
        kids = [rng.choice(nodes) if nodes and rng.random() < 0.7 else rng.choice(scal) for _ in range(k)]
        if rng.random() < 0.5:
            nodes.append(list(kids))
        else:
            keys = rng.sample(["object", "fields", "x", "y", "count", "to", "random_reference", "k1", "k2", 5], len(kids))
            nodes.append(dict(zip(keys, kids)))
    top = nodes[-1]
    if cyclic:
        # close a cycle: something the top reaches gets the top (or itself) as a member
        lists = [x for x in nodes if isinstance(x, list)]
        tgt = rng.choice(lists) if lists else None
        if tgt is None:
            top = [top]
            tgt = top
        tgt.append(rng.choice([top, tgt]))
        if tgt is not top:
            top = [top, tgt]
    return top


def _place(g, place, rng=None):
    as_list = g if isinstance(g, list) else [g]
    as_dict = g if isinstance(g, dict) else {"x": g}
    A = {"object": "A", "fields": {"name": "Acme"}}
    if place == "option_default":
        return [{"option": "o", "default": g}, A]
    if place == "second_option_default":
        return [{"option": "o", "default": 1}, {"option": "p", "default": {"deep": [g, g]}}, A]
    if place == "version_option_default":
        return [{"option": "snowfakery.standard_plugins.SnowfakeryVersion.snowfakery_version", "default": g}, A]
    if place == "unused_macro_fields":
        return [{"macro": "unused", "fields": as_dict}, A]
    if place == "unused_macro_friends":
        return [{"macro": "unused", "friends": as_list}, A]
    if place == "macro_unused_body_key":
        return [{"macro": "unused", "bogus": g}, A]
    if place == "unknown_template_key":
        return [dict(A, bogus=g)]
    if place == "object_name":
        return [{"object": g}]
    if place == "nickname":
        return [dict(A, nickname=g)]
    if place == "fields_wrong_type":
        return [{"object": "A", "fields": as_list}]
    if place == "friends_wrong_type":
        return [dict(A, friends=as_dict)]
    if place == "count_wrong_type":
        return [dict(A, count=as_list)]
    if place == "include_value":
        return [dict(A, include=g)]
    if place == "just_once_value":
        return [dict(A, just_once=g)]
    if place == "field_value":
        return [{"object": "A", "fields": {"x": g}}]
    if place == "function_args":
        return [{"object": "A", "fields": {"x": {"random_choice": g}}}]
    if place == "var_value":
        return [{"var": "v", "value": g}, A]
    if place == "friends":
        return [dict(A, friends=as_list)]
    if place == "count":
        return [dict(A, count=as_dict)]
    if place == "for_each_value":
        return [dict(A, for_each={"var": "r", "value": as_dict})]
    if place == "used_macro_fields":
        return [{"macro": "m", "fields": as_dict}, dict(A, include="m")]
    if place == "top_element":
        return [A, g]
    raise ValueError(place)


def _dump_graph(py):
    return yaml.safe_dump(py, sort_keys=False, allow_unicode=True, default_flow_style=False, width=1000)


def dag_cases(rng, tier):
    out = []

    def add(py, label, **kw):
        out.append(dict({"kind": "dag", "text": _dump_graph(py), "label": "dag:" + label}, **kw))
    safe = [p for p, unfolds in DAG_PLACES.items() if not unfolds]
    unf = [p for p, unfolds in DAG_PLACES.items() if unfolds]
    # ladders of growing depth and width where the unchanged parser does not follow the references:
    # a valid (or at once rejected) recipe however deep the sharing
    depths = [1, 2, 3, 5, 8, 12, 16, 20, 24, 32, 40, 64] if tier == "quick" else [1, 2, 3, 4, 5, 6, 8, 10, 12, 14, 16, 18, 20, 24, 28, 32, 40, 48, 64, 96]
    for d in depths:
        for kind in ("list", "dict", "mixed", "comb"):
            if kind == "comb" and d > 40:
                continue                              # (its text grows with the square of the depth)
            w = rng.choice([2, 2, 3, 4])
            places = safe if tier == "thorough" else rng.sample(safe, 3)
            for pl in places:
                add(_place(_ladder(d, w, kind), pl), f"ladder:{kind}:{pl}", place=pl, depth=d, width=w)
    # small ladders where the parser does follow them (the tree is small: the model builds it)
    for d in (1, 2, 3, 4, 5, 6):
        for kind in ("list", "dict", "mixed", "comb"):
            for pl in (unf if tier == "thorough" else rng.sample(unf, 3)):
                add(_place(_ladder(d, 2, kind), pl), f"ladder-followed:{kind}:{pl}", place=pl, depth=d, width=2)
    # shared parts used the ordinary way (valid recipes)
    shared_fields = {"name": "x", "n": 1}
    add([{"object": "A", "fields": shared_fields}, {"object": "B", "fields": shared_fields}], "shared-fields")
    tmpl = {"object": "C", "fields": {"v": 1}}
    add([{"object": "A", "friends": [tmpl, tmpl]}, tmpl], "shared-template")
    args = {"min": 1, "max": 5}
    add([{"object": "A", "fields": {"a": {"random_number": args}, "b": {"random_number": args}}}], "shared-arguments")
    # random graphs, acyclic and cyclic, anywhere
    for _ in range(60 if tier == "quick" else 1500):
        cyc = rng.random() < 0.35
        g = _random_graph(rng, rng.choice([3, 5, 8, 12, 18]), cyc)
        pl = rng.choice(safe + unf)
        try:
            add(_place(g, pl), f"random:{'cyclic' if cyc else 'acyclic'}:{pl}", place=pl)
        except (yaml.YAMLError, RecursionError, ValueError):
            pass
    return out


def dag_finding_witnesses(tier):
    """deep sharing where the parser follows the references: it takes as many steps as the TREE has nodes
    (KNOWN_FINDINGS C20-H2); one witness in quick, more in thorough"""
    w = [("list", "function_args"), ("dict", "field_value"), ("list", "top_element"), ("list", "var_value")]
    w = w[:1] if tier == "quick" else w             # [0] is the corpus witness
    return [{"kind": "dag", "text": _dump_graph(_place(_ladder(40, 3 if k == "dict" else 2, k), pl)),
             "label": f"dag:ladder-followed-deep:{k}:{pl}", "place": pl, "depth": 40, "width": 2} for k, pl in w]


BIG_SHAPES = {
    # shape -> sizes that must simply work, sizes beyond Python's recursion limit
    "nest_list_default": ([10, 40, 80], [600, 3000]),
    "nest_map_field": ([10, 40, 80], [600, 3000]),
    "nest_objects": ([5, 20, 40], [300, 1500]),
    "nest_friends": ([5, 20, 40], [300, 1500]),
    "macro_chain": ([5, 20, 40], [400]),
    "long_list_default": ([1000, 5000], []),
    "long_choice": ([1000, 3000], []),
    "many_statements": ([100, 500], []),
    "many_fields": ([300, 1000], []),
    "long_string": ([10000, 200000], []),
    "long_table_name": ([10000], []),
    "long_formula": ([50, 150, 400, 3000], []),
    "big_count_int": ([0, 3, 18, 30, 400, 5000], []),        # count: 10 ** n
    "big_count_str": ([3, 18, 30, 400], []),                 # count: '1' followed by n zeros
    "big_count_float": ([3, 18, 30, 308], []),               # count: 1e<n>
    "big_count_formula": ([3, 18, 30, 400], []),             # count: ${{ 10 ** n }}
    "negative_count": ([1, 30], []),
}


def big_text(shape, n):
    if shape == "nest_list_default":
        return "- option: o\n  default: " + "[" * n + "]" * n + "\n- object: A\n"
    if shape == "nest_map_field":
        return "- object: A\n  fields:\n    x: " + "{f: " * n + "1" + "}" * n + "\n"
    if shape == "nest_objects":
        return "- object: A\n  fields:\n    x: " + "{object: B, fields: {y: " * n + "1" + "}}" * n + "\n"
    if shape == "nest_friends":
        return "- object: A\n  friends: " + "[{object: B, friends: " * n + "[]" + "}]" * n + "\n"
    if shape == "macro_chain":
        return "".join(f"- macro: m{i}\n  include: m{i + 1}\n  fields:\n    f{i}: {i}\n" for i in range(n)) + \
            f"- macro: m{n}\n  fields:\n    last: 1\n- object: A\n  include: m0\n"
    if shape == "long_list_default":
        return "- option: o\n  default: [" + ", ".join(str(i) for i in range(n)) + "]\n- object: A\n"
    if shape == "long_choice":
        return "- object: A\n  fields:\n    x:\n      random_choice: [" + ", ".join(str(i) for i in range(n)) + "]\n"
    if shape == "many_statements":
        return "".join(f"- object: A{i}\n" for i in range(n))
    if shape == "many_fields":
        return "- object: A\n  fields:\n" + "".join(f"    f{i}: {i}\n" for i in range(n))
    if shape == "long_string":
        return "- object: A\n  fields:\n    x: '" + "x" * n + "'\n"
    if shape == "long_table_name":
        return "- object: " + "T" * n + "\n  count: abc\n"
    if shape == "long_formula":
        return "- object: A\n  fields:\n    x: ${{ " + " + ".join(["1"] * n) + " }}\n"
    if shape == "big_count_int":
        return "- object: A\n  count: 1" + "0" * n + "\n"
    if shape == "big_count_str":
        return "- object: A\n  count: '1" + "0" * n + "'\n"
    if shape == "big_count_float":
        return f"- object: A\n  count: 1.0e+{n}\n"
    if shape == "big_count_formula":
        return "- object: A\n  count: ${{ 10 ** %d }}\n" % n
    if shape == "negative_count":
        return "- object: A\n  count: -1" + "0" * n + "\n"
    raise ValueError(shape)


def big_cases(tier):
    out = []
    for shape, (ok, deep) in BIG_SHAPES.items():
        for n in ok + (deep if tier == "thorough" else deep[:1]):
            out.append({"kind": "big", "shape": shape, "n": n})
    return out


# ----------------------------------------------------------------- round 4: the same fault, later in a document
# A structural fault must be found whatever the parser has already seen: the edited seed is put behind (or in front
# of) valid statements of every kind, so that whatever the parser keeps between statements (tables keyed by element
# type, name, line ...) is warm when it meets the fault.  The names of the surrounding statements occur in no seed and
# in no replacement value, so they cannot repair a fault (an unknown macro / reference stays unknown).
_CTX = {
    "var_str": [{"var": "ctx_v1", "value": "hello"}],
    "var_int": [{"var": "ctx_v2", "value": 5}],
    "var_call": [{"var": "ctx_v3", "value": {"random_number": {"min": 1, "max": 2}}}],
    "var_list": [{"var": "ctx_v4", "value": [{"object": "CtxMade", "fields": {"a": 1}}]}],
    "object_plain": [{"object": "CtxPlain", "fields": {"name": "n", "n": 1}}],
    "object_full": [{"object": "CtxFull", "count": 2, "nickname": "ctx_full", "just_once": False, "update_key": "k",
                     "fields": {"k": 1, "c": {"random_choice": ["a", "b"]}},
                     "friends": [{"object": "CtxFriend", "nickname": "ctx_friend", "fields": {"p": {"reference": "CtxFull"}}}]}],
    "object_for_each": [{"plugin": "harness.c20_plugin.Boom"},
                        {"object": "CtxEach", "for_each": {"var": "ctx_r", "value": {"Boom.items": {"n": 2}}},
                         "fields": {"c": "${{ctx_r.City}}"}}],
    "object_nested": [{"object": "CtxOuter", "fields": {"child": [{"object": "CtxChild", "count": 1}],
                                                        "one": {"object": "CtxOne", "fields": {"z": 1}}},
                       "friends": [{"var": "ctx_fv", "value": 3}, {"object": "CtxKid", "count": "${{ctx_fv - 2}}"}]}],
    "macro_used": [{"macro": "ctx_m", "fields": {"mf": 1}, "friends": [{"object": "CtxMF"}]},
                   {"object": "CtxUsesMacro", "include": "ctx_m"}],
    "macro_unused": [{"macro": "ctx_unused", "fields": {"mf": 1}}],
    "macro_chain": [{"macro": "ctx_m1", "fields": {"a": 1}}, {"macro": "ctx_m2", "include": "ctx_m1", "fields": {"b": 2}},
                    {"object": "CtxChain", "include": "ctx_m2, ctx_m1"}],
    "option": [{"option": "ctx_opt", "default": 3}, {"object": "CtxOpt", "count": "${{ctx_opt - 2}}"}],
    "plugin": [{"plugin": "snowfakery.standard_plugins.Math"}, {"object": "CtxMath", "fields": {"r": "${{Math.sqrt(4)}}"}}],
    "include_file": [{"include_file": "examples/company.yml"}],
    "random_reference": [{"object": "CtxTarget", "count": 2},
                         {"object": "CtxRef", "fields": {"r": {"random_reference": "CtxTarget"},
                                                         "u": {"random_reference": {"to": "CtxTarget", "unique": True}}}}],
    "hidden": [{"object": "__CtxHidden", "nickname": "ctx_h", "fields": {"s": 1}},
               {"object": "CtxShown", "fields": {"__t": 1, "v": "${{ctx_h.s}}"}}],
    "just_once": [{"object": "CtxOnce", "just_once": True, "fields": {"n": 1}}],
}


def _ctx_all(order):
    """every kind of statement in one document; order: which of two statements that look alike is seen first"""
    names = ["var_str", "var_call", "var_list", "object_plain", "object_full", "object_for_each", "object_nested", "macro_used",
             "option", "plugin", "random_reference", "macro_unused", "just_once"]
    if order == "reversed":
        names = names[::-1]
    out, seen_plugins = [], set()
    for n in names:
        for st in _CTX[n]:
            if "plugin" in st:
                if st["plugin"] in seen_plugins:
                    continue
                seen_plugins.add(st["plugin"])
            out.append(st)
    return out


CTX_PREFIXES = dict(_CTX)
CTX_PREFIXES["all"] = _ctx_all("forward")
CTX_PREFIXES["all_reversed"] = _ctx_all("reversed")
CTX_POSITIONS = ["before", "after", "around"]

# the small alphabet of the context cases: one value per shape, delete / rename each key
_CTX_REPL = [i for i, v in enumerate(_py_alpha()) if any(v is w or (type(v) is type(w) and v == w) for w in (
    None, True, 5, 1.5, "", "x", _dt.date(2020, 1, 1), [], ["x"], [{"object": "B"}], {}, {"k": "v"}, {"object": "B"},
    {"var": "v", "value": 1}))]
_CTX_KEYS = [i for i, k in enumerate(KEYALPHA) if k in (["s", "x"], ["s", "value"], ["s", "object"], ["i", 5])]


def ctx_edit_descriptors(t):
    """the single edits used in context: below the root (the root stays a list of statements)"""
    out = []
    for path, node in positions(t):
        p = list(path)
        if not p:
            for i in range(len(node[1]) if node[0] == "l" else 0):
                out.append([p, "dupi", i])
            continue
        for ri in _CTX_REPL:
            if REPL[ri] != node:
                out.append([p, "rep", ri])
        if node[0] == "l":
            for i in range(len(node[1])):
                out.append([p, "del", i])
        elif node[0] == "m":
            keys = [kv[0] for kv in node[1]]
            for i in range(len(node[1])):
                out.append([p, "del", i])
                for ki in _CTX_KEYS:
                    if KEYALPHA[ki] not in keys:
                        out.append([p, "ren", [i, ki]])
            for i in range(len(node[1]) - 1):
                out.append([p, "swap", [i, i + 1]])
    return out


def ctx_tree(case):
    """-> (tree of the whole document, tree of the edited seed alone) or (None, None)"""
    s = seeds().get(case["seed"])
    if s is None or (case["prefix"] not in CTX_PREFIXES and case["prefix"] != "self"):
        return None, None
    t = s["tree"] if case.get("edit") is None else apply_edit(s["tree"], case["edit"])
    if t[0] != "l" or s["tree"][0] != "l":
        return None, None
    if case["prefix"] == "self":
        # the unchanged seed, then the edited one: the SAME names have been seen before (what is kept per name is warm);
        # here the first copy may define what the fault of the second lacks, so only the model (which knows the whole
        # document) says whether it must be rejected - the comparison with the document alone is not made
        pre = copy.deepcopy(s["tree"][1])
    else:
        pre = [from_py(x) for x in CTX_PREFIXES[case["prefix"]]]
    pos = case.get("pos", "before")
    if pos == "before":
        items = pre + t[1]
    elif pos == "after":
        items = t[1] + pre
    else:
        k = (len(pre) + 1) // 2
        items = pre[:k] + t[1] + pre[k:]
    # the first statement of every such document writes a row: a fault that is found only while the recipe runs is
    # then found after a row was written (the observable the property names)
    return ["l", [from_py({"object": "CtxFirst", "fields": {"a": 1}})] + items], t


def ctx_cases(rng, tier):
    sd = seeds()
    out = []
    minis = sorted(n for n in sd if n.startswith("m_"))
    others = sorted(n for n in sd if n.startswith("b_"))
    singles = sorted(_CTX)

    def add(seed, edit, prefix, pos):
        out.append({"kind": "ctx", "seed": seed, "edit": edit, "prefix": prefix, "pos": pos})
    for n in minis + others:
        for pre in sorted(CTX_PREFIXES):
            add(n, None, pre, rng.choice(CTX_POSITIONS))               # valid in valid surroundings
    for n in minis:
        ds = ctx_edit_descriptors(sd[n]["tree"])
        for i, d in enumerate(ds):
            # every edit of the tiny seeds behind everything (quick: one of the two orders, thorough: both) ...
            if tier != "quick" or i % 2 == 0:
                add(n, d, "all", "before")
            if tier != "quick" or i % 2 == 1:
                add(n, d, "all_reversed", "before")
            if tier == "quick" and i % 8 > 1:
                out[-1]["model"] = False              # (the long documents: the model reads a quarter of them in quick)
            # ... and next to one kind of statement
            for _ in range(1 if tier == "quick" else 6):
                add(n, d, rng.choice(singles), rng.choice(["before", "before", "after", "around"]))
    selfs = [(n, d) for n in minis for d in ctx_edit_descriptors(sd[n]["tree"])]
    for n, d in (rng.sample(selfs, 250) if tier == "quick" else selfs):
        add(n, d, "self", rng.choice(["before", "before", "after"]))
    budget = 300 if tier == "quick" else 20000
    pool = [(n, d) for n in others for d in ctx_edit_descriptors(sd[n]["tree"])]
    for n, d in rng.sample(pool, min(budget, len(pool))):
        add(n, d, rng.choice(["all", "all_reversed"] + singles), rng.choice(["before", "before", "after", "around"]))
    return out


# ----------------------------------------------------------------- round 4: sources that are empty or used up
# Every run must END: with rows, or with a DataGenError.  The sources below have nothing to give (a dataset without
# rows, an empty choice, an empty range, a table without rows to refer to) or run out while rows are still wanted.
EMPTY_CSV = {
    "header_only": "Number,Street,City\n",
    "header_no_newline": "Number,Street,City",
    "zero_bytes": "",
    "newline_only": "\n",
    "blank_lines": "\n\n\n",
    "header_blank_lines": "Number,Street,City\n\n\n",
    "bom_only": "\ufeff",
    "bom_header": "\ufeffNumber,Street,City\n",
    "crlf_header": "Number,Street,City\r\n",
    "spaces_only": "   \n",
    "one_row": "Number,Street,City\n1,Main,Town\n",
    "two_rows": "Number,Street,City\n1,Main,Town\n2,Side,Ville\n",
}
EMPTY_SQL = {
    "sql_empty_table": ["CREATE TABLE t (Number, Street, City)"],
    "sql_empty_view": ["CREATE TABLE u (Number, Street, City)", "INSERT INTO u VALUES (1, 'Main', 'Town')", "DROP TABLE IF EXISTS t",
                       "CREATE VIEW t AS SELECT * FROM u WHERE Number > 5"],
    "sql_one_row": ["CREATE TABLE t (Number, Street, City)", "INSERT INTO t VALUES (1, 'Main', 'Town')"],
    "sql_no_tables": [],
}
DATASET_PLUGIN = "snowfakery.standard_plugins.datasets.Dataset"


def _empty_sources():
    """label -> (plugins, statements before, value, files, record?)  record: the value has a .City"""
    out = {}
    for name, text in EMPTY_CSV.items():
        for mode in ("iterate", "shuffle"):
            for rep in (None, True, False):
                args = {"dataset": "data.csv"}
                if rep is not None:
                    args["repeat"] = rep
                out[f"csv:{name}:{mode}:repeat={rep}"] = ([DATASET_PLUGIN], [], {"Dataset." + mode: args}, {"data.csv": text}, True)
    for name, stmts in EMPTY_SQL.items():
        for mode in ("iterate", "shuffle"):
            for rep in (None, False):
                args = {"dataset": "sqlite:///data.db", "table": "t"}
                if name == "sql_no_tables":
                    del args["table"]
                if rep is not None:
                    args["repeat"] = rep
                out[f"{name}:{mode}:repeat={rep}"] = ([DATASET_PLUGIN], [], {"Dataset." + mode: args}, {"data.db": {"sqlite": stmts}}, True)
    boom = "harness.c20_plugin.Boom"
    for n in (0, 1, 2):
        for rep in (True, False):
            out[f"plugin_iterator:n={n}:repeat={rep}"] = ([boom], [], {"Boom.items": {"n": n, "repeat": rep}}, {}, True)
    plain = {
        "random_choice:empty_list": {"random_choice": []},
        "random_choice:empty_map": {"random_choice": {}},
        "random_choice:zero_weights": {"random_choice": {"a": "0%", "b": "0%"}},
        "random_choice:zero_weight_choices": {"random_choice": [{"choice": {"probability": 0, "pick": "a"}}]},
        "random_choice:null": {"random_choice": None},
        "random_number:min_above_max": {"random_number": {"min": 5, "max": 1}},
        "random_number:zero_length": {"random_number": {"min": 3, "max": 3}},
        "random_number:step_zero": {"random_number": {"min": 1, "max": 10, "step": 0}},
        "random_number:step_beyond": {"random_number": {"min": 1, "max": 2, "step": 5}},
        "random_number:step_negative": {"random_number": {"min": 1, "max": 10, "step": -1}},
        "date_between:backwards": {"date_between": {"start_date": _dt.date(2022, 1, 1), "end_date": _dt.date(2020, 1, 1)}},
        "date_between:same_day": {"date_between": {"start_date": _dt.date(2022, 1, 1), "end_date": _dt.date(2022, 1, 1)}},
        "datetime_between:backwards": {"datetime_between": {"start_date": "2022-01-01 10:00:00", "end_date": "2020-01-01 10:00:00"}},
        "datetime_between:same": {"datetime_between": {"start_date": "2022-01-01 10:00:00", "end_date": "2022-01-01 10:00:00"}},
        "if:empty": {"if": []},
        "if:nothing_true": {"if": [{"choice": {"when": "${{ 1 > 2 }}", "pick": "a"}}]},
        "fake:text_zero": {"fake.text": {"max_nb_chars": 0}},
        "empty_string": "",
        "formula_empty": "${{ [] | first }}",
        "formula_range_empty": "${{ range(0) | list | random }}",
    }
    for k, v in plain.items():
        out[k] = ([], [], v, {}, False)
    P = "snowfakery.standard_plugins."
    out["counter:step_zero"] = ([P + "Counters"], [], {"Counters.NumberCounter": {"start": 1, "step": 0}}, {}, False)
    out["date_counter:step_zero"] = ([P + "Counters"], [], {"Counters.DateCounter": {"start_date": "2020-01-01", "step": "+0d"}}, {}, False)
    for lab, args in {"count_zero": {"start_date": "2020-01-01", "freq": "daily", "count": 0},
                      "interval_zero": {"start_date": "2020-01-01", "freq": "daily", "interval": 0},
                      "until_before_start": {"start_date": "2020-01-01", "freq": "daily", "until": "2019-01-01"},
                      "count_one": {"start_date": "2020-01-01", "freq": "weekly", "count": 1}}.items():
        # (a rule that no day satisfies - 31 February - makes dateutil search up to the year 9999: seconds of CPU, its own
        # affair; not among the sources)
        out["schedule:" + lab] = ([P + "Schedule"], [], {"Schedule.Event": args}, {}, False)
    out["unique_id:empty_alphabet"] = ([P + "UniqueId"], [], {"UniqueId.AlphaCodeGenerator": {"alphabet": ""}}, {}, False)
    out["unique_id:one_letter_alphabet"] = ([P + "UniqueId"], [], {"UniqueId.AlphaCodeGenerator": {"alphabet": "a"}}, {}, False)
    out["unique_id:min_chars_zero"] = ([P + "UniqueId"], [], {"UniqueId.AlphaCodeGenerator": {"min_chars": 0}}, {}, False)
    out["unique_id:empty_template"] = ([P + "UniqueId"], [], {"UniqueId.NumericIdGenerator": {"template": ""}}, {}, False)
    out["file:zero_bytes"] = ([P + "file.File"], [], {"File.file_data": {"file": "nothing.txt"}}, {"nothing.txt": ""}, False)
    out["base64:empty"] = ([P + "base64.Base64"], [], {"Base64.encode": {"data": ""}}, {}, False)
    out["math:min_of_nothing"] = ([P + "Math"], [], "${{ Math.min() }}", {}, False)
    # tables without rows to refer to / fewer rows than wanted
    out["random_reference:count_zero"] = ([], [{"object": "Zero", "count": 0}], {"random_reference": "Zero"}, {}, False)
    out["random_reference:count_zero_unique"] = ([], [{"object": "Zero", "count": 0}], {"random_reference": {"to": "Zero", "unique": True}}, {}, False)
    out["random_reference:unique_used_up"] = ([], [{"object": "One", "count": 1}], {"random_reference": {"to": "One", "unique": True}}, {}, False)
    out["random_reference:nickname_count_zero"] = ([], [{"object": "Zero", "nickname": "zz", "count": 0}], {"random_reference": "zz"}, {}, False)
    out["random_reference:for_each_empty"] = ([boom], [{"object": "Zero", "for_each": {"var": "q", "value": {"Boom.items": {"n": 0}}}}],
                                              {"random_reference": "Zero"}, {}, False)
    out["reference:count_zero"] = ([], [{"object": "Zero", "count": 0}], {"reference": "Zero"}, {}, False)
    out["reference:nickname_count_zero"] = ([], [{"object": "Zero", "nickname": "zz", "count": 0}], {"reference": "zz"}, {}, False)
    out["nested:count_zero"] = ([], [], {"object": "Inner", "count": 0}, {}, False)
    out["nested_list:count_zero"] = ([], [], [{"object": "Inner", "count": 0}], {}, False)
    return out


EMPTY_USES = ["field", "hidden_then_formula", "var_then_formula", "var_next", "for_each", "friend_field", "nested_field", "argument",
              "count", "friend_for_each", "second_use"]


def _empty_recipe(src, use, count):
    plugins, before, value, files, record = src
    attr = ".City" if record else ""
    stmts = [{"plugin": p} for p in plugins] + copy.deepcopy(before)
    value = copy.deepcopy(value)
    main = {"object": "Main", "count": count}
    if use == "field":
        main["fields"] = {"x": value}
    elif use == "hidden_then_formula":
        main["fields"] = {"__r": value, "y": "${{ __r%s }}" % attr}
    elif use == "var_then_formula":
        stmts.append({"var": "v", "value": value})
        main["fields"] = {"y": "${{ v%s }}" % attr}
    elif use == "var_next":
        stmts.append({"var": "v", "value": value})
        main["fields"] = {"y": "${{ v.next%s }}" % attr}
    elif use == "for_each":
        del main["count"]
        main["for_each"] = {"var": "r", "value": value}
        main["fields"] = {"y": "${{ r%s }}" % attr}
    elif use == "friend_field":
        main["fields"] = {"a": 1}
        main["friends"] = [{"object": "Friend", "count": 2, "fields": {"x": value}}]
    elif use == "friend_for_each":
        main["fields"] = {"a": 1}
        main["friends"] = [{"object": "Friend", "for_each": {"var": "r", "value": value}, "fields": {"y": "${{ r%s }}" % attr}}]
    elif use == "nested_field":
        main["fields"] = {"c": {"object": "Child", "fields": {"x": value}}}
    elif use == "argument":
        main["fields"] = {"x": {"random_choice": [value, value]}}
    elif use == "count":
        main["count"] = value
        main["fields"] = {"a": 1}
    elif use == "second_use":
        main["fields"] = {"x": value, "z": copy.deepcopy(value)}
        stmts.append(main)
        main = {"object": "Again", "count": count, "fields": {"x": copy.deepcopy(value)}}
    else:
        raise ValueError(use)
    # a template before it that writes rows: what is reported late is seen as rows written before the error
    return [{"object": "Before", "fields": {"a": 1}}] + stmts + [main], files


def empty_cases(rng, tier):
    srcs = _empty_sources()
    combos = [(s, u) for s in srcs for u in EMPTY_USES]
    if tier == "quick":
        # every source in one way of using it, every way of using with some source, and a sample of the rest
        pick = [(s, rng.choice(EMPTY_USES)) for s in srcs] + [(rng.choice(sorted(srcs)), u) for u in EMPTY_USES]
        pick += rng.sample(combos, 120)
    else:
        pick = combos
    out = []
    for s, u in pick:
        doc, files = _empty_recipe(srcs[s], u, rng.choice([1, 2, 3, 3]))
        fs = dict(files)
        fs["main.yml"] = yaml.safe_dump(doc, sort_keys=False, allow_unicode=True, width=1000)
        out.append({"kind": "empty", "files": fs, "main": "main.yml", "source": s, "use": u, "label": f"empty:{s}:{u}"})
    return out


# ----------------------------------------------------------------- round 5: the other entry modes of the public API
# The same documents offered the other ways the API offers: update mode (generate_data(update_input_file=...) /
# --update-input-file: the recipe is rewritten around a CSV input by build_update_recipe) and a run continued from the
# continuation file of an earlier run of the same recipe (generate_continuation_file= / continuation_file=, as text,
# as paths, through the command line).  The oracle is the property's, unchanged: rows or a DataGenError with a message,
# never another exception, never a hang, a fault found before execution leaves no row.
MODE_CSV = {
    "two_rows": "id,Name,Number\n1,Alpha,5\n2,Beta,6\n",
    "one_row": "id,Name\n7,Gamma\n",
    "header_only": "id,Name\n",
    "no_id_column": "Name,City\nAlpha,Town\n",
    "zero_bytes": "",
    "bom_crlf": "\ufeffid,Name\r\n1,Alpha\r\n2,Beta\r\n",
    "ragged": "id,Name\n1\n2,Beta,extra\n",
}
MODE_PASSTHROUGH = [[], [], ["id"], ["id", "Name"], ["Name"], ["Missing"], ["Name", "Name"], ["a b"], [""]]
MODE_VIAS = ["text", "path", "cli"]
NO_FUNCTIONS_PLUGIN = "snowfakery.plugins.SnowfakeryPlugin"


def _mode_docs():
    """label -> document (Python structure, or text): every mix of top-level statements - none at all, declarations
    only, one / several templates, hidden tables, nicknames, rows made only through variables"""
    O = "snowfakery.standard_plugins.SnowfakeryVersion.snowfakery_version"
    opt = {"option": "mode_o", "default": 2}
    mac = {"macro": "mode_m", "fields": {"city": "Burnaby"}}
    plug = {"plugin": "snowfakery.standard_plugins.Math"}
    ver = {"snowfakery_version": 3}
    A = {"object": "A", "fields": {"name": "n"}}
    B = {"object": "B", "fields": {"x": 1}}
    H = {"object": "__H", "fields": {"x": 1}}
    Hn = {"object": "__H", "nickname": "hn", "fields": {"x": 1}}
    An = {"object": "A", "nickname": "an", "fields": {"name": "n"}}
    vtmpl = {"var": "acct", "value": [{"object": "Account", "fields": {"Name": "Acme"}}]}
    vone = {"var": "one", "value": {"object": "Single", "nickname": "sn", "fields": {"a": 1}}}
    d = {
        "empty_list": [],
        "text:empty": "",
        "text:null": "null\n",
        "text:empty_map": "{}\n",
        "text:comment_only": "# nothing\n",
        "only_option": [opt],
        "only_required_option": [{"option": "mode_required"}],
        "only_macro": [mac],
        "only_version": [ver],
        "only_version_2": [{"snowfakery_version": 2}],
        "only_version_option": [{"option": O, "default": 3}],
        "only_plugin": [plug],
        "only_plugin_without_functions": [{"plugin": NO_FUNCTIONS_PLUGIN}],
        "only_include_file_of_macros": [{"include_file": "tests/child.yml"}],
        "only_declarations": [ver, opt, mac, plug],
        "two_macros": [mac, {"macro": "mode_m2", "include": "mode_m", "friends": [dict(B)]}],
        "one_object": [A],
        "one_object_bare": [{"object": "A"}],
        "one_object_input": [{"object": "A", "fields": {"Name": "${{input.Name}} x", "n": "${{input.id}}"}}],
        "one_object_input_missing": [{"object": "A", "fields": {"Name": "${{input.Nope}}"}}],
        "one_object_nickname": [An],
        "one_object_hidden": [H],
        "one_object_hidden_nickname": [Hn],
        "one_object_hidden_fields": [{"object": "A", "fields": {"__h": 1, "v": "${{__h}}"}}],
        "one_object_count": [dict(A, count=2)],
        "one_object_count_zero": [dict(A, count=0)],
        "one_object_count_formula": [dict(A, count="${{1 + 1}}")],
        "one_object_for_each": [{"plugin": "harness.c20_plugin.Boom"},
                                dict(A, for_each={"var": "r", "value": {"Boom.items": {"n": 2}}})],
        "one_object_just_once": [dict(A, just_once=True)],
        "one_object_just_once_nickname": [dict(An, just_once=True)],
        "one_object_update_key": [dict(A, update_key="name")],
        "one_object_friends": [dict(A, friends=[dict(B), {"object": "C", "nickname": "cn", "fields": {"r": {"reference": "A"}}}])],
        "one_object_nested": [{"object": "A", "fields": {"c": {"object": "C", "fields": {"z": 1}}, "l": [dict(B)]}}],
        "one_object_macro": [mac, dict(B, include="mode_m")],
        "one_object_declarations": [ver, opt, plug, dict(A, fields={"r": "${{Math.sqrt(4)}}", "o": "${{mode_o}}"})],
        "one_object_self_reference": [{"object": "A", "fields": {"r": {"random_reference": "A"}}}],
        "one_object_reference_unknown": [{"object": "A", "fields": {"r": {"reference": "Nowhere"}}}],
        "one_object_random_reference_unknown": [{"object": "A", "fields": {"r": {"random_reference": "Nowhere"}}}],
        "one_object_plugin_without_functions": [{"plugin": NO_FUNCTIONS_PLUGIN}, A],
        "one_object_id_field": [{"object": "A", "fields": {"id": 5}}],
        "one_var": [{"var": "v", "value": 1}],
        "one_var_formula": [{"var": "v", "value": "${{1 + 1}}"}],
        "one_var_template": [vtmpl],
        "one_var_template_unwrapped": [vone],
        "only_vars": [{"var": "a", "value": 1}, {"var": "b", "value": "${{a + 1}}"}],
        "only_vars_and_option": [{"option": "greeting", "default": "hello"}, {"var": "text", "value": "${{greeting}} world"}],
        "rows_through_variables": [vtmpl, {"var": "acct_name", "value": "${{acct.Name}}"}],
        "rows_through_variables_nickname": [vone, {"var": "w", "value": "${{one.a}}"}],
        "rows_through_variables_nested": [{"var": "outer", "value": {"object": "Outer", "fields": {
            "in": {"object": "Inner", "nickname": "inn", "fields": {"q": 1}}}, "friends": [dict(B)]}}],
        "rows_through_variables_hidden": [{"var": "hv", "value": [{"object": "__Hid", "nickname": "hid", "fields": {"s": 1}}]}],
        "var_then_object": [{"var": "v", "value": 1}, dict(A, fields={"n": "${{v}}"})],
        "object_then_var": [A, {"var": "v", "value": 1}],
        "two_objects": [A, B],
        "two_objects_same_table": [A, dict(A)],
        "two_objects_nicknames": [An, {"object": "B", "nickname": "bn", "fields": {"r": {"reference": "an"}}}],
        "two_objects_case_twins": [{"object": "A", "count": 2}, {"object": "a", "count": 2},
                                   {"object": "R", "fields": {"x": {"random_reference": "A"}, "y": {"random_reference": "a"}}}],
        "object_and_hidden": [A, H],
        "hidden_and_object": [Hn, dict(A, fields={"v": "${{hn.x}}"})],
        "two_hidden": [H, {"object": "__G", "nickname": "g"}],
        "three_objects_random_reference": [dict(A, count=2), B, {"object": "R", "fields": {
            "r": {"random_reference": "A"}, "u": {"random_reference": {"to": "A", "unique": True}}}}],
        "just_once_and_object": [dict(An, just_once=True), {"object": "B", "fields": {"r": {"reference": "an"}}}],
        "just_once_hidden_and_object": [dict(Hn, just_once=True), {"object": "B", "fields": {"r": "${{hn.x}}"}}],
        "nickname_in_friend_only": [dict(A, friends=[{"object": "F", "nickname": "fn"}])],
        "object_fault_static": [{"object": "A", "fieldz": {}}],
        "object_fault_runtime": [A, {"object": "B", "fields": {"x": "${{ 1 / 0 }}"}}],
        "declarations_fault_static": [opt, {"macro": 5}],
    }
    return d


def _doc_text(doc):
    return doc if isinstance(doc, str) else yaml.safe_dump(doc, sort_keys=False, allow_unicode=True, width=1000)


def mode_cases(rng, tier):
    sd = seeds()
    out = []

    def add(inner, mode, via=None, csv=None, pas=None, label=None):
        c = {"kind": "mode", "mode": mode, "via": via or rng.choice(MODE_VIAS), "inner": inner}
        if mode == "update":
            c["csv"] = csv or rng.choice(sorted(MODE_CSV))
            c["pass"] = list(rng.choice(MODE_PASSTHROUGH) if pas is None else pas)
        c["label"] = label or f"mode:{mode}:{c['via']}"
        out.append(c)
    docs = _mode_docs()
    for name in sorted(docs):
        inner = {"kind": "text", "text": _doc_text(docs[name]), "label": "modedoc:" + name}
        plain = True
        for via in MODE_VIAS:
            # update mode: without and with passthrough fields; every way in
            c0 = len(out)
            add(inner, "update", via, "two_rows", [], f"mode:update:{name}")
            add(inner, "update", via, "two_rows" if via != "cli" else "one_row", ["id", "Name"], f"mode:update:{name}")
            add(inner, "update", via, None, None, f"mode:update:{name}")
            add(inner, "continue", via, label=f"mode:continue:{name}")
            for c in out[c0:]:
                c["doc"] = name
                c["plain"] = plain
    minis = sorted(n for n in sd if n.startswith("m_"))
    others = sorted(n for n in sd if not n.startswith("m_"))
    # the unchanged seeds: both modes
    for n in minis + others:
        inner = {"kind": "edit", "seed": n, "edit": None}
        add(inner, "continue")
        add(inner, "update")
    # single edits of the tiny seeds
    pool = [(n, d) for n in minis for d in edit_descriptors(sd[n]["tree"])]
    take = pool if tier != "quick" else rng.sample(pool, min(len(pool), 420))
    for n, d in take:
        add({"kind": "edit", "seed": n, "edit": d}, rng.choice(["update", "update", "continue"]))
    # single edits of the other seeds (deleting / replacing a statement changes the statement mix)
    pool = [(n, d) for n in others if n.startswith("b_") for d in edit_descriptors(sd[n]["tree"])]
    for n, d in rng.sample(pool, min(len(pool), 150 if tier == "quick" else 6000)):
        add({"kind": "edit", "seed": n, "edit": d}, rng.choice(["update", "continue", "continue"]))
    # the documents in company (valid statements of every kind around a seed / an edited seed)
    ctx = [c for c in ctx_cases(rng, "quick") if c["prefix"] != "self"]
    valid = [c for c in ctx if c.get("edit") is None]
    for c in (valid if tier != "quick" else rng.sample(valid, min(len(valid), 90))):
        add({k: v for k, v in c.items() if k != "model"}, rng.choice(["continue", "continue", "update"]))
    edited = [c for c in ctx if c.get("edit") is not None]
    for c in rng.sample(edited, min(len(edited), 120 if tier == "quick" else 3000)):
        add({k: v for k, v in c.items() if k != "model"}, rng.choice(["continue", "update"]))
    # random documents
    for _ in range(60 if tier == "quick" else 3000):
        add({"kind": "doc", "tree": arb_tree(rng), "base": None, "label": "arb"}, rng.choice(["update", "continue"]))
    return out


# =============================================================================== generation
def generate(rng, tier):
    cases = []
    sd = seeds()
    # texts and boundary documents always
    for name, text in TEXTS.items():
        cases.append({"kind": "text", "text": text, "label": "text:" + name})
    for name, fs in FILESETS.items():
        cases.append({"kind": "files", "files": fs, "main": "main.yml", "label": "files:" + name})
    for _ in range(60 if tier == "quick" else 2500):
        cases.append(gen_fileset(rng))
    cases.extend(macro_graph_cases(rng, tier))
    for v in VERSION_DEFAULTS:
        for where in ("default", "both"):
            doc = [{"option": "snowfakery.standard_plugins.SnowfakeryVersion.snowfakery_version", "default": v},
                   {"object": "A"}]
            if where == "both":
                doc.insert(0, {"snowfakery_version": 3})
            cases.append({"kind": "doc", "tree": from_py(doc), "base": None, "label": "version-option"})
    for name in sd:
        cases.append({"kind": "edit", "seed": name, "edit": None})      # the unchanged seed
    for site in FAULT_SITES:
        for dep in FAULT_DEPTHS:
            for exc in (FAULT_EXCS if tier == "thorough" else ["KeyError", "ValueError", "OverflowError", "DGE", "TypeError"]):
                if _fault_recipe(site, dep, exc) is not None:
                    if exc == "StopIteration" and site.endswith("_simple"):
                        continue        # Jinja's generator-based rendering absorbs StopIteration
                    if site in ("count_conv_simple", "count_conv_struct", "count_conv_inf", "foreach_noniter",
                                "field_attr", "var_attr", "count_attr", "foreach_attr") and exc != "KeyError":
                        continue
                    cases.append({"kind": "fault", "site": site, "depth": dep, "exc": exc,
                                  "nth": rng.choice([1, 1, 2]) if site == "write_row" else 0})
    n_arb = 300 if tier == "quick" else 12000
    for _ in range(n_arb):
        cases.append({"kind": "doc", "tree": arb_tree(rng), "base": None, "label": "arb"})
    # round 3: hostile text in every name / message position, str.format itself, documents with anchors, big documents
    # (the witnesses of the open findings are corpus cases: corpus/C20/known_findings.json; more of them in thorough)
    witnesses = dag_finding_witnesses(tier)[1:]
    cases[:0] = witnesses[:1]                      # (cases that run into the time limit: start them early)
    for name, fs in HOSTILE_FILESETS.items():
        fs = dict(fs)
        main = fs.pop("_main", "main.yml")
        cases.append({"kind": "files", "files": fs, "main": main, "label": "files:" + name})
    cases.extend(hostile_cases(rng, tier))
    cases.extend(hostile_static_docs(rng, tier))
    cases.extend(fmt_cases(rng, tier))
    cases.extend(big_cases(tier))
    # spread the documents with anchors (and the witnesses that run into the time limit) over the whole list, so
    # that, should many of them be slow, they are not all handed to the same worker
    spread = dag_cases(rng, tier) + witnesses[1:]
    step = max(1, len(cases) // (len(spread) + 1))
    for i, c in enumerate(spread):
        cases.insert(min(len(cases), (i + 1) * step + i), c)
    for n in sorted(MINI):
        cases.extend({"kind": "edit", "seed": n, "edit": d} for d in edit_descriptors(sd[n]["tree"]))
    names = sorted((n for n in sd if not n.startswith("m_")), key=lambda n: (not n.startswith("b_"), sd[n]["nodes"], n))
    if tier == "quick":
        budget = 900
        descs = {n: edit_descriptors(sd[n]["tree"]) for n in names}
        builtin = [n for n in names if n.startswith("b_")]
        files = [n for n in names if not n.startswith("b_")]
        byop = {n: {} for n in names}
        for n in names:
            for d in descs[n]:
                byop[n].setdefault(d[1], []).append(d)
        for i in range(budget):
            pool = builtin if (i % 3 != 2 or not files) else files
            n = rng.choice(pool)
            # half of the sample uniform over edits (mostly replacements / renames), half uniform over operators
            d = rng.choice(descs[n]) if i % 2 == 0 else rng.choice(byop[n][rng.choice(sorted(byop[n]))])
            cases.append({"kind": "edit", "seed": n, "edit": d})
    else:
        budget = 105000
        used = 0
        for n in names:
            ds = edit_descriptors(sd[n]["tree"])
            if n.startswith("b_") or used + len(ds) <= budget:
                take = ds
            else:
                room = max(0, min(len(ds), (budget - used)))
                take = rng.sample(ds, min(len(ds), max(room, 300)))
            used += len(take)
            cases.extend({"kind": "edit", "seed": n, "edit": d} for d in take)
    # round 4: sources that are empty / used up; the single edits in the company of valid statements of every kind
    # (a generator of their own, derived from the state of the run's: the cases above stay what they were)
    rng4 = random.Random("r4:" + ",".join(str(x) for x in rng.getstate()[1][:8]))
    cases.extend(empty_cases(rng4, tier))
    cases.extend(ctx_cases(rng4, tier))
    # round 5: the documents through the other entry modes (update mode, a run continued from a continuation file)
    rng5 = random.Random("r5:" + ",".join(str(x) for x in rng.getstate()[1][:8]))
    cases.extend(mode_cases(rng5, tier))
    return cases


def materialise(case):
    """-> (text, base) for the implementation"""
    k = case["kind"]
    if k == "mode":
        return materialise(case["inner"])
    if k == "text":
        return case["text"], case.get("base")
    if k == "doc":
        return dump(case["tree"]), case.get("base")
    if k == "edit":
        s = seeds().get(case["seed"])
        if s is None:
            return None, None
        t = s["tree"] if case.get("edit") is None else apply_edit(s["tree"], case["edit"])
        return dump(t), s["base"]
    if k == "ctx":
        t, _ = ctx_tree(case)
        return (dump(t), None) if t is not None else (None, None)
    if k == "fault":
        return yaml.safe_dump(_fault_recipe(case["site"], case["depth"], case["exc"]), sort_keys=False), None
    if k == "hostile":
        return yaml.safe_dump(_fault_recipe(case["site"], case["depth"], case["exc"], case.get("names"), case.get("msg")),
                              sort_keys=False, allow_unicode=True, width=1000), None
    if k == "dag":
        return case["text"], None
    if k == "big":
        return big_text(case["shape"], case["n"]), None
    if k in ("files", "empty"):
        return case["files"][case["main"]], None       # run_impl writes the files and supplies the base
    raise ValueError(k)


# =============================================================================== implementation side
class _Enough(BaseException):
    pass


def _site(e):
    tb = traceback.extract_tb(e.__traceback__)
    pkg = str((REPO / "snowfakery").resolve()) + os.sep
    frames = [f for f in tb if str(Path(f.filename).resolve()).startswith(pkg)]
    if not frames:
        return "?"
    if any(f.name == "yaml_safe_load_with_line_numbers" for f in frames):
        return "parse_recipe_yaml.py:yaml_safe_load_with_line_numbers"
    f = frames[-1]
    return f"{os.path.basename(f.filename)}:{f.name}"


class _NamedIO(io.StringIO):
    name = None


def _classify_plugin(name, search):
    """What importlib makes of a dotted plugin name (the part of resolve_plugin that is not Snowfakery's)."""
    from importlib import import_module
    from snowfakery import plugins as P
    from faker.providers import BaseProvider
    prefix, cls_name = name.rsplit(".", 1)
    with P.plugin_path(search):
        for testname in [name + "." + cls_name, name]:
            mod_name, cn = testname.rsplit(".", 1)
            try:
                module = import_module(mod_name)
            except ModuleNotFoundError:
                continue
            except BaseException as e:
                if type(e).__name__ == "_CaseTimeout":
                    raise
                return "crash:" + type(e).__name__ + ":plugins.py:resolve_plugin_alternatives"
            if hasattr(module, cn):
                cls = getattr(module, cn)
                if not cls:
                    return "missing"
                if not isinstance(cls, type):
                    return "notplugin"
                if issubclass(cls, BaseProvider):
                    return "faker"
                a, b = issubclass(cls, P.SnowfakeryPlugin), issubclass(cls, P.ParserMacroPlugin)
                if a and not hasattr(cls, "Functions") and \
                        getattr(cls, "custom_functions", None) is getattr(P.SnowfakeryPlugin, "custom_functions", None):
                    return "notplugin"            # no function library to offer: a type error of the declaration
                if b:
                    return "parser"
                if a:
                    return "plugin"
                return "notplugin"
    return "missing"


def _load_err(e):
    if isinstance(e, yaml.YAMLError):
        return "marked" if getattr(e, "problem_mark", None) is not None else "unmarked"
    if isinstance(e, ValueError):
        return "valueerror"
    return "exc:" + type(e).__name__


def _environment(py, base):
    """files / plugins the document (and the files it includes) refers to, as seen from the worker"""
    files, plugs = [], {}
    visited = set()

    def scan(doc, filekey, path, depth):
        if not isinstance(doc, list) or depth > 6:
            return
        for obj in doc:
            if not isinstance(obj, dict):
                continue
            p = obj.get("plugin")
            if isinstance(p, str) and "." in p and all(x.isidentifier() for x in p.split(".")) and p not in plugs:
                # (names of any other shape are rejected before importlib is asked)
                plugs[p] = _classify_plugin(p, [path.parent / "plugins"]) if p.isascii() else "nonascii"
            v = obj.get("include_file")
            if isinstance(v, str) and v and not v.startswith("/"):
                if any(f[0] == filekey and f[1] == v for f in files):
                    continue
                if "\x00" in v:
                    files.append([filekey, v, "missing"])       # Path.is_file() answers False for such a name
                    continue
                target = path.parent / v
                if not target.exists():
                    files.append([filekey, v, "missing"])
                elif target.is_dir():
                    files.append([filekey, v, "dir"])
                else:
                    key = os.path.realpath(target)
                    if main_real is not None and key == main_real:
                        key = ""                 # the main file itself
                    try:
                        with target.open() as f:
                            inc = yaml.safe_load(f)
                        tree = from_py(inc)
                    except BaseException as e:
                        if type(e).__name__ == "_CaseTimeout":
                            raise
                        files.append([filekey, v, "bad:" + (_load_err(e) if not isinstance(e, Cyclic) else "cyclic")])
                        continue
                    files.append([filekey, v, "doc", key, tree])
                    if key not in visited:
                        visited.add(key)
                        scan(inc, key, target, depth + 1)
    path = (REPO / base).absolute() if base else Path("<stream>")
    main_real = os.path.realpath(path) if base else None
    visited.add("")
    scan(py, "", path, 0)
    return {"files": files, "plugins": plugs}


def _run_fmt(case):
    t, args = case["template"], case["args"]
    if case["kind"] == "fmt":
        try:
            return {"fmt": ["ok", t.format(*args, **case["kw"])]}
        except Exception as e:
            return {"fmt": ["err", type(e).__name__]}
    import inspect
    import types
    try:
        from snowfakery.data_gen_exceptions import fix_exception, DataGenError
        params = list(inspect.signature(fix_exception).parameters)
    except Exception:
        return {"skip": "fix_exception not available"}
    if params[:4] != ["message", "parentobj", "e", "args"]:
        return {"skip": "fix_exception has another signature"}
    parent = types.SimpleNamespace(filename="recipe.yml", line_num=7)
    e = DataGenError(case["emsg"]) if case["edge"] else Exception(case["emsg"])
    try:
        r = fix_exception(t, parent, e, list(args))
    except Exception as x:
        return {"fix": type(x).__name__}
    if not isinstance(r, DataGenError):
        return {"fix": "returned " + type(r).__name__}
    return {"fix": "DGE", "has_line": bool(r.line_num), "has_file": bool(r.filename),
            "msg_ok": isinstance(r.message, str) and bool(str(r).strip())}


def run_impl(case):
    """one document under a limit on its CPU time (signal ITIMER_PROF): reported as a hang like the driver's
    wall-clock alarm, but a busy machine cannot make a quick document look like one that does not end"""
    import signal

    def on_cpu(signum, frame):
        raise C._CaseTimeout()
    try:
        old = signal.signal(signal.SIGPROF, on_cpu)
        signal.setitimer(signal.ITIMER_PROF, CPU_LIMIT_BY_KIND.get(case["kind"], CPU_LIMIT))
    except (ValueError, AttributeError, OSError):
        return _run_impl(case)                    # (not the main thread / no such timer: the wall-clock alarm remains)
    try:
        return _run_impl(case)
    finally:
        signal.setitimer(signal.ITIMER_PROF, 0)
        signal.signal(signal.SIGPROF, old)


# ----------------------------------------------------------------- round 5: running a document through another entry mode
class _CountingOut(io.StringIO):
    """output file of generate_data: the txt format writes one piece of text per row"""

    def __init__(self):
        super().__init__()
        self.rows = 0

    def write(self, s):
        if s and s != "\n":
            self.rows += 1
            if self.rows > ROW_LIMIT:
                raise _Enough()
        return len(s)


def _one_run(text, base, via, tmp, tag, **kw):
    """one call of the public entry point (generate_data, or the command line in this process) -> observation.
    kw: update_input_file / update_passthrough_fields / continuation_file / generate_continuation_file, as text"""
    from snowfakery.data_gen_exceptions import DataGenError
    from snowfakery import data_generator_runtime as rt
    import contextlib
    import time
    os.chdir(REPO)
    random.seed(0)
    sys.unraisablehook = lambda *a, **k: None
    state = {"started": False}
    interp = getattr(rt, "Interpreter", None)
    orig = interp.__dict__.get("execute") if interp is not None else None
    if orig is not None:
        def execute(self, *a, **k):
            state["started"] = True
            return orig(self, *a, **k)
        interp.execute = execute
    tmp = Path(tmp)
    obs = {}
    out = _CountingOut()
    outpath = tmp / (tag + ".out.txt")
    new_state = None
    new_state_path = tmp / (tag + ".state.yml")
    args = {}
    cli = []
    try:
        # the entry points (if the package no longer offers them under these names, there is nothing to run)
        if via == "cli":
            import click
            from snowfakery.cli import generate_cli
        from snowfakery import generate_data
        # the recipe
        if via == "text" or (base and not (REPO / base).is_file()):
            via = "text"
            if base:
                recipe = _NamedIO(text)
                recipe.name = str(REPO / base)
            else:
                recipe = io.StringIO(text)
        else:
            rp = tmp / "recipe.yml"
            if base:
                orig_text = (REPO / base).read_text()
                if yaml.safe_load(orig_text) == yaml.safe_load(text):
                    rp = REPO / base
                else:
                    # an edited repository recipe stays next to the files it includes
                    via = "text"
                    recipe = _NamedIO(text)
                    recipe.name = str(REPO / base)
            if via != "text":
                if rp.parent == tmp:
                    rp.write_text(text, encoding="utf-8")
                recipe = str(rp) if via == "cli" else rp
        if via == "cli":
            cli = [recipe, "--output-format", "txt", "--output-file", str(outpath)]
        if kw.get("update_input_file") is not None:
            if via == "text":
                args["update_input_file"] = io.StringIO(kw["update_input_file"])
            else:
                cp = tmp / "input.csv"
                with open(cp, "w", encoding="utf-8", newline="") as f:
                    f.write(kw["update_input_file"])
                args["update_input_file"] = cp
                cli += ["--update-input-file", str(cp)]
            if kw.get("update_passthrough_fields"):
                args["update_passthrough_fields"] = list(kw["update_passthrough_fields"])
                cli += ["--update-passthrough-fields", ",".join(kw["update_passthrough_fields"])]
        if kw.get("continuation_file") is not None:
            if via == "text":
                args["continuation_file"] = io.StringIO(kw["continuation_file"])
            else:
                sp = tmp / (tag + ".from.yml")
                sp.write_text(kw["continuation_file"], encoding="utf-8")
                args["continuation_file"] = sp
                cli += ["--continuation-file", str(sp)]
        if kw.get("generate_continuation_file"):
            if via == "text":
                new_state = io.StringIO()
                args["generate_continuation_file"] = new_state
            else:
                args["generate_continuation_file"] = new_state_path
                cli += ["--generate-continuation-file", str(new_state_path)]
    except BaseException as e:
        if type(e).__name__ == "_CaseTimeout":
            raise
        if orig is not None:
            interp.execute = orig
        return {"skip": f"could not prepare the run: {type(e).__name__}: {e}"}
    sink = io.StringIO()
    cpu0 = time.process_time()
    try:
        with contextlib.redirect_stdout(sink), contextlib.redirect_stderr(sink):
            if via == "cli":
                try:
                    generate_cli.main(cli, standalone_mode=False)
                except click.ClickException as ce:
                    if isinstance(ce.__cause__, DataGenError):
                        raise ce.__cause__
                    obs["skip"] = f"the command line refused the arguments: {ce}"
            else:
                generate_data(recipe, output_file=out, output_format="txt", **args)
        obs["outcome"] = "accept"
    except _Enough:
        obs["outcome"] = "accept"
        obs["truncated"] = True
    except BaseException as e:
        if type(e).__name__ == "_CaseTimeout":
            raise
        if isinstance(e, DataGenError):
            obs["outcome"] = "DGE"
            obs["dge"] = type(e).__name__
            try:
                obs["msg_ok"] = bool(str(e).strip()) and bool(str(e.message).strip())
                obs["msg_nonempty"] = bool(str(e.message))
            except Exception:
                obs["msg_ok"] = False
                obs["msg_nonempty"] = False
            obs["has_line"] = bool(e.line_num)
            obs["has_file"] = bool(e.filename)
        else:
            obs["outcome"] = type(e).__name__
            obs["where"] = _site(e)
            obs["msg"] = str(e)[:160]
    finally:
        obs["cpu"] = round(time.process_time() - cpu0, 3)
        if orig is not None:
            interp.execute = orig
    if via == "cli":
        try:
            obs["rows"] = len(outpath.read_text(encoding="utf-8", errors="replace").splitlines()) if outpath.exists() else 0
        except OSError:
            obs["rows"] = 0
    else:
        obs["rows"] = out.rows
    obs["phase"] = None if orig is None else ("run" if state["started"] else "static")
    obs["via"] = via
    if obs.get("outcome") == "accept" and kw.get("generate_continuation_file"):
        try:
            obs["state"] = new_state.getvalue() if new_state is not None else new_state_path.read_text(encoding="utf-8")
        except Exception:
            obs["state"] = None
    return obs


_PLAIN = {}          # text -> verdict of the document in the ordinary mode (per worker process)


def _run_mode(case, text, base):
    import tempfile
    import shutil
    tmp = tempfile.mkdtemp(prefix="sfv.c20m.", dir="/var/tmp")
    try:
        for d in ("examples", "tests"):          # (what the tiny seeds include is named relative to the repository)
            try:
                os.symlink(REPO / d, Path(tmp) / d)
            except OSError:
                pass
        via = case.get("via", "text")
        keep = ("outcome", "phase", "rows", "where", "dge", "msg", "msg_ok", "truncated", "via", "skip")
        if case["mode"] == "update":
            obs = _run_one_update(case, text, base, via, tmp)
            if text not in _PLAIN:
                a = _run_text({"kind": "doc"}, text, base, want_env=False)
                if len(_PLAIN) > 5000:
                    _PLAIN.clear()
                _PLAIN[text] = {k: a.get(k) for k in ("outcome", "phase", "rows", "where", "dge")}
            obs["alone"] = dict(_PLAIN[text])
            obs["link"] = 1
            return obs
        first = _one_run(text, base, via, tmp, "run1", generate_continuation_file=True)
        state = first.pop("state", None)
        if first.get("skip") or first.get("outcome") != "accept" or first.get("truncated") or state is None:
            first["link"] = 1
            if first.get("outcome") == "accept" and state is None and not first.get("truncated"):
                first["skip"] = "the accepted first run left no continuation file to read"
            return first
        obs = _one_run(text, base, via, tmp, "run2", continuation_file=state, generate_continuation_file=True)
        state2 = obs.pop("state", None)
        obs["link"] = 2
        obs["first"] = {k: first.get(k) for k in keep if k in first}
        if obs.get("outcome") == "accept" and not obs.get("truncated") and state2 is not None and not obs.get("skip"):
            # and once more, from the continued run's own file
            third = _one_run(text, base, via, tmp, "run3", continuation_file=state2)
            third.pop("state", None)
            if third.get("outcome") != "accept" and not third.get("skip"):
                third["link"] = 3
                third["first"] = obs["first"]
                return third
        return obs
    finally:
        shutil.rmtree(tmp, ignore_errors=True)


def _run_one_update(case, text, base, via, tmp):
    return _one_run(text, base, via, tmp, "upd", update_input_file=MODE_CSV.get(case.get("csv"), MODE_CSV["two_rows"]),
                    update_passthrough_fields=case.get("pass") or [])


_ALONE = {}          # (seed, edit) -> verdict of the edited seed on its own (per worker process)


def _run_impl(case):
    if case["kind"] in ("fmt", "fix"):
        return _run_fmt(case)
    text, base = materialise(case)
    if text is None:
        return {"skip": "seed unavailable"}
    if case["kind"] == "mode":
        return _run_mode(case, text, base)
    tmpdir = None
    if case["kind"] in ("files", "empty"):
        import tempfile
        tmpdir = tempfile.mkdtemp(prefix="sfv.c20.", dir="/var/tmp")
        for name, content in case["files"].items():
            fp = Path(tmpdir) / name
            fp.parent.mkdir(parents=True, exist_ok=True)
            if isinstance(content, dict):              # {"sqlite": [statements]}: a database file
                import sqlite3
                db = sqlite3.connect(str(fp))
                for stmt in content["sqlite"]:
                    db.execute(stmt)
                db.commit()
                db.close()
            else:
                fp.write_text(content, encoding="utf-8")
        base = str(Path(tmpdir) / case["main"])
    try:
        obs = _run_text(case, text, base)
        if case["kind"] == "ctx":
            # the edited seed on its own, in the same process: what is a fault of the document alone is one in company
            key = json.dumps([case["seed"], case.get("edit")])
            if key not in _ALONE:
                _, alone = ctx_tree(case)
                a = _run_text({"kind": "doc"}, dump(alone), None, want_env=False)
                if len(_ALONE) > 5000:
                    _ALONE.clear()
                _ALONE[key] = {k: a.get(k) for k in ("outcome", "phase", "rows", "where", "dge")}
            obs["alone"] = dict(_ALONE[key])
        return obs
    finally:
        if tmpdir:
            import shutil
            shutil.rmtree(tmpdir, ignore_errors=True)


def _run_text(case, text, base, want_env=True):
    from snowfakery.data_generator import generate as sf_generate
    from snowfakery.output_streams import OutputStream
    from snowfakery.data_gen_exceptions import DataGenError
    from snowfakery import data_generator_runtime as rt
    os.chdir(REPO)
    random.seed(0)
    sys.unraisablehook = lambda *a, **k: None       # example plugins' __del__ noise
    state = {"rows": 0, "started": False}
    fault = case if case["kind"] in ("fault", "hostile") else None
    ftable = (case.get("names") or {}).get("T", "T") if fault else None

    class Capture(OutputStream):
        def __init__(self):
            pass

        def write_row(self, tablename, row):
            state["rows"] += 1
            if fault and fault["site"] == "write_row" and state["rows"] >= fault["nth"] and tablename == ftable:
                from harness.c20_plugin import make_exc
                raise make_exc(fault["exc"], fault.get("msg"))
            if state["rows"] > ROW_LIMIT:
                raise _Enough()

        def write_single_row(self, *a):
            pass

        def close(self, **kw):
            return []

    interp = getattr(rt, "Interpreter", None)
    orig = interp.__dict__.get("execute") if interp is not None else None
    if orig is not None:
        def execute(self, *a, **k):
            state["started"] = True
            return orig(self, *a, **k)
        interp.execute = execute
    stream = _NamedIO(text)
    if base:
        stream.name = str(REPO / base)            # an absolute base stays as it is
    obs = {}
    import contextlib
    import time
    sink = io.StringIO()
    # how often the recursive-alias check is invoked (if the parser still has it under that name)
    calls = {"n": 0}
    prm = sys.modules.get("snowfakery.parse_recipe_yaml")
    alias_fn = getattr(prm, "check_no_recursive_aliases", None) if prm is not None else None
    if callable(alias_fn):
        def counting(*a, **k):
            calls["n"] += 1
            return alias_fn(*a, **k)
        prm.check_no_recursive_aliases = counting
    cpu0 = time.process_time()
    try:
        with contextlib.redirect_stdout(sink), contextlib.redirect_stderr(sink):
            if base:
                sf_generate(stream, {}, Capture())
            else:
                sf_generate(io.StringIO(text), {}, Capture())
        obs["outcome"] = "accept"
    except _Enough:
        obs["outcome"] = "accept"
        obs["truncated"] = True
    except BaseException as e:
        if type(e).__name__ == "_CaseTimeout":
            raise
        if isinstance(e, DataGenError):
            obs["outcome"] = "DGE"
            obs["dge"] = type(e).__name__
            try:
                obs["msg_ok"] = bool(str(e).strip()) and bool(str(e.message).strip())
                obs["msg_nonempty"] = bool(str(e.message))
            except Exception:
                obs["msg_ok"] = False
                obs["msg_nonempty"] = False
            obs["has_line"] = bool(e.line_num)
            obs["has_file"] = bool(e.filename)
        else:
            obs["outcome"] = type(e).__name__
            obs["where"] = _site(e)
            obs["msg"] = str(e)[:160]
    finally:
        obs["cpu"] = round(time.process_time() - cpu0, 3)
        if orig is not None:
            interp.execute = orig
        if callable(alias_fn):
            prm.check_no_recursive_aliases = alias_fn
    obs["alias_calls"] = calls["n"]
    obs["rows"] = state["rows"]
    obs["phase"] = None if orig is None else ("run" if state["started"] else "static")
    # what the model needs to know about the world
    if want_env and case["kind"] not in ("fault", "hostile", "big"):
        try:
            py = yaml.safe_load(text)
            obs["env"] = _environment(py, base)
        except BaseException as e:
            if type(e).__name__ == "_CaseTimeout":
                raise
            obs["env"] = None
    return obs


# =============================================================================== model side
def cs(s):
    if all(32 <= ord(ch) <= 126 for ch in s):
        return C.cstr(s)
    return "(sbytes " + C.clist(C.cz(b) for b in s.encode("utf-8")) + ")"


_UWS = re.compile("[\x85\xa0\u1680\u2000-\u200a\u2028\u2029\u202f\u205f\u3000]")


def _strings(t):
    if t[0] == "s":
        yield t[1]
    elif t[0] in "el":
        for x in t[1]:
            yield from _strings(x)
    elif t[0] == "m":
        for a, b in t[1]:
            yield from _strings(a)
            yield from _strings(b)


def cy(t):
    k = t[0]
    if k == "n":
        return "YNull"
    if k == "b":
        return f"(YBool {C.cbool(t[1])})"
    if k == "i":
        return f"(YInt {C.cz(t[1])})"
    if k == "f":
        f = float(t[1])
        if math.isnan(f):
            return "(YFloat FlNan)"
        if f == 0:
            return "(YFloat FlZero)"
        if math.isinf(f) or f != int(f) or abs(f) >= 2 ** 53:
            return "(YFloat FlOther)"
        return f"(YFloat (FlInt {C.cz(int(f))}))"
    if k == "s":
        return f"(YStr {cs(t[1])})"
    if k == "d":
        return "YDate"
    if k == "t":
        return "YDateTime"
    if k == "y":
        return f"(YBytes {C.cbool(len(t[1]) > 0)})"
    if k == "e":
        return f"(YSet {C.cbool(len(t[1]) > 0)})"
    if k == "l":
        return "(YSeq " + C.clist(cy(x) for x in t[1]) + ")"
    if k == "m":
        return "(YMap " + C.clist(C.cpair(cy(a), cy(b)) for a, b in t[1] if a != ["s", "__line__"]) + ")"
    raise ValueError(t)


YAML_SITE = "parse_recipe_yaml.py:yaml_safe_load_with_line_numbers"


def _cloaderr(how):
    if how == "marked":
        return "LMarked"
    if how == "unmarked":
        return "LUnmarked"
    if how == "valueerror":
        return "LValueError"
    return f"(LExc {cs(how[4:] + ':' + YAML_SITE)})"


def _cenv(env):
    fs = []
    for f in env["files"]:
        kind = f[2]
        if kind == "missing":
            e = "FMissing"
        elif kind == "dir":
            e = "FDir"
        elif kind.startswith("bad:"):
            if kind == "bad:cyclic":
                return None
            e = f"(FBad {_cloaderr(kind[4:])})"
        else:
            if any(_UWS.search(s) for s in _strings(f[4])):
                return None
            e = f"(FDoc {cs(f[3])} {cy(f[4])})"
        fs.append(f"(({cs(f[0])}, {cs(f[1])}), {e})")
    ps = []
    for name, r in env["plugins"].items():
        if r == "nonascii":
            return None                   # str.isidentifier() on non-ASCII text is not modelled
        if r.startswith("crash:"):
            v = f"(PCrash {cs(r[6:])})"
        else:
            v = {"missing": "PMissing", "notplugin": "PNotPlugin", "faker": "PFaker", "plugin": "PPlugin",
                 "parser": "PParser"}[r]
        ps.append(f"({cs(name)}, {v})")
    return f"(mkEnv {C.clist(fs)} {C.clist(ps)})"


def expected_static(obs):
    """the implementation's verdict up to the start of execution, in the model's vocabulary"""
    if obs.get("phase") is None:
        return None
    if obs["outcome"] == "accept" or obs["phase"] == "run":
        return "OAccept"
    if obs["outcome"] == "DGE":
        return "OReject"
    if obs["outcome"] == "RecursionError":
        return '(OCrash "RecursionError")'
    return f"(OCrash {cs(obs['outcome'] + ':' + obs.get('where', '?'))})"


# (site, depth) -> (path, leaf, raised exception) of the wrapper model
_DEPTH_STEPS = {"top": [], "friend": ["STmplFriend"], "nested": ["STmplField", "SNested"],
                "var_template": ["SVarExpr", "SNested"], "friend_of_friend": ["STmplFriend", "STmplFriend"]}
_VAR_DEPTH = {"top": [], "friend": ["STmplFriend"], "friend_of_friend": ["STmplFriend", "STmplFriend"]}


def fault_path(case):
    site, dep, exc = case["site"], case["depth"], case["exc"]
    if site.startswith("var_"):
        steps = _VAR_DEPTH[dep] + ["SVarExpr"]
        leaf, e = {"var_call": ("LFunc", exc), "var_attr": ("LLookup", "AttributeError"),
                   "var_simple": ("LEval", exc)}[site]
        return steps, leaf, e
    steps = list(_DEPTH_STEPS[dep])
    table = {
        "field_call": (["STmplField"], "LFunc", exc),
        "field_attr": (["STmplField"], "LLookup", "AttributeError"),
        "field_arg": (["STmplField", "SCallArg"], "LFunc", exc),
        "field_simple": (["STmplField"], "LEval", exc),
        "count_call": (["STmplCount"], "LFunc", exc),
        "count_attr": (["STmplCount"], "LLookup", "AttributeError"),
        "count_simple": (["STmplCount"], "LEval", exc),
        "count_conv_simple": (["STmplCount"], "LCountConv", "ValueError"),
        "count_conv_struct": (["STmplCount"], "LCountConv", "ValueError"),
        "count_conv_inf": (["STmplCount"], "LCountConv", "OverflowError"),
        "foreach_call": (["STmplForEach"], "LFunc", exc),
        "foreach_attr": (["STmplForEach"], "LLookup", "AttributeError"),
        "foreach_noniter": (["STmplForEach"], "LForEachType", "DGE"),
        "write_row": ([], "LWrite", exc),
    }
    s, leaf, e = table[site]
    return steps + s, leaf, e


def _cexn(name):
    return "EDGE" if name == "DGE" else f"(EPy {cs(name)})"


# ----------------------------------------------------------------- the document as PyYAML holds it: a graph
UNFOLD_LIMIT = 3000


def graph_of(py):
    """-> (heap, info).  heap: list of ["leaf", tree] | ["seq", [index]] | ["map", [[key tree, index]]], root at
    index 0, one node per container OBJECT (shared objects once), one per scalar occurrence.
    info: shared / cyclic / dicts / nodes / unfolded (size of the tree it stands for, capped) / depth (capped)."""
    heap, index = [], {}
    info = {"shared": False, "cyclic": False, "dicts": 0}

    def new_node(o):
        if isinstance(o, (list, dict)):
            if id(o) in index:
                info["shared"] = True
                return index[id(o)], False
            index[id(o)] = len(heap)
            heap.append(None)
            return index[id(o)], True
        heap.append(["leaf", from_py(o)])
        return len(heap) - 1, False
    root, fresh = new_node(py)
    stack = [(py, root)] if fresh else []
    while stack:
        o, i = stack.pop()
        if isinstance(o, list):
            items = []
            for x in o:
                j, fr = new_node(x)
                items.append(j)
                if fr:
                    stack.append((x, j))
            heap[i] = ["seq", items]
        else:
            info["dicts"] += 1
            kv = []
            for k, v in o.items():
                if k == "__line__":
                    continue
                j, fr = new_node(v)
                kv.append([from_py(k), j])
                if fr:
                    stack.append((v, j))
            heap[i] = ["map", kv]
    # cycles, size and depth of the unfolding (iterative, post-order with colours)
    kids = [([] if n[0] == "leaf" else n[1] if n[0] == "seq" else [c for _, c in n[1]]) for n in heap]
    colour, size, dep = [0] * len(heap), [1] * len(heap), [1] * len(heap)
    todo = [(0, 0)]
    while todo:
        i, k = todo.pop()
        if k == 0:
            if colour[i] == 2:
                continue
            colour[i] = 1
        if k < len(kids[i]):
            todo.append((i, k + 1))
            c = kids[i][k]
            if colour[c] == 1:
                info["cyclic"] = True
            elif colour[c] == 0:
                todo.append((c, 0))
        else:
            colour[i] = 2
            size[i] = min(10 ** 9, 1 + sum(size[c] for c in kids[i]))
            dep[i] = min(10 ** 6, 1 + max([dep[c] for c in kids[i]] or [0]))
    info.update(nodes=len(heap), unfolded=None if info["cyclic"] else size[0], depth=None if info["cyclic"] else dep[0])
    return heap, info


def cheap(heap):
    out = []
    for n in heap:
        if n[0] == "leaf":
            out.append(f"HLeaf {cy(n[1])}")
        elif n[0] == "seq":
            out.append("HSeq " + C.clist(f"{j}%nat" for j in n[1]))
        else:
            out.append("HMap " + C.clist(C.cpair(cy(k), f"{j}%nat") for k, j in n[1]))
    return C.clist(out)


def _heap_strings(heap):
    for n in heap:
        if n[0] == "leaf":
            yield from _strings(n[1])
        elif n[0] == "map":
            for k, _ in n[1]:
                yield from _strings(k)


def _exc_text(exc, msg):
    """str() of the exception the fault plugin raises (c20_plugin.make_exc), without importing snowfakery"""
    import builtins
    text = ("injected " + exc) if msg is None else HOSTILE[msg]
    if exc == "DGE":
        return text if text.strip() else "injected recipe error"
    cls = getattr(builtins, exc)
    return str(cls(text) if text else cls())


def fault_path_v(case):
    """(isteps, ileaf, exception) of a hostile case as Coq terms: fault_path with all the text"""
    site, dep, exc = case["site"], case["depth"], case["exc"]
    nm = dict(DEFAULT_NAMES)
    nm.update(case.get("names") or {})
    q = lambda k: cs(nm[k] or "")                                             # noqa: E731
    tn = lambda k: f"{q(k)} {q(k + 'n')}"                                     # noqa: E731
    fname = cs("Boom.boom" + nm["fn"])
    raised = f"(mkX {_cexn(exc)} {cs(_exc_text(exc, case.get('msg')))} false)"
    attr = '(mkX (EPy "AttributeError") "plugin exposes no attribute" false)'
    dsteps = {"top": [], "friend": [f"ISTmplFriend {tn('P')}"],
              "nested": [f"ISTmplField {tn('P')} {q('pfield')}", "ISNested"],
              "var_template": [f"ISVarExpr {q('vt')}", "ISNested"],
              "friend_of_friend": [f"ISTmplFriend {tn('P')}", f"ISTmplFriend {tn('Q')}"]}
    fld = f"ISTmplField {tn('T')} {q('field')}"
    cnt = lambda d: f"ISTmplCount {tn('T')} {cs(d)}"                           # noqa: E731
    fe = f"ISTmplForEach {tn('T')}"
    var = f"ISVarExpr {q('var')}"
    defn = cs(nm["defn"] + "${{ 1 + }}")
    syntax = '(mkX EDGE "unexpected end of template" false)'
    table = {
        "field_call": ([fld], f"ILFunc {fname}", raised),
        "field_attr": ([fld], "ILLookup", attr),
        "field_arg": ([fld, 'ISCallArg "random_number"'], f"ILFunc {fname}", raised),
        "field_simple": ([fld], "ILEval", raised),
        "field_compile": ([fld], f"ILCompile {defn}", syntax),
        "count_call": ([cnt("call")], f"ILFunc {fname}", raised),
        "count_attr": ([cnt("call")], "ILLookup", attr),
        "count_simple": ([cnt("formula")], "ILEval", raised),
        "count_compile": ([cnt("formula")], f"ILCompile {defn}", syntax),
        "count_conv_simple": ([cnt("abc" + nm["cdef"])], "ILCountConv", '(mkX (EPy "ValueError") "could not convert string to float" false)'),
        "count_conv_struct": ([cnt("call")], "ILCountConv", '(mkX (EPy "ValueError") "could not convert string to float" false)'),
        "count_conv_inf": ([cnt("inf")], "ILCountConv", '(mkX (EPy "OverflowError") "cannot convert float infinity to integer" false)'),
        "foreach_call": ([fe], f"ILFunc {fname}", raised),
        "foreach_attr": ([fe], "ILLookup", attr),
        "foreach_noniter": ([fe], f"ILForEachType {tn('T')}", '(mkX EDGE "for_each value must be a DatasetIterator" true)'),
        "write_row": ([], f"ILWrite {tn('T')}", raised),
        "ctx_locale": ([], f"ILCtxTmpl {tn('T')}", '(mkX (EPy "AttributeError") "Invalid configuration for faker locale" false)'),
        "ctx_locale_var": ([], f"ILCtxVar {q('var')}", '(mkX (EPy "AttributeError") "Invalid configuration for faker locale" false)'),
        "var_call": ([var], f"ILFunc {fname}", raised),
        "var_attr": ([var], "ILLookup", attr),
        "var_simple": ([var], "ILEval", raised),
        "var_compile": ([var], f"ILCompile {defn}", syntax),
    }
    steps, leaf, e = table[site]
    pre = {"top": [], "friend": dsteps["friend"], "friend_of_friend": dsteps["friend_of_friend"]}[dep] \
        if site.startswith("var_") else dsteps[dep]
    return pre + steps, leaf, e


def _graph_case(case, obs, py, exp):
    heap, info = graph_of(py)
    if any(_UWS.search(t) for t in _heap_strings(heap)):
        return None
    env = obs.get("env")
    files = (env or {}).get("files") or []
    # the invocations of the alias check are those of the main file only when nothing is included
    calls = obs.get("alias_calls", 0) if not files else 0
    slack = info["dicts"] + 1
    if not info["cyclic"] and info["unfolded"] is not None and info["unfolded"] <= UNFOLD_LIMIT and env is not None:
        cenv = _cenv(env)
        if cenv is not None:
            return f"CGraph {cenv} {cheap(heap)} 0%nat {exp} {C.cz(calls)} {C.cz(slack)}"
    if info["cyclic"]:
        return f"CAlias {cheap(heap)} 0%nat true 0 0" if exp == "OReject" else f"CAlias {cheap(heap)} 0%nat false 0 0"
    if obs.get("hang") or obs.get("outcome") is None:
        return None
    return f"CAlias {cheap(heap)} 0%nat false {C.cz(calls)} {C.cz(slack)}"


def coq_case(case, obs):
    if not isinstance(obs, dict) or obs.get("skip"):
        return None
    if case["kind"] == "fmt":
        r = obs.get("fmt")
        if r is None:
            return None
        exp = f"(FROk {cs(r[1])})" if r[0] == "ok" else f"(FRErr {cs(r[1])})"
        kw = C.clist(C.cpair(cs(k), cs(v)) for k, v in case["kw"].items())
        return f"CFmt {cs(case['template'])} {C.clist(cs(a) for a in case['args'])} {kw} {exp}"
    if case["kind"] == "fix":
        r = obs.get("fix")
        if r is None:
            return None
        cls = "EDGE" if case["edge"] else '(EPy "Exception")'
        e = f"(mkX {cls} {cs(case['emsg'])} false)"
        return f"CFix {cs(case['template'])} {C.clist(cs(a) for a in case['args'])} {e} {_cexn(r)}"
    if "outcome" not in obs:
        return None
    if case["kind"] == "big" or case["kind"] == "mode" or case.get("model") is False:
        return None                       # the recursion limit / the size of numbers is not what the model is about
    if case["kind"] == "hostile":
        steps, leaf, e = fault_path_v(case)
        got = "DGE" if obs["outcome"] == "DGE" else obs["outcome"]
        if got == "accept":
            got = "NoException"
        return (f"CFaultV {C.clist(steps)} ({leaf}) {e} {_cexn(got)} "
                f"{C.cbool(bool(obs.get('msg_nonempty', obs.get('msg_ok'))))} {C.cbool(bool(obs.get('has_line')))}")
    if case["kind"] == "fault":
        steps, leaf, e = fault_path(case)
        got = "DGE" if obs["outcome"] == "DGE" else obs["outcome"]
        if got == "accept":
            got = "NoException"
        return f"CFault {C.clist(steps)} {leaf} {_cexn(e)} {_cexn(got)}"
    exp = expected_static(obs)
    if exp is None:
        return None
    text, base = materialise(case)
    try:
        py = yaml.safe_load(text)
    except yaml.YAMLError as e:
        return f"CText {_cloaderr(_load_err(e))} {exp}"
    except RecursionError:
        return None
    except Exception as e:
        return f"CText {_cloaderr(_load_err(e))} {exp}"
    try:
        heap, info = graph_of(py)
    except RecursionError:
        return None
    if info["shared"] or info["cyclic"] or case["kind"] == "dag":
        # anchors and aliases: the model gets the graph (alias check, then the tree it stands for)
        return _graph_case(case, obs, py, exp)
    try:
        tree = from_py(py)
    except (Cyclic, RecursionError):
        return None
    if any(_UWS.search(s) for s in _strings(tree)):
        return None                      # str.strip() on non-ASCII whitespace is not modelled
    env = obs.get("env")
    if env is None:
        return None
    cenv = _cenv(env)
    if cenv is None:
        return None
    return f"CDoc {cenv} {cy(tree)} {exp}"


# =============================================================================== property oracle
def cpu_budget(case, text_len):
    """CPU seconds a document of that size may take before execution has produced ROW_LIMIT rows (the unchanged
    code needs milliseconds; the limit scales with the size of the text, not with the number of ways through it)"""
    return 3.0 + 1e-5 * text_len


def _nondge_at_leaf(case):
    """is what the fault raises something else than a DataGenError?"""
    site = case["site"]
    if site in ("foreach_noniter",) or site.endswith("_compile"):
        return False
    if site.endswith("_attr") or site.startswith("count_conv") or site.startswith("ctx_"):
        return True
    return case["exc"] != "DGE"


def _mode_what(case, obs):
    via = {"text": "generate_data on open streams", "path": "generate_data on paths", "cli": "the command line"}.get(obs.get("via"), "?")
    if case["mode"] == "update":
        return f"in update mode ({via}; input `{case.get('csv')}`, passthrough fields {case.get('pass')})"
    link = {1: "in a run that writes a continuation file", 2: "in a run continued from the continuation file of its first run",
            3: "in a third run, continued from the continued run's continuation file"}.get(obs.get("link"), "?")
    return f"{link} ({via})"


def _update_must_reject(text):
    """an update recipe has exactly one statement, an object template without count (for documents without include_file)"""
    try:
        py = yaml.safe_load(text)
    except Exception:
        return None
    if not isinstance(py, list) or not all(isinstance(o, dict) for o in py) or any("include_file" in o for o in py):
        return None
    st = [o for o in py if "object" in o or "var" in o]
    if len(st) != 1:
        return f"{len(st)} object / var statements"
    if "var" in st[0]:
        return "a var statement instead of an object template"
    if st[0].get("count"):
        return "a template with a count"
    return None


def _mode_oracle(case, obs):
    out = obs["outcome"]
    what = _mode_what(case, obs)
    if out not in ("accept", "DGE"):
        return (f"crash {out}@{obs.get('where')}: the document {what} is answered with {out} ({obs.get('msg')}) "
                f"in the {obs.get('phase')} phase after {obs.get('rows')} rows")
    if out == "DGE" and not obs.get("msg_ok"):
        return f"message: rejected {what} with a DataGenError that carries no message"
    if obs.get("phase") == "static" and obs.get("rows", 0) > 0:
        return f"rows: {obs['rows']} rows were written {what} although the error was raised before execution started"
    if case["mode"] == "update":
        alone = obs.get("alone") or {}
        if alone.get("outcome") == "DGE" and alone.get("phase") == "static":
            if out == "accept":
                return (f"late: a document that is rejected before execution in an ordinary run ({alone.get('dge')}) is accepted "
                        f"{what} ({obs.get('rows')} rows written)")
            if obs.get("phase") == "run" and obs.get("rows", 0) > 0:
                return (f"late: a fault that is reported before execution in an ordinary run ({alone.get('dge')}) is reported "
                        f"only during execution, after {obs.get('rows')} rows, {what}")
        if case.get("plain") and alone.get("outcome") == "accept":
            text, _ = materialise(case)
            why = _update_must_reject(text)
            if why and (out == "accept" or obs.get("rows", 0) > 0):
                return (f"late: an update recipe with {why} is " + ("accepted" if out == "accept" else "rejected only after rows were written")
                        + f" {what} ({obs.get('rows')} rows)")
    return None


def oracle(case, obs):
    if obs.get("skip"):
        return None
    if case["kind"] == "fmt":
        return None                        # Python's own str.format: only compared with the model
    if case["kind"] == "fix":
        r = obs.get("fix")
        if case["template"] in REAL_TEMPLATES and r is not None:
            # the templates of the code, any text as argument and as the wrapped exception's message
            if r != "DGE":
                return f"crash {r}@data_gen_exceptions.py:fix_exception: template {case['template']!r} with args {case['args']!r}"
            if not obs.get("msg_ok"):
                return "message: fix_exception returned a DataGenError without a message"
            if not obs.get("has_line") or not obs.get("has_file"):
                return "location: fix_exception returned a DataGenError without the file / line of its parent object"
        return None
    if case["kind"] == "mode":
        return _mode_oracle(case, obs)
    out = obs["outcome"]
    if case["kind"] in ("fault", "hostile"):
        if out not in ("accept", "DGE"):
            return (f"crash {out}@{obs.get('where')}: injected {case['exc']} at {case['site']}/{case['depth']} "
                    f"(names {case.get('names')}, text #{case.get('msg')}) left generate as {out}: {obs.get('msg')}")
        if out == "DGE" and not obs.get("msg_ok"):
            return "message: rejected with a DataGenError that carries no message"
        if out == "DGE" and _nondge_at_leaf(case) and not obs.get("has_line"):
            return (f"location: {case['exc']} injected at {case['site']}/{case['depth']} is reported without the line "
                    f"of the template / field it happened in")
        return None
    if out not in ("accept", "DGE"):
        return (f"crash {out}@{obs.get('where')}: the document is answered with {out} ({obs.get('msg')}) "
                f"in the {obs.get('phase')} phase after {obs.get('rows')} rows")
    if out == "DGE" and not obs.get("msg_ok"):
        return "message: rejected with a DataGenError that carries no message"
    if obs.get("phase") == "static" and obs.get("rows", 0) > 0:
        return f"rows: {obs['rows']} rows were written although the error was raised before execution started"
    if case["kind"] == "ctx":
        alone = obs.get("alone") or {}
        if alone.get("outcome") == "DGE" and alone.get("phase") == "static" and case["prefix"] != "self":
            # a fault the recipe shows on its own: it must be reported, and before any row, whatever surrounds it
            where = {"before": "behind", "after": "in front of", "around": "between"}.get(case.get("pos"), "next to")
            if out == "accept":
                return (f"late: a document that is rejected before execution on its own ({alone.get('dge')}) is accepted "
                        f"when it stands {where} the valid statements `{case['prefix']}` ({obs.get('rows')} rows written)")
            if obs.get("phase") == "run" and obs.get("rows", 0) > 0:
                return (f"late: a fault that is reported before execution when the document stands alone ({alone.get('dge')}) "
                        f"is reported only during execution, after {obs.get('rows')} rows, when it stands {where} the valid "
                        f"statements `{case['prefix']}`")
    if case["kind"] in ("dag", "big") and "cpu" in obs:
        text, _ = materialise(case)
        if obs["cpu"] > cpu_budget(case, len(text)):
            return (f"slow: {obs['cpu']} s of CPU for a document of {len(text)} characters "
                    f"(limit {cpu_budget(case, len(text)):.1f} s)")
    return None


def violation_class(case, obs, msg):
    return msg.split(":")[0]


def nontrivial(case, obs):
    if case["kind"] in ("fmt", "fix"):
        return isinstance(obs, dict) and not obs.get("skip") and ("{" in case["template"] or "}" in case["template"])
    if not isinstance(obs, dict) or "outcome" not in obs:
        return False
    return case["kind"] in ("fault", "hostile", "dag", "big", "empty", "mode") or obs["outcome"] != "accept"


def stats(cases, obss):
    kinds = Counter(c["kind"] for c in cases)
    outc = Counter()
    crash = Counter()
    dge = Counter()
    ops = Counter()
    lines = Counter()
    rows_before_dge = Counter()
    r3 = {"hostile_sites": Counter(), "hostile_slots": Counter(), "hostile_outcomes": Counter(),
          "hostile_exception_text": Counter(), "hostile_static_patterns": Counter(), "format": Counter(),
          "fix_exception": Counter(), "dag_places": Counter(), "dag_shapes": Counter(), "dag_depths": Counter(),
          "dag_outcomes": Counter(), "big_shapes": Counter(), "big_outcomes": Counter()}
    max_calls, max_cpu = 0, 0.0
    r4 = {"empty_sources": Counter(), "empty_uses": Counter(), "empty_outcomes": Counter(), "context_statements": Counter(),
          "context_positions": Counter(), "context_seeds": Counter(), "context_alone_vs_in_company": Counter()}

    r5 = {"modes": Counter(), "mode_documents": Counter(), "mode_outcomes": Counter(), "update_inputs": Counter(),
          "update_passthrough_fields": Counter(), "update_statement_mix": Counter(), "continued_without_top_level_template": Counter()}

    def _verdict(o):
        if not isinstance(o, dict):
            return "n/a"
        if o.get("hang"):
            return "hang"
        out = o.get("outcome")
        if out == "accept":
            return "accept"
        if out == "DGE":
            return "reject/" + str(o.get("phase")) + ("/rows>0" if o.get("rows") else "")
        return "crash " + str(out)
    for c, o in zip(cases, obss):
        k = c["kind"]
        if k == "empty":
            r4["empty_sources"][":".join(c["source"].split(":")[:2])] += 1
            r4["empty_uses"][c["use"]] += 1
            r4["empty_outcomes"][c["source"].split(":")[0] + " " + _verdict(o)] += 1
        elif k == "mode":
            via = o.get("via", c.get("via")) if isinstance(o, dict) else c.get("via")
            r5["modes"][c["mode"] + "/" + str(via)] += 1
            inner = c["inner"]
            r5["mode_documents"]["statement mixes (hand-written)" if c.get("doc") else
                                 inner["kind"] + (" unchanged seed" if inner["kind"] in ("edit", "ctx") and inner.get("edit") is None else "")] += 1
            link = o.get("link") if isinstance(o, dict) else None
            r5["mode_outcomes"][c["mode"] + (f" run {link}" if c["mode"] == "continue" else "") + ": " + _verdict(o)] += 1
            if c["mode"] == "update":
                r5["update_inputs"][c.get("csv")] += 1
                r5["update_passthrough_fields"][len(c.get("pass") or [])] += 1
            try:
                py = yaml.safe_load(materialise(c)[0])
            except Exception:
                py = None
            if isinstance(py, list) and all(isinstance(x, dict) for x in py):
                nobj = sum(1 for x in py if "object" in x)
                nvar = sum(1 for x in py if "var" in x)
                hidden = any(str(x.get("object", "")).startswith("__") for x in py)
                mix = f"objects={min(nobj, 3)}{'+' if nobj > 3 else ''} vars={min(nvar, 2)}{'+' if nvar > 2 else ''}" + (" hidden" if hidden else "")
                if c["mode"] == "update":
                    r5["update_statement_mix"][mix] += 1
                elif nobj == 0 and link in (2, 3):
                    r5["continued_without_top_level_template"][f"vars={min(nvar, 2)}{'+' if nvar > 2 else ''}: " + _verdict(o)] += 1
        elif k == "ctx":
            r4["context_statements"][c["prefix"]] += 1
            r4["context_positions"][c.get("pos")] += 1
            r4["context_seeds"][c["seed"] + (" (unchanged)" if c.get("edit") is None else "")] += 1
            if isinstance(o, dict) and "alone" in o:
                r4["context_alone_vs_in_company"][_verdict(o["alone"]) + " -> " + _verdict(o)] += 1
        if not isinstance(o, dict):
            outc["n/a"] += 1
            continue
        if k == "fmt":
            r = o.get("fmt") or ["skip"]
            r3["format"][r[0] if r[0] != "err" else r[1]] += 1
            continue
        if k == "fix":
            r3["fix_exception"][("code's template: " if c["template"] in REAL_TEMPLATES else "any template: ") + str(o.get("fix", "skip"))] += 1
            continue
        verdict = "hang" if o.get("hang") else ("accept" if o.get("outcome") == "accept" else "reject" if o.get("outcome") == "DGE" else str(o.get("outcome")))
        if k == "hostile":
            r3["hostile_sites"][c["site"] + "/" + c["depth"]] += 1
            for sl in (c.get("names") or {}):
                r3["hostile_slots"][sl] += 1
            r3["hostile_exception_text"]["default" if c.get("msg") is None else "empty" if HOSTILE[c["msg"]] == "" else "hostile"] += 1
            r3["hostile_outcomes"][verdict] += 1
        elif k == "dag":
            lab = c.get("label", "dag:?").split(":")
            r3["dag_shapes"][":".join(lab[1:3])] += 1
            r3["dag_places"][c.get("place", "-")] += 1
            if "depth" in c:
                r3["dag_depths"][c["depth"]] += 1
            r3["dag_outcomes"][verdict] += 1
            max_calls = max(max_calls, o.get("alias_calls", 0))
        elif k == "big":
            r3["big_shapes"][c["shape"]] += 1
            r3["big_outcomes"][c["shape"] + ":" + str(c["n"]) + " " + verdict] += 1
        elif k == "doc" and str(c.get("label", "")).startswith("hostile-static:"):
            r3["hostile_static_patterns"][c["label"].split(":", 1)[1] + " " + verdict] += 1
        if k in ("dag", "big"):
            max_cpu = max(max_cpu, o.get("cpu", 0.0))
        if "outcome" not in o:
            outc["hang" if o.get("hang") else "n/a"] += 1
            continue
        out = o["outcome"]
        outc[("accept" if out == "accept" else "reject" if out == "DGE" else "crash") + "/" + str(o.get("phase"))] += 1
        if out == "DGE":
            dge[o.get("dge")] += 1
            lines["with line" if o.get("has_line") else "with file" if o.get("has_file") else "no location"] += 1
            if o.get("phase") == "run":
                rows_before_dge["0" if o["rows"] == 0 else ">0"] += 1
        elif out != "accept":
            crash[f"{out}@{o.get('where')}"] += 1
        if c["kind"] == "edit" and c.get("edit"):
            ops[c["edit"][1]] += 1
    sd = seeds()
    per_seed = Counter(c["seed"] for c in cases if c["kind"] == "edit" and c.get("edit"))
    exhaustive = sorted(n for n, k in per_seed.items() if n in sd and k >= len(edit_descriptors(sd[n]["tree"])))
    round3 = {k: dict(v) for k, v in r3.items()}
    round3["dag_depths"] = {str(k): v for k, v in sorted(r3["dag_depths"].items())}
    round3.update(max_alias_check_invocations=max_calls, max_cpu_seconds_dag_big=max_cpu, hostile_alphabet=len(HOSTILE))
    return {"round5": {k: {str(a): b for a, b in v.items()} for k, v in r5.items()}, "round4": {k: dict(v) for k, v in r4.items()}, "round3": round3, "seeds_enumerated_exhaustively": len(exhaustive), "kinds": dict(kinds), "outcome/phase": dict(outc), "crash_sites": dict(crash), "reject_classes": dict(dge),
            "reject_location": dict(lines), "runtime_reject_rows_before": dict(rows_before_dge),
            "edit_ops": dict(ops), "seeds": len(sd), "seed_nodes": sum(s["nodes"] for s in sd.values())}


def shrink(case):
    """first make the case self-contained (explicit tree), then drop list elements / map entries"""
    if case["kind"] == "edit":
        s = seeds().get(case["seed"])
        if s is not None:
            t = s["tree"] if case.get("edit") is None else apply_edit(s["tree"], case["edit"])
            yield {"kind": "doc", "tree": t, "base": s["base"], "label": f"{case['seed']} {case.get('edit')}"}
        return
    if case["kind"] == "ctx":
        # fewer surrounding statements first (the comparison with the document alone stays), then the plain document
        if case["prefix"] in ("all", "all_reversed"):
            for name in sorted(_CTX):
                yield dict(case, prefix=name)
        if case.get("pos") != "before":
            yield dict(case, pos="before")
        t, _ = ctx_tree(case)
        if t is not None:
            yield {"kind": "doc", "tree": t, "base": None, "label": f"ctx {case['prefix']} {case['seed']} {case.get('edit')}"}
        return
    if case["kind"] != "doc":
        return
    t = case["tree"]
    for path, node in positions(t):
        if node[0] in "lm" and node[1]:
            for i in range(len(node[1])):
                yield dict(case, tree=apply_edit(t, [list(path), "del", i]))


def directed_search(rng, disagreeing):
    out = []
    sd = seeds()
    for n in [n for n in sd if n.startswith("b_")]:
        ds = edit_descriptors(sd[n]["tree"])
        out.extend({"kind": "edit", "seed": n, "edit": d} for d in rng.sample(ds, min(len(ds), 500)))
    for site in FAULT_SITES:
        for dep in FAULT_DEPTHS:
            for exc in FAULT_EXCS:
                if _fault_recipe(site, dep, exc) is not None and not (exc == "StopIteration" and site.endswith("_simple")):
                    out.append({"kind": "fault", "site": site, "depth": dep, "exc": exc, "nth": 1})
    out.extend(rng.sample(hostile_cases(rng, "thorough"), 1500))
    out.extend(c for c in dag_cases(rng, "quick") if c.get("depth", 0) <= 24)
    return out


# =============================================================================== known findings
# id -> (exception signatures (type, file:function) | special, what, witness case)
# the defects found while the check was built are repaired (KNOWN_FINDINGS.json: fixed); open ones (round 3):
FINDINGS = {
 "C20-H2-alias-expansion": {
  "sigs": [("HANG", "alias-expansion"), ("SLOW", "alias-expansion")],
  "what": "a document whose anchors are referred to several times, level upon level (l1: &l1 [*l0, *l0] ... 40 levels: "
          "42 lines of YAML), placed where the parser follows the references (a field value, function arguments, a var "
          "value, friends, a count / for_each definition, the body of an included macro) or where an error message "
          "prints the structure (top-level element that is no dictionary / of unknown type, statement that is no "
          "dictionary, field value of unknown shape): parse_field_value / parse_structured_value_args / the f-strings "
          "`{obj}`, `{field}` visit every PATH of the graph, 2**40 steps - the call never returns (no rows, no error). "
          "PyYAML loads the text in linear time, check_no_recursive_aliases (memoised) accepts it as acyclic",
  "case": {"kind": "dag", "label": "dag:ladder-followed-deep:list:function_args", "place": "function_args", "depth": 40,
           "text": None}},
 "C20-D1-deep-nesting": {
  "sigs": [("RecursionError", "deep-nesting")],
  "what": "a document nested more deeply than Python's recursion limit allows (a flow sequence 400 deep in an option "
          "default, a function call 400 deep, 200 nested object templates / friends, a chain of 400 macros including "
          "one another) is answered with RecursionError (from PyYAML's composer, check_no_recursive_aliases, "
          "parse_field_value / include_macro, or at run time ObjectTemplate.generate_rows) instead of a recipe error",
  "case": {"kind": "big", "shape": "nest_list_default", "n": 600}},
 "C20-F1-include-file-name-too-long": {
  "sigs": [("OSError", "include-file-name-too-long")],
  "what": "include_file with a name the operating system refuses (a path component longer than 255 bytes, e.g. 300 "
          "characters): parse_included_file's inclusion_path.is_file() raises OSError [Errno 36] File name too long "
          "(pathlib ignores only ENOENT / ENOTDIR / EBADF / ELOOP), which leaves generate as OSError instead of "
          "`Cannot load include file ...`",
  "case": {"kind": "doc", "tree": ["l", [["m", [[["s", "include_file"], ["s", "x" * 300]]]], ["m", [[["s", "object"], ["s", "A"]]]]]],
           "base": None}},
 "C20-M1-empty-message": {
  "sigs": [("MESSAGE", "formula-exception-without-text")],
  "what": "a formula in a `var` or a `count` (no field around it) that raises an exception whose str() is empty - a bare "
          "`assert` or `raise KeyError()` inside a plugin function called from ${{ }} - is reported as a DataGenValueError "
          "whose message is the empty string (SimpleValue.render: DataGenValueError(str(e), ...)); only the location is "
          "printed.  Theorem C20_refuted_message_always",
  "case": {"kind": "hostile", "site": "var_simple", "depth": "top", "exc": "AssertionError", "names": {},
           "msg": len(HOSTILE) - 1, "nth": 0}},
}
FINDINGS["C20-H2-alias-expansion"]["case"]["text"] = dag_finding_witnesses("quick")[0]["text"]
FOLLOWED_LIMIT = 200000


_OBJECT_KEYS = {"object": str, "fields": dict, "friends": list, "include": str, "nickname": str, "just_once": bool,
                "for_each": dict, "count": (str, int, dict), "update_key": str}
_VAR_KEYS = {"var": str, "value": (str, int, dict, list)}


def _followed_size(py):
    """size of the tree the unchanged parser walks (or prints) when it follows the references of this document:
    statements that pass parse_element, macros that are included, top-level elements an error message prints"""
    try:
        heap, info = graph_of(py)
    except RecursionError:
        return 0
    if info["cyclic"] or not isinstance(py, list):
        return 0
    # sizes per container object
    kids = [([] if n[0] == "leaf" else n[1] if n[0] == "seq" else [c for _, c in n[1]]) for n in heap]
    size = [None] * len(heap)
    order = [(0, 0)]
    while order:
        i, k = order.pop()
        if size[i] is not None:
            continue
        if k < len(kids[i]):
            order.append((i, k + 1))
            if size[kids[i][k]] is None:
                order.append((kids[i][k], 0))
        else:
            size[i] = min(10 ** 12, 1 + sum(size[c] or 1 for c in kids[i]))
    top = heap[0][1]
    includes = set()
    seen = set()
    todo = [py]
    while todo:
        o = todo.pop()
        if id(o) in seen or not isinstance(o, (list, dict)):
            continue
        seen.add(id(o))
        if isinstance(o, dict):
            inc = o.get("include")
            if isinstance(inc, str):
                includes.update(x.strip() for x in inc.split(","))
            todo.extend(o.values())
        else:
            todo.extend(o)
    total = 0
    for obj, idx in zip(py, top):
        if not isinstance(obj, dict):
            total += size[idx]                 # "... should all be dictionaries, not {obj}"
            continue
        if obj.get("option") == "snowfakery.standard_plugins.SnowfakeryVersion.snowfakery_version":
            total += size[idx]                 # "snowfakery_version should be 2 or 3, not `{snowfakery_version}`"
            continue
        if obj.get("option") or obj.get("include_file") or obj.get("plugin") or obj.get("snowfakery_version"):
            continue
        if obj.get("macro"):
            if obj.get("macro") in includes and all(k in ("macro", "fields", "friends", "include") for k in obj):
                total += size[idx]
            continue
        spec = _OBJECT_KEYS if obj.get("object") else _VAR_KEYS if obj.get("var") else None
        if spec is None:
            total += size[idx]                 # "Unknown object type {obj}"
            continue
        if all(k in spec and isinstance(v, spec[k]) for k, v in obj.items()):
            total += size[idx]
    return total


def _long_include_class(case):
    if case["kind"] in ("fmt", "fix"):
        return None
    text, _ = materialise(case)
    try:
        py = yaml.safe_load(text)
    except Exception:
        return None
    for o in py if isinstance(py, list) else []:
        v = o.get("include_file") if isinstance(o, dict) else None
        if isinstance(v, str) and (any(len(part.encode("utf-8")) > 255 for part in v.split("/")) or len(v.encode("utf-8")) > 4000):
            return "include-file-name-too-long"
    return None


def _longest_include_chain(py):
    if not isinstance(py, list):
        return 0
    inc = {}
    for o in py:
        if isinstance(o, dict) and isinstance(o.get("macro"), str) and isinstance(o.get("include"), str):
            inc[o["macro"]] = [x.strip() for x in o["include"].split(",")]
    depth = {}
    for start in inc:
        # chains only (each macro of the generated documents includes one other): follow until it ends or repeats
        n, cur, seen = 0, start, set()
        while cur in inc and cur not in seen and n < 10000:
            seen.add(cur)
            cur = inc[cur][0]
            n += 1
        depth[start] = n
    return max(depth.values() or [0])


def _deep_class(case):
    """'deep-nesting' when the document is nested (or chains macros) beyond any reasonable recursion limit"""
    text, _ = materialise(case)
    try:
        py = yaml.safe_load(text)
        _, info = graph_of(py)
    except RecursionError:
        return "deep-nesting"
    except Exception:
        return None
    if info["depth"] is not None and info["depth"] >= 100:
        return "deep-nesting"
    if _longest_include_chain(py) >= 100:
        return "deep-nesting"
    return None


def _walk_py(o):
    yield o
    if isinstance(o, dict):
        for k, v in o.items():
            yield from _walk_py(v)
    elif isinstance(o, (list, tuple)):
        for v in o:
            yield from _walk_py(v)


def _recursion_class(case, obs):
    if _deep_class(case):
        return "deep-nesting"
    text, _ = materialise(case)
    try:
        py = yaml.safe_load(text)
        from_py(py)
    except Cyclic:
        return "cyclic-alias"
    except Exception:
        return None
    env = obs.get("env") or {}
    files = env.get("files", [])
    if any(f[2] == "bad:cyclic" for f in files):
        return "cyclic-alias"
    edges = {}
    for f in files:
        if f[2] == "doc":
            edges.setdefault(f[0], set()).add(f[3])
    seen, stack = set(), [""]
    path_cycle = False

    def dfs(n, anc):
        nonlocal path_cycle
        for m in edges.get(n, ()):
            if m in anc:
                path_cycle = True
            elif m not in seen:
                seen.add(m)
                dfs(m, anc | {m})
    dfs("", {""})
    if path_cycle:
        return "file-cycle"
    has_macro = any(isinstance(o, dict) and o.get("macro") for o in (py if isinstance(py, list) else []))
    for f in files:
        if f[2] == "doc" and any(x[0] == "m" and any(k == ["s", "macro"] for k, _ in x[1])
                                 for x in (f[4][1] if f[4][0] == "l" else [])):
            has_macro = True
    return "macro-cycle" if has_macro else None


def _hang_class(case):
    if case["kind"] in ("fmt", "fix"):
        return None
    text, _ = materialise(case)
    try:
        py = yaml.safe_load(text)
    except Exception:
        return None
    try:
        if _followed_size(py) >= FOLLOWED_LIMIT:
            return "alias-expansion"
        _, info = graph_of(py)
        if info["shared"] or info["cyclic"] or (info["depth"] or 0) > 200:
            return None                  # (the walk below is over the tree)
    except RecursionError:
        return None
    for o in _walk_py(py):
        if isinstance(o, dict) and "Schedule.Event" in o:
            a = o["Schedule.Event"]
            if isinstance(a, dict) and "interval" in a and a["interval"] in (0, False) and a["interval"] is not None:
                return "schedule-interval"
    return None


def _top_templates(py):
    """templates that run without a wrapping handler around their count / context: top-level statements and
    templates that are the value of a top-level var (directly, or unwrapped from a one-element list)"""
    out = []
    for o in py if isinstance(py, list) else []:
        if not isinstance(o, dict):
            continue
        if o.get("object"):
            out.append(o)
        elif o.get("var"):
            v = o.get("value")
            if isinstance(v, list) and len(v) == 1:
                v = v[0]
            if isinstance(v, dict) and v.get("object"):
                out.append(v)
    return out


def _runtime_class_ok(fid, case):
    """the input class of a run-time finding (so that the same exception from another place still fails)"""
    if case["kind"] == "fault":
        site, dep = case["site"], case["depth"]
        return {"C20-R1-count-not-simple-value": site in ("count_conv_struct",) and dep in ("top", "var_template"),
                "C20-R2-count-infinite": site in ("count_conv_inf", "count_call") and dep in ("top", "var_template")
                                         and (site != "count_call" or case["exc"] == "OverflowError"),
                "C20-R4-top-level-var-plugin-attribute": (site == "var_attr" and dep == "top") or
                                                         (site == "count_attr" and dep in ("top", "var_template"))
                }.get(fid, False)
    text, _ = materialise(case)
    try:
        py = yaml.safe_load(text)
        from_py(py)
    except Exception:
        return False
    tops = [o for o in (py if isinstance(py, list) else []) if isinstance(o, dict)]
    if fid == "C20-R1-count-not-simple-value":
        return any(isinstance(t.get("count"), dict) for t in _top_templates(py))
    if fid == "C20-R2-count-infinite":
        return any(t.get("count") is not None for t in _top_templates(py))
    if fid == "C20-R3-top-level-var-dot":
        return any(o.get("var") and o.get("value") == "." for o in tops)
    if fid == "C20-R4-top-level-var-plugin-attribute":
        def dotted(v):
            if isinstance(v, list) and len(v) == 1:
                v = v[0]
            return isinstance(v, dict) and any(isinstance(k, str) and "." in k for k in list(v)[:1])
        return any(o.get("var") and dotted(o.get("value")) for o in tops) or \
            any(dotted(t.get("count")) for t in _top_templates(py))
    if fid == "C20-R5-invalid-locale":
        return any(o.get("var") == "snowfakery_locale" for o in tops)
    return True


def match_finding(case, obs, msg, findings):
    """the id of the open finding this failure belongs to, or None (a model disagreement never matches)"""
    if not isinstance(obs, dict):
        return None
    open_ids = {f["id"] for f in findings}
    if msg == "model-disagreement":
        return None
    # (the former finding C20-S1-history-table-name is repaired in /repo 5f8efc8: its witnesses are ordinary cases)
    if obs.get("outcome") == "OSError" and obs.get("where") == "parse_recipe_yaml.py:parse_included_file" \
            and msg.startswith("crash "):
        sig = ("OSError", _long_include_class(case))
    elif obs.get("hang"):
        sig = ("HANG", _hang_class(case))
    elif msg.startswith("slow"):
        sig = ("SLOW", _hang_class(case))
    elif msg.startswith("message:"):
        empty = case["kind"] in ("fault", "hostile") and case["site"] in ("var_simple", "count_simple") and \
            case["exc"] != "DGE" and _exc_text(case["exc"], case.get("msg")).strip() == ""
        sig = ("MESSAGE", "formula-exception-without-text" if empty else None)
    else:
        out = obs.get("outcome")
        if out in (None, "accept", "DGE") or not msg.startswith("crash "):
            return None
        where = obs.get("where")
        if out == "RecursionError":
            where = _recursion_class(case, obs)
        sig = (out, where)
    if sig[1] is None:
        return None
    for fid, f in FINDINGS.items():
        if fid not in open_ids:
            continue
        for t, w in f["sigs"]:
            if w == sig[1] and (t == "*" or t == sig[0]):
                if fid.startswith("C20-R") and not fid.startswith("C20-R6") and not _runtime_class_ok(fid, case):
                    continue
                return fid
    return None


FINDING_SIGNATURES = {
 "C20-F1-include-file-name-too-long": "OSError whose innermost snowfakery frame is parse_recipe_yaml.py:parse_included_file AND an "
                                      "include_file of the document has a path component longer than 255 bytes (or is longer "
                                      "than 4000 bytes)",
 "C20-H2-alias-expansion": "the run does not end within the time limit (or exceeds the CPU limit) AND the tree the parser "
                           "walks or prints when it follows the references of the document (statements that pass "
                           "parse_element, included macros, top-level elements quoted by an error message, the default of "
                           "the version option) has at least 200000 nodes; a document whose sharing sits where the parser "
                           "does not look (option default, unused macro, rejected key) must still answer at once",
 "C20-D1-deep-nesting": "RecursionError AND the document is nested at least 100 containers deep or chains at least 100 "
                        "macro includes; a RecursionError on a shallower document is still a failure",
 "C20-M1-empty-message": "oracle message `message:` AND the case injects, through a formula (${{ }}) in a `var` or a "
                         "`count`, an exception other than DataGenError whose text is empty or blank",
}


def write_findings_corpus():
    """(maintenance) corpus/C20/known_findings.json and the KNOWN_FINDINGS.json entries as text"""
    cases = []
    entries = []
    for fid, f in FINDINGS.items():
        c = dict(f["case"])
        c["label"] = "finding:" + fid
        cases.append(c)
        entries.append({"id": fid, "property": "C20", "what": f["what"],
                        "signature": FINDING_SIGNATURES[fid],
                        "witness": "corpus/C20/known_findings.json (label finding:%s): %s" % (
                            fid, json.dumps(materialise(f["case"])[0])[:200])})
    (C.CORPUS / "C20").mkdir(parents=True, exist_ok=True)
    (C.CORPUS / "C20" / "known_findings.json").write_text(json.dumps({"cases": cases}, indent=1))
    return entries


# =============================================================================== seed list maintenance
def build_seeds():
    """(maintenance, not part of a check run) try every recipe of /repo/examples and /repo/tests once and
    cache those that run offline, quickly and are small:  python -m harness.c20 build-seeds"""
    import time
    cands = sorted(set(REPO.glob("examples/**/*.yml")) | set(REPO.glob("tests/*.yml")))
    keep = []
    for p in cands:
        rel = str(p.relative_to(REPO))
        txt = p.read_text(errors="replace")
        if re.search(r"salesforce|soql|Salesforce|SOQL|http|sql|debug|RecipeState", txt):
            continue
        try:
            t = from_py(yaml.safe_load(txt))
        except Exception:
            continue
        n = node_count(t)
        if n > 160:
            continue
        case = {"kind": "text", "text": dump(t), "base": rel}
        t0 = time.time()
        import harness.c20 as me
        obs = C.run_impl_all(me, [case], timeout=5, workers=1)[0]
        dt = time.time() - t0
        ok = obs.get("outcome") == "accept" and not obs.get("truncated") and obs.get("rows", 0) <= 400
        print(f"{rel:60s} nodes={n:4d} {obs.get('outcome')} rows={obs.get('rows')} {dt:.2f}s {'KEEP' if ok else ''}")
        if ok:
            keep.append({"path": rel, "nodes": n, "rows": obs.get("rows")})
    SEEDS_FILE.parent.mkdir(parents=True, exist_ok=True)
    SEEDS_FILE.write_text(json.dumps({"_comment": "cached list of repository recipes used as C20 seeds (built by "
                                      "`python -m harness.c20 build-seeds`; each ran offline, < 5 s, <= 400 rows)",
                                      "seeds": keep}, indent=1))
    print(len(keep), "seeds kept")


if __name__ == "__main__":
    if sys.argv[1:] == ["build-seeds"]:
        build_seeds()
    if sys.argv[1:] == ["findings"]:
        print(json.dumps(write_findings_corpus(), indent=1))
