"""C02 — no dangling references: every emitted reference resolves to an emitted row.
Model: coq/theories/Interp.v; theorems: coq/props/C02.v."""
from collections import Counter

import random
from . import common as C
from . import sfcore as S

PROP = "C02"
MODEL = "Interp"
SHARD = 150
SKIPPED_FN = "case_unsupported"
CASE_TIMEOUT = 30
MARK = "Zmark"
RULE = ("reference-heavy SF-core recipes (backward / forward / self references by nickname, table name and dotted "
        "path, nested objects, friends pointing at parents, just_once targets, zero-count targets = unfulfilled "
        "forward references), a marker template closing every iteration, 1-4 iterations, half split into "
        "continuation chains; compared projection: (table, id) of every row and of every reference cell; oracle: "
        "every reference cell's target is written by the end of the same iteration (or earlier).  non-trivial: the "
        "run wrote >= 1 reference cell; distinct by recipe hash")
TRUSTED = ["harness/sfcore.py printers / capture stream (references seen before flattening, `.id` read in field order)"]
ASSUMPTIONS = ["out of scope by design: references into hidden `__` tables and literal {object:, id:} references "
               "(neither is generated as a literal; hidden targets are skipped by the oracle)"]
W = dict(hidden_nick=0.08, case_twin=0.07, dual_fwd=0.25, ref=0.45, fwd=0.45, nick=0.5, dotted=0.35, nested=0.18, friend=0.45, zero_count=0.12, once=0.2, formula=0.2, randref=0.15)


DIRECTED = [S.stream_dual_forward_underfilled, S.stream_dual_forward_underfilled, S.stream_hidden_table_nicks, S.stream_late_forward_reference, S.stream_late_forward_reference, S.stream_first_statement_names, S.stream_stale_slot, S.stream_shared_nick_forward, S.stream_shared_nick_forward, S.stream_idle_middle, S.stream_once_cluster,
            S.stream_randref_nicks, S.stream_nick_spelled_like_table, S.stream_captured_slot, S.stream_captured_slot,
            S.stream_randref_idle_target, S.stream_name_is_nick_and_table_forward]


def gen_case(rng, stream=None):
    from .c04 import row_valued_in_once
    directed = rng.random() < 0.12      # directed streams (DESIGN.md 11.4)
    if stream is not None:
        r, feats = stream(rng)
    else:
        r, feats = rng.choice(DIRECTED)(rng) if directed else S.gen_recipe(rng, W)
    r["stmts"].append(["obj", {"table": MARK, "nick": None, "count": None, "once": False, "fields": [], "friends": []}])
    k = rng.choice([1, 2, 2, 3, 4])
    ks = [k]
    if k >= 2 and rng.random() < 0.5 and not row_valued_in_once(r):
        cut = sorted(rng.sample(range(1, k), rng.randint(1, k - 1)))
        ks = [b - a for a, b in zip([0] + cut, cut + [k])]
    return {"recipe": r, "ks": ks, "features": feats}


def generate(rng, tier):
    cases = [gen_case(rng) for _ in range(380 if tier == "quick" else 10000)]
    # every directed stream also gets a fixed share of its own (own rng: the cases above stay what they were):
    # a stream that only comes up through the 12 % draw above is hit a handful of times per run, and a change
    # that needs one of them was caught by one case or by none, depending on the seed
    rng2 = random.Random(rng.getrandbits(48) ^ 0xC02)
    per = 10 if tier == "quick" else 120
    for stream in sorted(set(DIRECTED), key=lambda f: f.__name__):
        for _ in range(per):
            cases.append(gen_case(rng2, stream))
    return cases


def run_impl(case):
    runs, cont = [], None
    ks = case["ks"]
    for i, k in enumerate(ks):
        o = S.run_recipe(case["recipe"], reps=k, continuation=cont, want_continuation=(i < len(ks) - 1),
                         draw_offset=sum(len(r.get("draws", [])) for r in runs))
        cont = o.get("cont")
        runs.append({kk: vv for kk, vv in o.items() if kk != "cont"})
        if "ok" not in o:
            break
    return {"runs": runs}


def coq_case(case, obs):
    runs = obs["runs"]
    if all("ok" in r for r in runs):
        if not all(S.comparable(r["ok"]) for r in runs):
            return None
        exp = "(Ok " + C.clist(S.rows_coq(r["ok"]) for r in runs) + ")"
    else:
        exp = f"(Err {C.cerr(runs[-1]['err'])})"
    return f"CHist PRefs {S.recipe_coq(case['recipe'], S.obs_draws(obs))} {C.clist(C.cnat(k) for k in case['ks'])} {exp}"


def oracle(case, obs):
    runs = obs["runs"]
    for r in runs:
        if "err" in r:
            if r["err"] != "DGE":
                return f"internal-error: {r['err']}: {r.get('msg','')[:120]}"
            return None
    written = set()
    pending = []
    for r in runs:
        for t, fs in r["ok"]:
            d = dict((k, v) for k, v in fs)
            if "id" in d and d["id"][0] == "int":
                written.add((t, d["id"][1]))
            for k, v in fs:
                if v[0] == "ref" and not v[1].startswith("__"):
                    pending.append((t, k, v[1], v[2]))
            if t == MARK:     # end of an iteration: everything referenced so far must exist
                for (ft, fk, tt, ti) in pending:
                    if (tt, ti) not in written:
                        return (f"dangling-reference: {ft}.{fk} = {tt}({ti}) but no row {tt}({ti}) was written by the end "
                                f"of the iteration (history {case['ks']})")
                pending = []
    return None


def nontrivial(case, obs):
    return all("ok" in r for r in obs["runs"]) and any(v[0] == "ref" for r in obs["runs"] for _, fs in r["ok"] for _, v in fs)


def stats(cases, obss):
    st = S.feature_stats(cases, [o["runs"][-1] for o in obss if isinstance(o, dict) and o.get("runs")])
    st["histories"] = dict(Counter("+".join(map(str, c["ks"])) for c in cases))
    st["reference_cells"] = sum(1 for o in obss if isinstance(o, dict) for r in o.get("runs", []) if "ok" in r
                                for _, fs in r["ok"] for _, v in fs if v[0] == "ref")
    st["unfulfilled_forward_reference_errors"] = sum(
        1 for o in obss if isinstance(o, dict) for r in o.get("runs", []) if "not fulfilled" in r.get("msg", ""))
    return st


def shrink(case):
    from .c04 import shrink as sh
    for c in sh(case):
        if any(s[0] == "obj" and s[1]["table"] == MARK for s in c["recipe"]["stmts"]):
            yield c


def directed_search(rng, disagreeing):
    return [gen_case(rng) for _ in range(1500)]


def match_finding(case, obs, msg, findings):
    return None
