"""Injection of random draws from outside the code under test.

Every stdlib integer drawing function (randint, randrange, choice, shuffle, sample) funnels
through random.Random._randbelow(n), looked up through `self` at call time.  Patching the
class attribute therefore works whether the code writes `random.randint`, `from random import
randint` or keeps a bound method around."""
import contextlib
import random


class OracleExhausted(Exception):
    pass


class _Rec:
    def __init__(self):
        self.widths = []   # n requested
        self.values = []   # value returned


@contextlib.contextmanager
def injected_randbelow(explicit=None, raw=None, chooser=None):
    """explicit: exact values to return (must be < n); raw: values reduced mod n;
    chooser: callable(n, index) -> value."""
    rec = _Rec()
    it = iter(explicit if explicit is not None else (raw if raw is not None else []))
    orig = random.Random._randbelow

    def fake(self, n):
        idx = len(rec.widths)
        rec.widths.append(n)
        if chooser is not None:
            v = chooser(n, idx)
        else:
            try:
                v = next(it)
            except StopIteration:
                raise OracleExhausted(f"draw #{idx} (width {n}) not provided")
            if explicit is None:
                v = v % n
        if not (0 <= v < n):
            raise OracleExhausted(f"draw #{idx}: injected {v} not below {n}")
        rec.values.append(v)
        return v

    random.Random._randbelow = fake
    try:
        yield rec
    finally:
        random.Random._randbelow = orig
