"""C10 — random_reference picks existing, correctly scoped targets; unique never repeats.
Model: coq/theories/RowHistory.v (+ RandRange.v for `unique`); theorems: coq/props/C10.v."""
import io
from collections import Counter

from . import common as C
from .oracle_random import injected_randbelow

PROP = "C10"
MODEL = "C10Cases"
COQ_IMPORTS = ["From SFV Require Import RandRange RowHistory Interp."]
CHECK_FN = "check_kcase"
SKIPPED_FN = "kcase_unsupported"
SHARD = 250
CASE_TIMEOUT = 40
MARK = "Zmark"
RULE = ("(i) kernel: the real RowHistory / RandomReferenceContext objects driven with operation scripts (save_row "
        "with in-order and out-of-order ids, nicknames, reset_locals, random_row_reference with the draw injected, "
        "unique references with the range generator's draws injected) and compared step by step with the model; "
        "(ii) end to end: recipes with random_reference by table / nickname, several templates feeding one table, "
        "nested / friend placement (targets growing while being consumed), just_once targets, 1-3 iterations, "
        "unique with every count pair (targets 0..6, pickers 0..8), draws biased to both ends of every interval; "
        "oracle: target written earlier, right table / nickname, from the current iteration if it has one, unique "
        "never repeats and fails when exhausted.  non-trivial: >= 1 random reference was produced; distinct by case hash")
TRUSTED = ["harness/oracle_random.py (random.Random._randbelow patched to inject draws)",
           "harness/c10.py drives snowfakery.row_history.RowHistory / RandomReferenceContext directly"]
ASSUMPTIONS = ["randint(a,b) returns an integer in [a,b] (theorems quantify over all such draws)",
               "sqlite stores and returns the saved rows faithfully (row payloads are not compared)"]

TABLES = ["A", "B"]
NICKS = {"aa": "A", "a2": "A", "bb": "B"}


# ------------------------------------------------------------------ generation: kernel scripts
def gen_script(rng, out_of_order=False):
    names = dict(NICKS)
    names.update({t: t for t in TABLES})
    counters = {}
    if rng.random() < 0.3:          # continued run: counters restored, persistent rows re-saved first
        for t in TABLES:
            if rng.random() < 0.7:
                counters[t] = rng.randint(1, 4)
    next_id = {t: counters.get(t, 0) for t in TABLES}
    ops = []
    pending = []                     # reserved (skipped) ids, created later
    for _ in range(rng.randint(3, 16)):
        r = rng.random()
        if r < 0.45:
            t = rng.choice(TABLES)
            nick = rng.choice([None, None] + [n for n, tt in NICKS.items() if tt == t])
            if pending and rng.random() < 0.5:
                pt, pid = pending.pop(0)
                ops.append(["save", pt, None, pid])
                continue
            next_id[t] += 1
            if out_of_order and rng.random() < 0.3:
                pending.append((t, next_id[t]))      # id reserved by a forward reference
                next_id[t] += 1
            ops.append(["save", t, nick, next_id[t]])
        elif r < 0.55:
            ops.append(["reset"])
        elif r < 0.85:
            ops.append(["ref", rng.choice(TABLES + list(NICKS) + ["Zed"]), rng.randint(0, 10 ** 6)])
        else:
            ops.append(["uref", rng.choice(TABLES + ["aa"])])
    # a unique context belongs to one field: keep a single target name for the unique refs
    uname = next((o[1] for o in ops if o[0] == "uref"), None)
    ops = [o if o[0] != "uref" else ["uref", uname] for o in ops]
    return {"kind": "script", "counters": sorted(counters.items()), "names": sorted(names.items()), "ops": ops,
            "raw": [rng.randint(0, 10 ** 6) for _ in range(60)], "out_of_order": out_of_order}


# ------------------------------------------------------------------ generation: recipes
def tpl(table, count=None, nick=None, fields=None, friends=None, once=False):
    t = {"object": table}
    if nick:
        t["nickname"] = nick
    if once:
        t["just_once"] = True
    if count is not None:
        t["count"] = count
    f = dict(fields or {})
    if nick:
        f["nk"] = nick
    if f:
        t["fields"] = f
    if friends:
        t["friends"] = friends
    return t


def rref(to, unique=False, parent=None):
    if not unique and parent is None:
        return {"random_reference": to}
    d = {"to": to}
    if unique:
        d["unique"] = True
    if parent:
        d["parent"] = parent
    return {"random_reference": d}


def gen_recipe(rng, t=None, p=None, layout=None, unique=None):
    layout = layout or rng.choice(["table", "nick", "two_templates", "friend", "just_once", "nested", "forward_reserved",
                                   "friend_nick", "nested_nick", "once_plus_repeating", "reserved_then_nick",
                                   "nick_like_table"])
    t = rng.randint(0, 6) if t is None else t
    p = rng.randint(0, 8) if p is None else p
    unique = (rng.random() < 0.5) if unique is None else unique
    stmts = []
    to = "A"
    if layout == "table":
        stmts = [tpl("A", t), tpl("P", p, fields={"r": rref("A", unique)})]
    elif layout == "nick":
        to = "aa"
        stmts = [tpl("A", t, nick="aa"), tpl("A", rng.randint(0, 2)), tpl("P", p, fields={"r": rref("aa", unique)})]
    elif layout == "two_templates":
        stmts = [tpl("A", t), tpl("A", rng.randint(0, 3), nick="a2"), tpl("P", p, fields={"r": rref("A", unique)})]
    elif layout == "friend":       # targets grow while they are being consumed
        stmts = [tpl("A", max(t, 1), friends=[tpl("P", rng.randint(1, 2), fields={"r": rref("A", unique)})])]
    elif layout == "nested":
        stmts = [tpl("A", t), tpl("Q", max(1, p // 2), fields={"kid": [tpl("P", 2, fields={"r": rref("A", unique)})]})]
    elif layout == "just_once":
        stmts = [tpl("A", max(t, 1), once=True, nick="aa"), tpl("P", p, fields={"r": rref(rng.choice(["A", "aa"]), unique)})]
        to = "A"
    elif layout == "forward_reserved":   # K3: an id of A is reserved by a forward reference before A's rows exist
        stmts = [tpl("F", 1, fields={"fwd": {"reference": "aa"}}), tpl("A", max(t, 1)),
                 tpl("P", max(p, 1), fields={"r": rref("A", unique)}), tpl("A", 1, nick="aa")]
    elif layout == "friend_nick":        # the nickname is declared on a friend template only
        to = "aa"
        stmts = [tpl("Pa", rng.randint(1, 2), friends=[tpl("A", rng.randint(1, 2), nick="aa")]), tpl("A", rng.randint(0, 2)),
                 tpl("P", max(p, 1), fields={"r": rref("aa", unique)})]
    elif layout == "nested_nick":        # ... or on a template nested in a field
        to = "aa"
        stmts = [tpl("Pa", rng.randint(1, 2), fields={"kid": [tpl("A", 1, nick="aa")]}), tpl("A", rng.randint(0, 2)),
                 tpl("P", max(p, 1), fields={"r": rref("aa", unique)})]
    elif layout == "once_plus_repeating":   # one table fed by a just_once template and by a repeating one
        n1, n2 = rng.choice([(None, None), ("a2", None), (None, "aa"), ("a2", "aa"), ("aa", "aa")])
        to = rng.choice([x for x in ("A", n2) if x])
        stmts = [tpl("A", rng.randint(1, 2), once=True, nick=n1), tpl("A", max(t, 1), nick=n2),
                 tpl("P", max(p, 1), fields={"r": rref(to, unique)})]
    elif layout == "reserved_then_nick":    # a reserved low id is saved after the nicknamed rows it precedes
        to = "aa"
        stmts = [tpl("F", 1, fields={"fwd": {"reference": "a2"}}), tpl("A", max(1, t % 3), nick="aa"),
                 tpl("A", 1, nick="a2"), tpl("P", max(p, 1), fields={"r": rref("aa", unique)})]
    elif layout == "nick_like_table":     # a friend's nickname is spelled like the target table's name
        stmts = [tpl("A", rng.randint(1, 2)), tpl("W", rng.randint(2, 3), friends=[tpl("K", rng.randint(1, 2), nick="A")]),
                 tpl("P", max(p, 2), fields={"r": rref("A", unique), "q": rref("K", False)})]
    stmts.append(tpl(MARK))
    reps = rng.choice([1, 1, 2, 3])
    ks = [reps]
    if rng.random() < (0.8 if layout == "once_plus_repeating" else 0.35):    # a chain of continuation runs
        ks = rng.choice([[1, 1], [1, 2], [2, 1], [1, 1, 1]])
        reps = sum(ks)
    return {"kind": "recipe", "layout": layout, "t": t, "p": p, "unique": unique, "to": to,
            "stmts": stmts, "reps": reps, "ks": ks, "bias": rng.choice(["lo", "hi", "mix", "mix"]),
            "raw": [rng.randint(0, 10 ** 6) for _ in range(400)]}


def generate(rng, tier):
    cases = []
    for _ in range(350 if tier == "quick" else 9000):
        cases.append(gen_script(rng))
    for _ in range(25 if tier == "quick" else 400):
        cases.append(gen_script(rng, out_of_order=True))
    if tier == "thorough":
        for layout in ["table", "nick", "two_templates", "friend", "just_once", "nested"]:
            for t in range(0, 7):
                for p in range(0, 9):
                    for unique in (False, True):
                        cases.append(gen_recipe(rng, t, p, layout, unique))
    for _ in range(260 if tier == "quick" else 3000):
        cases.append(gen_recipe(rng))
    return cases


# ------------------------------------------------------------------ implementation
def run_script(case):
    from snowfakery.row_history import RowHistory, RandomReferenceContext
    names = dict(case["names"])
    rhist = RowHistory(dict(case["counters"]), sorted(set(names.values())), names)
    ctx = {}
    obs, draws, ranges = [], [], []
    raw = iter(case["raw"])
    with injected_randbelow(raw=[next(raw) for _ in range(40)]) as rec:
        for op in case["ops"]:
            if op[0] == "save":
                try:
                    rhist.save_row(op[1], op[2], {"id": op[3]})
                    obs.append(["none"])
                except BaseException as e:
                    obs.append(["err", C.canon_exc(e)])
                    return {"obs": obs, "draws": draws, "ranges": ranges, "urr": rec.values, "aborted": True}
            elif op[0] == "reset":
                rhist.reset_locals()
                obs.append(["none"])
            elif op[0] == "ref":
                chosen = {}

                def pick(a, b, seed=op[2]):
                    chosen["r"] = (a, b)
                    chosen["d"] = a + seed % (b - a + 1) if b >= a else a
                    return chosen["d"]
                try:
                    ref = rhist.random_row_reference(op[1], "current-iteration", pick)
                    obs.append(["ref", ref._tablename, ref.id])
                except BaseException as e:
                    obs.append(["err", C.canon_exc(e)])
                draws.append(chosen.get("d"))
                ranges.append(chosen.get("r"))
            else:
                c = ctx.setdefault(op[1], RandomReferenceContext(rhist, op[1], unique=True))
                try:
                    ref = c.next()
                    obs.append(["ref", ref._tablename, ref.id])
                except BaseException as e:
                    obs.append(["err", C.canon_exc(e)])
                    break       # the model stops comparing after the first unique error
                draws.append(None)
                ranges.append(None)
    return {"obs": obs, "draws": draws, "ranges": ranges, "urr": rec.values}


def run_recipe(case):
    import yaml
    from snowfakery.data_generator import generate
    from snowfakery.api import SnowfakeryApplication
    from snowfakery.data_generator_runtime import StoppingCriteria
    from .sfcore import make_capture
    cap = make_capture()
    app = SnowfakeryApplication(StoppingCriteria("__REPS__", case["reps"]))
    app.echo = lambda *a, **k: None
    raw = case["raw"]
    bias = case["bias"]

    def chooser(n, idx):
        r = raw[idx % len(raw)]
        if bias == "lo":
            return 0 if r % 3 else r % n
        if bias == "hi":
            return n - 1 if r % 3 else r % n
        return (0, n - 1, r % n)[r % 3]
    text = yaml.safe_dump(case["stmts"], sort_keys=False)
    ks = case.get("ks") or [case["reps"]]
    cont = None
    with injected_randbelow(chooser=chooser) as rec:
        for i, k in enumerate(ks):
            app = SnowfakeryApplication(StoppingCriteria("__REPS__", k))
            app.echo = lambda *a, **kw: None
            out_cont = io.StringIO() if i < len(ks) - 1 else None
            try:
                generate(io.StringIO(text), {}, cap, app, generate_continuation_file=out_cont,
                         continuation_file=io.StringIO(cont) if cont else None)
            except BaseException as e:
                if type(e).__name__ == "_CaseTimeout":
                    raise
                return {"err": C.canon_exc(e), "msg": str(e)[:200], "rows": cap.rows, "draws": list(rec.values)}
            cont = out_cont.getvalue() if out_cont else None
            if cont is not None:
                cap.rows.append(["@run-boundary", []])     # not a row: the next run starts here
    return {"ok": cap.rows, "draws": list(rec.values)}


def run_impl(case):
    return run_script(case) if case["kind"] == "script" else run_recipe(case)


# ------------------------------------------------------------------ model side
def _ops_coq(case, obs):
    out = []
    di = 0
    n_obs = len(obs["obs"])
    for j, op in enumerate(case["ops"][:n_obs]):
        if op[0] == "save":
            out.append(f"(HSave {C.cstr(op[1])} {C.copt(op[2], C.cstr)} {C.cz(op[3])})")
        elif op[0] == "reset":
            out.append("HReset")
        elif op[0] == "ref":
            d = obs["draws"][di]
            di += 1
            out.append(f"(HRef {C.cstr(op[1])} {C.cz(d if d is not None else 0)})")
        else:
            di += 1
            out.append(f"(HURef {C.cstr(op[1])})")
    return C.clist(out)


def _obs_coq(o):
    if o[0] == "none":
        return "ONone"
    if o[0] == "ref":
        return f"(ORefd {C.cstr(o[1])} {C.cz(o[2])})"
    return f"(OErr {C.cerr(o[1])})"


def to_sfcore(case):
    """the recipe of an end-to-end case as an SF-core AST (harness/sfcore.py), or None when it uses
    `unique` / `parent`, which the interpreter model does not cover"""
    def fdef(v):
        if isinstance(v, str):
            return ["str", v]
        if isinstance(v, int):
            return ["int", v]
        if isinstance(v, list):
            return ["nested", tpl(v[0])]
        if isinstance(v, dict) and "reference" in v:
            return ["ref", v["reference"]]
        if isinstance(v, dict) and "random_reference" in v:
            if not isinstance(v["random_reference"], str):
                raise ValueError("unique / parent")
            return ["randref", v["random_reference"]]
        raise ValueError(repr(v))

    def tpl(t):
        return {"table": t["object"], "nick": t.get("nickname"), "once": bool(t.get("just_once")),
                "count": (["int", t["count"]] if "count" in t else None),
                "fields": [[k, fdef(v)] for k, v in (t.get("fields") or {}).items()],
                "friends": [["obj", tpl(f)] for f in t.get("friends", [])]}
    try:
        return {"version": 2, "options": [], "stmts": [["obj", tpl(t)] for t in case["stmts"]]}
    except ValueError:
        return None


def coq_case(case, obs):
    if case["kind"] == "recipe":
        r = to_sfcore(case)
        if r is None or "draws" not in obs:
            return None
        from . import sfcore as S
        rows = obs.get("ok", obs.get("rows", []))
        runs, cur = [], []
        for row in rows:
            if row[0] == "@run-boundary":
                runs.append(cur)
                cur = []
            else:
                cur.append(row)
        runs.append(cur)
        ks = case.get("ks") or [case["reps"]]
        if "ok" in obs:
            if len(runs) != len(ks) or not all(S.comparable(x) for x in runs):
                return None
            exp = "(Ok " + C.clist(S.rows_coq(x) for x in runs) + ")"
        else:
            exp = f"(Err {C.cerr(obs['err'])})"
        return f"KRecipe (CHist PFull {S.recipe_coq(r, obs['draws'])} {C.clist(C.cnat(k) for k in ks)} {exp})"
    if case["kind"] != "script" or obs.get("aborted"):
        return None
    counters = C.clist(C.cpair(C.cstr(k), C.cz(v)) for k, v in case["counters"])
    names = C.clist(C.cpair(C.cstr(k), C.cstr(v)) for k, v in case["names"])
    u = obs["urr"]
    oracle = C.clist(C.cpair(C.cz(u[i]), C.cz(u[i + 1])) for i in range(0, len(u) - 1, 2))
    exp = C.clist(_obs_coq(o) for o in obs["obs"])
    return f"KScript (CScriptH {counters} {names} {oracle} {_ops_coq(case, obs)} {exp})"


# ------------------------------------------------------------------ property oracle
def oracle_script(case, obs):
    saved = []           # (table, id, nick) in order
    since_reset = []
    uniq_seen = {}
    seen_ids = set()
    in_order = True
    last = dict(case["counters"])
    for op, o in zip(case["ops"], obs["obs"]):
        if op[0] == "save":
            if op[3] != last.get(op[1], 0) + 1:
                in_order = False
            last[op[1]] = max(last.get(op[1], 0), op[3])
            saved.append((op[1], op[3], op[2]))
            since_reset.append((op[1], op[3], op[2]))
        elif op[0] == "reset":
            since_reset = []
        elif o[0] == "ref":
            name = op[1]
            nick = name if name in NICKS else None
            table = NICKS.get(name, name)
            cands = [(t, i) for (t, i, n) in saved if t == table and (nick is None or n == nick)]
            local = [(t, i) for (t, i, n) in since_reset if t == table and (nick is None or n == nick)]
            got = (o[1], o[2])
            restored = dict(case["counters"]).get(table, 0)
            if got not in cands and not (nick is None and 1 <= got[1] <= restored):
                return f"script: random reference to {name} returned {got}, which is not a saved row of it (saved: {cands[:8]})"
            if local and got not in local:
                return f"script: random reference to {name} returned {got} although rows of this iteration exist: {local[:8]}"
            if op[0] == "uref":
                if got in uniq_seen.setdefault(name, set()):
                    return f"script: unique reference to {name} returned {got} twice"
                uniq_seen[name].add(got)
        elif o[0] == "err" and o[1] not in ("DGE",):
            if not (o[1] == "AssertionError" and op[0] == "uref"):
                return f"script: operation {op} failed with {o[1]}"
    return None


def oracle_recipe(case, obs):
    if "err" in obs and obs["err"] != "DGE":
        return f"recipe: internal error {obs['err']}: {obs.get('msg','')[:100]}"
    rows = obs.get("ok", obs.get("rows", []))
    to = case["stmts"]
    written = []            # (table, id, nick) in output order
    this_iter = []
    seen_unique = set()
    nrefs = 0
    all_rows = [(t, dict((k, v) for k, v in fs)) for t, fs in rows]
    for pos, (t, fs) in enumerate(rows):
        d = dict((k, v) for k, v in fs)
        if t == MARK:
            this_iter = []
            continue
        if t == "@run-boundary":
            seen_unique = set()     # `unique` is scoped to one run: the context is not persisted
            continue
        if "r" in d and t == "P":
            v = d["r"]
            nrefs += 1
            if v[0] != "ref":
                return f"recipe: random_reference produced a non-reference {v}"
            target_name = _target_name(case)
            nick = target_name if target_name in ("aa", "a2") else None
            cands = [(tt, i) for (tt, i, n) in written if tt == "A" and (nick is None or n == nick)]
            local = [(tt, i) for (tt, i, n) in this_iter if tt == "A" and (nick is None or n == nick)]
            got = (v[1], v[2])
            if got not in cands:
                if got in [(tt, i) for (tt, i, n) in written if tt == "A"]:
                    return (f"recipe[{case['layout']}]: random reference to {target_name} = {got[0]}({got[1]}) names a row "
                            f"created under another nickname (rows of {target_name} so far: {cands[:8]})")
                return (f"recipe[{case['layout']}]: random reference to {target_name} = {got[0]}({got[1]}) names a row "
                        f"that does not exist yet (reserved or never created id; written so far: {cands[:8]})")
            if local and got not in local:
                return (f"recipe[{case['layout']}]: random reference to {target_name} = {got[0]}({got[1]}) ignores the rows "
                        f"of the current iteration {local[:8]}")
            if case["unique"]:
                if got in seen_unique:
                    return f"recipe[{case['layout']}]: unique random reference returned {got} twice"
                seen_unique.add(got)
        if "id" in d and d["id"][0] == "int":
            written.append((t, d["id"][1], d.get("nk", [None, None])[1]))
            this_iter.append(written[-1])
    single = case["reps"] == 1 and len(case.get("ks") or [1]) == 1
    if case["unique"] and case["layout"] in ("table",) and "ok" in obs and single:
        if case["p"] > case["t"]:
            return (f"recipe[table]: {case['p']} unique references to {case['t']} targets all succeeded")
    if case["unique"] and case["layout"] == "table" and "err" in obs and single and case["p"] <= case["t"]:
        return f"recipe[table]: unique references failed although {case['t']} targets >= {case['p']} pickers: {obs.get('msg','')[:80]}"
    if case["layout"] == "table" and "err" in obs and case["t"] >= 1 and (not case["unique"] or case["p"] <= case["t"]):
        return f"recipe[table]: random_reference failed although targets exist: {obs.get('msg','')[:80]}"
    if case["layout"] in ("friend_nick", "nested_nick", "once_plus_repeating") and "err" in obs and not case["unique"]:
        return (f"recipe[{case['layout']}]: random_reference failed although rows of the target exist before every "
                f"picker: {obs.get('msg','')[:120]}")
    return None


def _target_name(case):
    for s in case["stmts"]:
        for holder in [s] + list(s.get("friends", [])) + [k for f in (s.get("fields") or {}).values() if isinstance(f, list) for k in f]:
            f = (holder.get("fields") or {}).get("r") if isinstance(holder, dict) else None
            if isinstance(f, dict) and "random_reference" in f:
                rr = f["random_reference"]
                return rr if isinstance(rr, str) else rr["to"]
    return "A"


def oracle(case, obs):
    return oracle_script(case, obs) if case["kind"] == "script" else oracle_recipe(case, obs)


def nontrivial(case, obs):
    if case["kind"] == "script":
        return any(o[0] == "ref" for o in obs["obs"])
    return any(k == "r" for _, fs in obs.get("ok", []) for k, _ in fs)


def stats(cases, obss):
    st = {"kinds": dict(Counter(c["kind"] for c in cases)),
          "layouts": dict(Counter(c.get("layout") for c in cases if c["kind"] == "recipe")),
          "unique": dict(Counter(str(c.get("unique")) for c in cases if c["kind"] == "recipe")),
          "histories": dict(Counter("+".join(map(str, c.get("ks") or [c["reps"]])) for c in cases if c["kind"] == "recipe")),
          "script_ops": dict(Counter(o[0] for c in cases if c["kind"] == "script" for o in c["ops"])),
          "script_outcomes": dict(Counter(o[0] if o[0] != "err" else "err:" + o[1]
                                          for ob in obss if isinstance(ob, dict) and "obs" in ob for o in ob["obs"])),
          "recipe_outcomes": dict(Counter(("ok" if "ok" in ob else ob.get("err")) for ob in obss
                                          if isinstance(ob, dict) and ("ok" in ob or "err" in ob)))}
    return st


def shrink(case):
    if case["kind"] == "script":
        ops = case["ops"]
        for i in range(len(ops)):
            yield dict(case, ops=ops[:i] + ops[i + 1:])
    else:
        if case["reps"] > 1:
            yield dict(case, reps=case["reps"] - 1)


def directed_search(rng, disagreeing):
    return [gen_script(rng) for _ in range(1500)] + [gen_recipe(rng) for _ in range(600)]


def match_finding(case, obs, msg, findings):
    ids = {f["id"] for f in findings}
    if "K3" in ids:
        if case["kind"] == "script" and case.get("out_of_order"):
            return "K3"
        if case["kind"] == "recipe" and case["layout"] in ("forward_reserved", "reserved_then_nick") \
                and ("does not exist yet (reserved" in msg or "Problem rendering value" in msg
                     or "ignores the rows of the current iteration" in msg):
            return "K3"
    return None
