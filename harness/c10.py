"""C10 — random_reference picks existing, correctly scoped targets; unique never repeats.
Model: coq/theories/RowHistory.v (+ RandRange.v for `unique`); theorems: coq/props/C10.v.
Case kinds: script (kernel, one unique context), recipe (end to end, one call site; non-unique ones also against the
interpreter model), mscript (kernel, several call sites), multi (recipes with several call sites, compared as traces;
stream "scope": parent rows that outlive an iteration, continuation chains; stream "values": `parent:` naming a plain
value - field / hidden field / variable - computed anew for every row)."""
import io
from collections import Counter

from . import common as C
from .oracle_random import injected_randbelow

PROP = "C10"
MODEL = "C10Cases"
COQ_IMPORTS = ["From SFV Require Import RandRange RowHistory Interp."]
CHECK_FN = "check_kcase"
SKIPPED_FN = "kcase_unsupported"
SHARD = 250
CASE_TIMEOUT = 40
MARK = "Zmark"
RULE = ("(i) kernel: the real RowHistory / RandomReferenceContext objects driven with operation scripts (save_row "
        "with in-order and out-of-order ids, nicknames, reset_locals, random_row_reference with the draw injected, "
        "unique references with the range generator's draws injected) and compared step by step with the model; "
        "(ii) end to end: recipes with random_reference by table / nickname, several templates feeding one table, "
        "nested / friend placement (targets growing while being consumed), just_once targets, 1-3 iterations, "
        "unique with every count pair (targets 0..6, pickers 0..8), draws biased to both ends of every interval; "
        "oracle: target written earlier, right table / nickname, from the current iteration if it has one, unique "
        "never repeats and fails when exhausted; (iii) several call sites: kernel scripts in which 2-4 call sites (states "
        "fetched through the real Interpreter.get_contextual_state, each a real RandomReferenceContext; same target, "
        "parent rows, global scope) share one row history, and recipes with several random_reference call sites on one "
        "target (two fields, two templates, a macro included by several templates, a YAML alias, two sites in one field "
        "behind `if`, flow style = one source line; unique / parent / scope; targets plain, by nickname, two templates, "
        "just_once, growing, interleaved with the pickers); every run is read back as a trace (saves, iteration ends, one "
        "operation per reference cell with its call site and parent row) that the model must reproduce cell by cell from "
        "the recorded random draws, including that the run fails exactly when a site of the next row has to be refused; "
        "oracle per call site: eligible row, never twice under one parent row, refused only after using every eligible "
        "row; (iv) lifetime of a scope: recipes whose `parent:` row outlives the iteration that made it (just_once row "
        "found again by table name / nickname, shadowed by a repeating template of the same table, restored from a "
        "continuation file) next to per-iteration parents, targets whose eligible rows overlap between iterations "
        "(just_once, just_once + repeating, prior-and-current-iterations scope, rows added between the pickers) or not, "
        "2-5 iterations also split into continuation runs: the oracle keeps a scope over iteration ends for as long as the "
        "parent row is the same row of the same run, the model reproduces the first run cell by cell; (v) `parent:` naming a "
        "plain VALUE (round 5): field_vars().get(parent) may be a field of the row being built, a hidden field or a variable; "
        "recipes whose parent value is computed anew by a formula for every row (fields) or every iteration (variables): "
        "ints below / around / above 256, negative (-1, -2 ...), huge, strings built by formulas or mixed text, floats, dates, "
        "datetimes, booleans, literals, equal values reached by different routes from row to row, classic dialect (most "
        "results are text) and version 3 (native types); groups = runs of consecutive rows with EQUAL parent values (blocks, "
        "two values taking turns so that a parent comes back, one value throughout; counted by child_index or by iteration, "
        "so that a group may span iterations and continuation runs), next to sites with object-row parents and without "
        "parent; the oracle's scope is the parent VALUE for as long as it lasts (equal values = one scope, whatever objects "
        "carry them), the model's parent token is the class of equal values; kernel scripts hand get_contextual_state a "
        "freshly built equal value on every evaluation (ints, negative, huge, str, float, date, datetime, Decimal, tuple, "
        "values that print alike but differ).  "
        "non-trivial: >= 1 random reference was produced; distinct by case hash")
TRUSTED = ["harness/oracle_random.py (random.Random._randbelow patched to inject draws)",
           "harness/c10.py drives snowfakery.row_history.RowHistory / RandomReferenceContext directly",
           "harness/c10.py derive_trace: the attribution of reference cells to call sites (table + field [+ parity of the "
           "row id for `if`]) and of parent rows (the row's `par: reference Q` cell), cross-checked against the statically "
           "expanded row sequence; unattributable runs are skipped, never failed",
           "harness/c10.py _group_index: which rows of a `values` recipe carry equal parent values (integer arithmetic on "
           "child_index / iteration mirrored from the formula the generator wrote), cross-checked on every written row "
           "against the value the row shows (equal cells <=> equal groups), else the run is skipped"]
ASSUMPTIONS = ["randint(a,b) returns an integer in [a,b] (theorems quantify over all such draws)",
               "randint(a,b) = a + _randbelow(b-a+1) (CPython), used to replay plain references from the recorded stream",
               "sqlite stores and returns the saved rows faithfully (row payloads are not compared)"]

WINDOW_BACK = "C10-unique-window-moves-back"
TABLES = ["A", "B"]
NICKS = {"aa": "A", "a2": "A", "bb": "B"}


# ------------------------------------------------------------------ generation: kernel scripts
def gen_script(rng, out_of_order=False):
    names = dict(NICKS)
    names.update({t: t for t in TABLES})
    counters = {}
    if rng.random() < 0.3:          # continued run: counters restored, persistent rows re-saved first
        for t in TABLES:
            if rng.random() < 0.7:
                counters[t] = rng.randint(1, 4)
    next_id = {t: counters.get(t, 0) for t in TABLES}
    ops = []
    pending = []                     # reserved (skipped) ids, created later
    for _ in range(rng.randint(3, 16)):
        r = rng.random()
        if r < 0.45:
            t = rng.choice(TABLES)
            nick = rng.choice([None, None] + [n for n, tt in NICKS.items() if tt == t])
            if pending and rng.random() < 0.5:
                pt, pid = pending.pop(0)
                ops.append(["save", pt, None, pid])
                continue
            next_id[t] += 1
            if out_of_order and rng.random() < 0.3:
                pending.append((t, next_id[t]))      # id reserved by a forward reference
                next_id[t] += 1
            ops.append(["save", t, nick, next_id[t]])
        elif r < 0.55:
            ops.append(["reset"])
        elif r < 0.85:
            ops.append(["ref", rng.choice(TABLES + list(NICKS) + ["Zed"]), rng.randint(0, 10 ** 6)])
        else:
            ops.append(["uref", rng.choice(TABLES + ["aa"])])
    # a unique context belongs to one field: keep a single target name for the unique refs
    uname = next((o[1] for o in ops if o[0] == "uref"), None)
    ops = [o if o[0] != "uref" else ["uref", uname] for o in ops]
    return {"kind": "script", "counters": sorted(counters.items()), "names": sorted(names.items()), "ops": ops,
            "raw": [rng.randint(0, 10 ** 6) for _ in range(60)], "out_of_order": out_of_order}


# ------------------------------------------------------------------ generation: recipes
def tpl(table, count=None, nick=None, fields=None, friends=None, once=False):
    t = {"object": table}
    if nick:
        t["nickname"] = nick
    if once:
        t["just_once"] = True
    if count is not None:
        t["count"] = count
    f = dict(fields or {})
    if nick:
        f["nk"] = nick
    if f:
        t["fields"] = f
    if friends:
        t["friends"] = friends
    return t


def rref(to, unique=False, parent=None):
    if not unique and parent is None:
        return {"random_reference": to}
    d = {"to": to}
    if unique:
        d["unique"] = True
    if parent:
        d["parent"] = parent
    return {"random_reference": d}


def gen_recipe(rng, t=None, p=None, layout=None, unique=None):
    layout = layout or rng.choice(["table", "nick", "two_templates", "friend", "just_once", "nested", "forward_reserved",
                                   "friend_nick", "nested_nick", "once_plus_repeating", "reserved_then_nick",
                                   "nick_like_table"])
    t = rng.randint(0, 6) if t is None else t
    p = rng.randint(0, 8) if p is None else p
    unique = (rng.random() < 0.5) if unique is None else unique
    stmts = []
    to = "A"
    if layout == "table":
        stmts = [tpl("A", t), tpl("P", p, fields={"r": rref("A", unique)})]
    elif layout == "nick":
        to = "aa"
        stmts = [tpl("A", t, nick="aa"), tpl("A", rng.randint(0, 2)), tpl("P", p, fields={"r": rref("aa", unique)})]
    elif layout == "two_templates":
        stmts = [tpl("A", t), tpl("A", rng.randint(0, 3), nick="a2"), tpl("P", p, fields={"r": rref("A", unique)})]
    elif layout == "friend":       # targets grow while they are being consumed
        stmts = [tpl("A", max(t, 1), friends=[tpl("P", rng.randint(1, 2), fields={"r": rref("A", unique)})])]
    elif layout == "nested":
        stmts = [tpl("A", t), tpl("Q", max(1, p // 2), fields={"kid": [tpl("P", 2, fields={"r": rref("A", unique)})]})]
    elif layout == "just_once":
        stmts = [tpl("A", max(t, 1), once=True, nick="aa"), tpl("P", p, fields={"r": rref(rng.choice(["A", "aa"]), unique)})]
        to = "A"
    elif layout == "forward_reserved":   # K3: an id of A is reserved by a forward reference before A's rows exist
        stmts = [tpl("F", 1, fields={"fwd": {"reference": "aa"}}), tpl("A", max(t, 1)),
                 tpl("P", max(p, 1), fields={"r": rref("A", unique)}), tpl("A", 1, nick="aa")]
    elif layout == "friend_nick":        # the nickname is declared on a friend template only
        to = "aa"
        stmts = [tpl("Pa", rng.randint(1, 2), friends=[tpl("A", rng.randint(1, 2), nick="aa")]), tpl("A", rng.randint(0, 2)),
                 tpl("P", max(p, 1), fields={"r": rref("aa", unique)})]
    elif layout == "nested_nick":        # ... or on a template nested in a field
        to = "aa"
        stmts = [tpl("Pa", rng.randint(1, 2), fields={"kid": [tpl("A", 1, nick="aa")]}), tpl("A", rng.randint(0, 2)),
                 tpl("P", max(p, 1), fields={"r": rref("aa", unique)})]
    elif layout == "once_plus_repeating":   # one table fed by a just_once template and by a repeating one
        n1, n2 = rng.choice([(None, None), ("a2", None), (None, "aa"), ("a2", "aa"), ("aa", "aa")])
        to = rng.choice([x for x in ("A", n2) if x])
        stmts = [tpl("A", rng.randint(1, 2), once=True, nick=n1), tpl("A", max(t, 1), nick=n2),
                 tpl("P", max(p, 1), fields={"r": rref(to, unique)})]
    elif layout == "reserved_then_nick":    # a reserved low id is saved after the nicknamed rows it precedes
        to = "aa"
        stmts = [tpl("F", 1, fields={"fwd": {"reference": "a2"}}), tpl("A", max(1, t % 3), nick="aa"),
                 tpl("A", 1, nick="a2"), tpl("P", max(p, 1), fields={"r": rref("aa", unique)})]
    elif layout == "nick_like_table":     # a friend's nickname is spelled like the target table's name
        stmts = [tpl("A", rng.randint(1, 2)), tpl("W", rng.randint(2, 3), friends=[tpl("K", rng.randint(1, 2), nick="A")]),
                 tpl("P", max(p, 2), fields={"r": rref("A", unique), "q": rref("K", False)})]
    stmts.append(tpl(MARK))
    reps = rng.choice([1, 1, 2, 3])
    ks = [reps]
    if rng.random() < (0.8 if layout == "once_plus_repeating" else 0.35):    # a chain of continuation runs
        ks = rng.choice([[1, 1], [1, 2], [2, 1], [1, 1, 1]])
        reps = sum(ks)
    return {"kind": "recipe", "layout": layout, "t": t, "p": p, "unique": unique, "to": to,
            "stmts": stmts, "reps": reps, "ks": ks, "bias": rng.choice(["lo", "hi", "mix", "mix"]),
            "raw": [rng.randint(0, 10 ** 6) for _ in range(400)]}


# ------------------------------------------------------------------ generation: several call sites, kernel level
PARENT_VALUE_KINDS = ["small_int", "int", "negative_int", "negative_big", "big_int", "str", "float", "date", "datetime",
                      "tuple", "decimal", "int_or_text"]


def fresh_parent_value(kind, p):
    """the parent VALUE number p of a kind: equal for equal p, different for different p, and (except for the
    ints CPython shares) a new object on every call - as a field or variable computed once per row is"""
    import datetime as _dt
    import decimal as _dec
    if kind == "small_int":
        return int(str(p))
    if kind == "int":
        return int(str(256 + p))
    if kind == "negative_int":              # -1, -2, ... (different values, one of the pairs with equal hashes)
        return int(str(-p))
    if kind == "negative_big":
        return int(str(-300 - p))
    if kind == "int_or_text":               # 1001, "1001", 1002, "1002": different values that print alike
        return int(str(1000 + (p + 1) // 2)) if p % 2 else str(1000 + (p + 1) // 2)
    if kind == "big_int":
        return int(str(10 ** 20 + p))
    if kind == "str":
        return "grp-%d" % p
    if kind == "float":
        return float(str(p)) + 0.5
    if kind == "date":
        return _dt.date(2020, 1, 1) + _dt.timedelta(days=p)
    if kind == "datetime":
        return _dt.datetime(2020, 1, 1, tzinfo=_dt.timezone.utc) + _dt.timedelta(hours=p)
    if kind == "decimal":
        return _dec.Decimal(p) / 4
    return (p, "grp")


def gen_mscript(rng, pkind=None, parented=0.3, pswitch=0.06):
    """several call sites (RandomReferenceContext objects obtained through get_contextual_state) over ONE row
    history: sites aimed at the same target (same or different scope / parent) are the rule, not the exception"""
    names = dict(NICKS)
    names.update({t: t for t in TABLES})
    counters = {}
    if rng.random() < 0.2:
        for t in TABLES:
            if rng.random() < 0.7:
                counters[t] = rng.randint(1, 3)
    main = rng.choice(["A", "A", "aa", "B"])
    nsites = rng.randint(2, 4)
    sites = []
    for s in range(1, nsites + 1):
        name = main if rng.random() < 0.75 else rng.choice(TABLES + list(NICKS))
        sites.append({"site": s, "name": name, "glob": rng.random() < 0.15, "parented": rng.random() < parented})
    next_id = {t: counters.get(t, 0) for t in TABLES}
    ptoken = 0
    ops = []
    pool = {}                 # (site, parent) -> rough number of fresh targets left (only steers the generator)

    def saved(t, nick):
        next_id[t] += 1
        ops.append(["save", t, nick, next_id[t]])
        for st in sites:
            if st["name"] in (t, nick):
                for k in list(pool):
                    if k[0] == st["site"]:
                        pool[k] += 1
                st["fresh"] = st.get("fresh", 0) + 1
    mt = NICKS.get(main, main)

    def save_main():
        saved(mt, main if main in NICKS else rng.choice([None, None, "aa"] if mt == "A" else [None, "bb"]))
    for _ in range(rng.randint(0, 4)):
        save_main()
    for _ in range(rng.randint(6, 30)):
        r = rng.random()
        if r < 0.28:
            if rng.random() < 0.75:
                save_main()
            else:
                t = rng.choice(TABLES)
                saved(t, rng.choice([None] + [n for n, tt in NICKS.items() if tt == t]))
        elif r < 0.36:
            ops.append(["reset"])
            pool.clear()
            for st in sites:
                st["fresh"] = 0
            if rng.random() < 0.8:          # most iterations create rows of the target before it is referenced
                for _ in range(rng.randint(1, 3)):
                    save_main()
        elif r < 0.43:
            ops.append(["ref", rng.choice([main, main] + TABLES + list(NICKS) + ["Zed"]), rng.random() < 0.15])
        elif r < 0.43 + pswitch:
            ptoken += 1                      # a new parent row begins
        else:
            st = rng.choice(sites)
            p = 0
            if st["parented"]:
                p = max(ptoken, 1) if rng.random() < 0.92 else rng.randint(1, max(ptoken, 1))
            key = (st["site"], p)
            if key not in pool:
                pool[key] = st.get("fresh", 0)
            if pool[key] <= 0 and rng.random() < 0.85:
                continue                     # mostly ask while something is left; sometimes run into the refusal
            pool[key] -= 1
            ops.append(["uref", st["site"], p, st["name"], st["glob"]])
    sites = [{k: v for k, v in st.items() if k != "fresh"} for st in sites]
    # what stands for a parent: an object row (one object per parent) or a plain VALUE that is computed anew - an
    # equal, but not the same, object - every time the call site is evaluated
    pkind = pkind or rng.choice(["row"] * len(PARENT_VALUE_KINDS) + PARENT_VALUE_KINDS)
    return {"kind": "mscript", "counters": sorted(counters.items()), "names": sorted(names.items()), "ops": ops,
            "nsites": nsites, "same_target": len({(x["name"]) for x in sites}) < nsites, "pkind": pkind,
            "raw": [rng.randint(0, 10 ** 6) for _ in range(120)]}


def gen_value_mscript(rng):
    """kernel scripts whose sites are mostly parented, the parent being a plain value that changes often; the kinds in
    which DIFFERENT values look alike to a sloppy comparison (equal hashes, equal text) come up more often"""
    kind = rng.choice(PARENT_VALUE_KINDS + ["negative_int", "int_or_text"] * 3)
    if rng.random() < 0.5:
        return gen_mscript(rng, kind, 0.85, 0.16)
    # a few targets; one or two call sites asked about as often as there are targets under a parent value, then under
    # another one, then under the first again ...: a comparison that takes equal values for different ones repeats a
    # target, one that takes different values for equal ones refuses too early
    names = dict(NICKS)
    names.update({t: t for t in TABLES})
    main = rng.choice(["A", "A", "aa", "B"])
    mt = NICKS.get(main, main)
    n = rng.randint(2, 5)
    ops = [["save", mt, main if main in NICKS else None, i] for i in range(1, n + 1)]
    nsites = rng.randint(1, 2)
    last = 0
    for _ in range(rng.randint(2, 5)):
        p = rng.choice([x for x in (1, 2, 3) if x != last])
        last = p
        for _ in range(n if rng.random() < 0.7 else rng.randint(1, n)):
            ops.append(["uref", rng.randint(1, nsites), p, main, False])
        if rng.random() < 0.2:
            ops.append(["reset"])
            ops += [["save", mt, main if main in NICKS else None, i] for i in range(n + 1, 2 * n + 1)]
            n *= 2
            if n > 10:
                break
    return {"kind": "mscript", "counters": [], "names": sorted(names.items()), "ops": ops, "nsites": nsites,
            "same_target": nsites > 1, "pkind": kind, "raw": [rng.randint(0, 10 ** 6) for _ in range(120)]}


# ------------------------------------------------------------------ generation: several call sites, recipe level
def _sitedef(to, unique, parent=None, glob=False):
    d = {"to": to}
    if unique:
        d["unique"] = True
    if parent:
        d["parent"] = parent
    if glob:
        d["scope"] = "prior-and-current-iterations"
    if list(d) == ["to"]:
        return {"random_reference": to}
    return {"random_reference": d}


def _site_of_def(v):
    rr = v["random_reference"]
    if isinstance(rr, str):
        return {"to": rr, "unique": False, "parent": None, "glob": False}
    return {"to": rr["to"], "unique": bool(rr.get("unique")), "parent": rr.get("parent"),
            "glob": rr.get("scope") == "prior-and-current-iterations"}


def gen_multi(rng, t=None, c=None):
    """recipes in which SEVERAL random_reference call sites are aimed at the same target: two fields of one
    template, fields of two templates, one definition included from a macro by several templates, one definition
    shared through a YAML alias, the whole recipe on one line (flow style); with and without `unique`, `parent`
    (enclosing row, or the row of an earlier template) and `scope`; targets by table / nickname / fed by two
    templates / just_once / growing while they are consumed"""
    import json as _json
    import yaml
    t = rng.choice([0, 1, 2, 3, 3, 4, 4, 5, 6]) if t is None else t
    tlayout = rng.choice(["plain", "plain", "nick", "two", "once", "once_plus", "growth", "interleaved"])
    stmts = []
    grow_friends = []
    if tlayout == "plain":
        stmts.append(tpl("A", t)); tos = ["A"]
    elif tlayout == "nick":
        stmts += [tpl("A", t, nick="aa"), tpl("A", rng.randint(0, 2))]; tos = ["aa", "aa", "A"]
    elif tlayout == "two":
        stmts += [tpl("A", t), tpl("A", rng.randint(0, 2), nick="a2")]; tos = ["A", "A", "a2"]
    elif tlayout == "once":
        stmts.append(tpl("A", max(t, 1), once=True, nick="aa")); tos = ["A", "aa"]
    elif tlayout == "once_plus":
        n2 = rng.choice([None, "aa"])
        stmts += [tpl("A", rng.randint(1, 2), once=True, nick=rng.choice([None, "a2"])), tpl("A", max(t, 1), nick=n2)]
        tos = ["A"] + ([n2] if n2 else [])
    elif tlayout == "interleaved":          # rows of the target are created between the pickers of one iteration
        stmts.append(tpl("A", rng.randint(1, 3), once=rng.random() < 0.7)); tos = ["A"]
    else:                                   # growth: pickers are friends of the target template
        g = tpl("A", max(t, 1))
        g["friends"] = grow_friends
        stmts.append(g); tos = ["A"]
    if rng.random() < 0.3:
        stmts.append(tpl("B", rng.randint(1, 4), nick="bb")); tos += ["B", "bb"]
    main = tos[0]
    q_kids, q_friends = [], []
    q = {"object": "Q", "count": rng.randint(1, 3)}
    stmts.append(q)
    # definitions written once and used from several places
    shared = _sitedef(main, True, rng.choice([None, None, "Q"]), rng.random() < 0.1)
    macro_fields = {"mr1": _sitedef(main, rng.random() < 0.85, rng.choice([None, None, "Q"]), rng.random() < 0.1)}
    if rng.random() < 0.3:
        macro_fields["mr2"] = _sitedef(rng.choice(tos), rng.random() < 0.7)
    use_macro = rng.random() < 0.45
    use_alias = rng.random() < 0.35
    npick = rng.randint(1, 3)
    if use_macro or use_alias:
        npick = max(npick, rng.choice([1, 2, 2]))
    sites = []
    shared_uses = 0
    for k in range(1, npick + 1):
        table = f"P{k}"
        cnt = (rng.randint(1, max(1, min(t, 4))) if rng.random() < 0.75 else rng.randint(1, 4)) if c is None else c
        place = rng.choice(["top", "top", "qfriend", "qnested"] + (["grow"] * 6 if tlayout == "growth" else [])
                           + (["qfriend"] * 4 if tlayout == "interleaved" else []))
        grow = place == "grow"
        if grow:
            cnt = rng.randint(1, 2)
        fields = {} if grow else {"par": {"reference": "Q"}}
        include = None
        if use_macro and (k <= 2 or rng.random() < 0.5):
            if not (grow and any(_site_of_def(v)["parent"] for v in macro_fields.values())):
                include = "m1"
        nown = rng.randint(0 if include else 1, 3)
        for j in range(1, nown + 1):
            if use_alias and rng.random() < 0.6 and not (grow and _site_of_def(shared)["parent"]):
                fields[f"r{j}"] = shared          # the very same object: dumped as anchor / alias
                shared_uses += 1
            elif rng.random() < 0.15:       # two call sites in ONE field, evaluated for even / odd row ids
                fields[f"r{j}"] = {"if": [{"choice": {"when": "${{id % 2 == 0}}", "pick": _sitedef(main, True)}},
                                          {"choice": {"pick": _sitedef(main, rng.random() < 0.8)}}]}
            else:
                par = "Q" if (not grow and rng.random() < 0.3) else None
                fields[f"r{j}"] = _sitedef(main if rng.random() < 0.75 else rng.choice(tos), rng.random() < 0.8,
                                           par, rng.random() < 0.1)
        pt = {"object": table, "count": cnt}
        if fields:
            pt["fields"] = fields
        if include:
            pt["include"] = include
        order = (list(macro_fields.items()) if include else []) + [(f, v) for f, v in fields.items() if f != "par"]
        for f, v in order:
            branches = [(None, v)] if "if" not in v else [("even", v["if"][0]["choice"]["pick"]),
                                                          ("odd", v["if"][1]["choice"]["pick"])]
            for when, bv in branches:
                sd = _site_of_def(bv)
                sd.update({"table": table, "field": f, "site": len(sites) + 1, "place": place, "when": when,
                           "via": "if-branch" if when else "macro" if (include and f in macro_fields) else
                                  ("alias" if v is shared else "own")})
                sites.append(sd)
        {"top": stmts, "qfriend": q_friends, "qnested": q_kids, "grow": grow_friends}[place].append(pt)
    if shared_uses < 2:
        for sd in sites:
            if sd["via"] == "alias":
                sd["via"] = "own"
    if q_kids:
        q["fields"] = {"kid": q_kids}
    if tlayout == "interleaved":
        q_friends.append(tpl("A", rng.randint(1, 2)))
    if q_friends:
        q["friends"] = q_friends
    if tlayout == "growth" and not grow_friends:
        del stmts[0]["friends"]
    if any(sd["via"] == "macro" for sd in sites):
        stmts.insert(0, {"macro": "m1", "fields": macro_fields})
    stmts.append(tpl(MARK))
    flow = rng.random() < 0.25
    text = yaml.safe_dump(stmts, sort_keys=False, default_flow_style=flow, width=10 ** 6)
    plain = _json.loads(_json.dumps(stmts))       # aliases expanded: a structural copy for the harness
    return {"kind": "multi", "tlayout": tlayout, "t": t, "text": text, "stmts": plain, "sites": sites, "flow": flow,
            "reps": rng.choice([1, 2, 2, 3]), "bias": rng.choice(["lo", "hi", "mix", "mix"]),
            "raw": [rng.randint(0, 10 ** 6) for _ in range(400)]}


def gen_scope(rng):
    """the LIFETIME of a uniqueness scope: `unique: true` + `parent:` where the parent row outlives the iteration
    that made it (a just_once row found again by table name or by nickname in every later iteration, also next to a
    repeating template of the same table that shadows it for the rest of the iteration; a row restored from a
    continuation file), next to parents made anew in every iteration; targets whose eligible rows overlap between
    iterations (just_once targets, just_once + repeating, the prior-and-current-iterations scope, rows added
    between the pickers) and targets that do not; 2-5 iterations, also split into chains of continuation runs;
    enough pickers to exhaust the targets in some iteration after the first"""
    import json as _json
    import yaml
    playout = rng.choice(["once", "once", "once_nick", "once_nick", "once_then_iter", "once_then_iter", "iter_nick", "iter"])
    tlayout = rng.choice(["once", "once", "once", "once_plus", "plain", "plain", "two", "nick_once"])
    t = rng.randint(1, 6)
    stmts = []
    if tlayout == "once":
        stmts.append(tpl("A", t, once=True, nick="aa")); tos = ["A", "aa"]
    elif tlayout == "nick_once":          # only the nicknamed rows persist; the table has repeating rows too
        stmts += [tpl("A", t, once=True, nick="aa"), tpl("A", rng.randint(0, 2))]; tos = ["aa"]
    elif tlayout == "once_plus":
        n2 = rng.choice([None, "aa"])
        stmts += [tpl("A", rng.randint(1, 3), once=True, nick=rng.choice([None, "a2"])), tpl("A", rng.randint(1, 3), nick=n2)]
        tos = ["A"] + ([n2] if n2 else [])
    elif tlayout == "two":
        stmts += [tpl("A", rng.randint(1, 3)), tpl("A", rng.randint(0, 2), nick="a2")]; tos = ["A", "A", "a2"]
    else:
        stmts.append(tpl("A", rng.randint(1, 3))); tos = ["A"]
    overlap_by_scope = tlayout in ("plain", "two", "once_plus")
    pnames = ["Q"]
    if playout in ("once", "once_nick", "once_then_iter"):
        q = {"object": "Q", "just_once": True, "count": rng.choice([1, 1, 2])}
        if playout != "once" or rng.random() < 0.3:
            q["nickname"] = "qq"
    else:
        q = {"object": "Q", "count": rng.choice([1, 1, 2])}
        if playout == "iter_nick":
            q["nickname"] = "qq"
    if "nickname" in q:
        pnames.append("qq")
    stmts.append(q)
    npick = rng.randint(1, 3)
    shadow_at = rng.randint(1, npick) if playout == "once_then_iter" else None
    sites = []
    for k in range(1, npick + 1):
        table = f"P{k}"
        fields = {"par": {"reference": "Q"}}
        if "qq" in pnames:
            fields["parn"] = {"reference": "qq"}
        for j in range(1, rng.choice([1, 1, 2]) + 1):
            par = rng.choice(pnames) if rng.random() < 0.85 else None
            glob = rng.random() < (0.6 if overlap_by_scope else 0.1)
            fields[f"r{j}"] = _sitedef(rng.choice(tos), rng.random() < 0.9, par, glob)
            sd = _site_of_def(fields[f"r{j}"])
            sd.update({"table": table, "field": f"r{j}", "site": len(sites) + 1, "place": "top", "when": None, "via": "own"})
            sites.append(sd)
        stmts.append({"object": table, "count": rng.randint(1, 3), "fields": fields})
        if shadow_at == k:                  # from here on `Q` names a row of this iteration; `qq` still the old one
            stmts.append({"object": "Q", "count": 1})
        if tlayout in ("plain", "two") and rng.random() < 0.3:
            stmts.append(tpl("A", 1))       # the window grows between the pickers
    stmts.append(tpl(MARK))
    ks = rng.choice([[2], [2], [3], [3], [4], [5], [1, 2], [2, 2], [1, 3], [1, 1, 2], [2, 1]])
    text = yaml.safe_dump(stmts, sort_keys=False, width=10 ** 6)
    return {"kind": "multi", "stream": "scope", "playout": playout, "tlayout": tlayout, "t": t, "text": text,
            "stmts": _json.loads(_json.dumps(stmts)), "sites": sites, "flow": False, "reps": sum(ks), "ks": ks,
            "bias": rng.choice(["lo", "hi", "mix", "mix"]), "raw": [rng.randint(0, 10 ** 6) for _ in range(400)]}

# ------------------------------------------------------------------ generation: `parent:` naming a plain VALUE
def _group_index(spec, child_index, qid):
    """the number of the group a picker row belongs to (harness side of the formula written into the recipe)"""
    k = child_index if spec["src"] == "child" else max(qid - 1, 0)
    g = k // spec["g"]
    return {"blocks": g, "alternate": g % 2, "constant": 0}[spec["mode"]]


def _value_formula(rng, kind, K, G):
    """a field definition computing the parent value of group number G (a formula text over the row counter K);
    several differently written routes per kind, all injective in G"""
    if kind in ("small_int", "boundary_int", "int", "huge_int", "negative_int"):
        b = {"small_int": rng.randint(0, 40), "boundary_int": rng.randint(252, 257), "int": rng.choice([300, 1000, 70000]),
             "huge_int": 10 ** 20, "negative_int": -rng.choice([1, 1, 300, 5000])}[kind]
        if kind == "negative_int":
            return rng.choice([f"${{{{ {b} - {G} }}}}", f"${{{{ 0 - ({-b} + {G}) }}}}"])
        routes = [f"${{{{ {b} + {G} }}}}", f"${{{{ ({b} + {G}) | int }}}}", f"${{{{ ({2 * b} + 2 * {G}) // 2 }}}}",
                  # equal values computed by two routes, taken in turn from row to row
                  f"${{{{ ({b} + {G}) if {K} % 2 == 0 else (({2 * b} + 2 * {G}) // 2) }}}}",
                  f"${{{{ ({G} + {b} + 7 - 7) if {K} % 2 else ({b} + {G}) }}}}"]
        return rng.choice(routes)
    if kind == "str":
        return rng.choice([f"${{{{ 'g' ~ {G} }}}}", f"grp-${{{{ {G} }}}}", f"${{{{ '%03d' | format({G}) }}}}x",
                           f"${{{{ ('a' ~ {G}) if {K} % 2 else ('a%d' | format({G})) }}}}"])
    if kind == "float":
        b = rng.choice([0, 3, 1000])
        return rng.choice([f"${{{{ {b} + 0.5 + {G} }}}}", f"${{{{ ({2 * b + 1} + 2 * {G}) / 2 }}}}",
                           f"${{{{ ({b}.5 + {G}) if {K} % 2 else (({2 * b + 1} + 2 * {G}) / 2) }}}}"])
    if kind == "date":
        return rng.choice([f"${{{{ date(year=2020, month=3, day=10 + {G}) }}}}", f"${{{{ date('2020-03-1' ~ {G}) }}}}",
                           f"${{{{ date(year=2020, month=3, day=10 + {G}) if {K} % 2 else date('2020-03-1' ~ {G}) }}}}"])
    if kind == "datetime":
        return f"${{{{ datetime(year=2020, month=3, day=10 + {G}, hour=5) }}}}"
    if kind == "bool":
        return f"${{{{ {G} == 0 }}}}"
    return {"str_literal": "lit", "int_literal": rng.choice([7, 1000])}[kind]


VALUE_KINDS = ["small_int", "boundary_int", "int", "int", "huge_int", "negative_int", "negative_int", "str", "str", "float", "date",
               "datetime", "bool", "str_literal", "int_literal"]


def gen_values(rng):
    """`unique: true` + `parent:` naming a plain VALUE instead of an object row: a field of the row being built, a
    hidden field of it, or a variable; the value is computed anew for every row (field) or every iteration
    (variable) by a formula, so the rows of one group carry EQUAL parents that are not one object.  Values of every
    kind a recipe computes (ints below / around / above 256, negative, huge; strings built by formulas or mixed
    text; floats; dates; datetimes; booleans; literals), equal values computed by different routes, in both
    dialects (the classic one keeps most formula results as text).  Groups are runs of consecutive rows of one
    template (blocks of g rows; two values taking turns, so that a parent comes back; one value throughout), counted
    by the row's child_index or by the iteration, so that a group may also span iterations.  Next to them call sites
    with an object row as parent and call sites without a parent."""
    import json as _json
    import yaml
    v3 = rng.random() < 0.5
    t = rng.randint(2, 6)
    tlayout = rng.choice(["plain", "plain", "once", "nick", "two"])
    stmts = []
    if v3:
        stmts.append({"snowfakery_version": 3})
    if tlayout == "plain":
        stmts.append(tpl("A", t)); tos = ["A"]
    elif tlayout == "once":
        stmts.append(tpl("A", t, once=True, nick="aa")); tos = ["A", "aa"]
    elif tlayout == "nick":
        stmts += [tpl("A", t, nick="aa"), tpl("A", rng.randint(0, 2))]; tos = ["aa", "aa", "A"]
    else:
        stmts += [tpl("A", t), tpl("A", rng.randint(0, 2), nick="a2")]; tos = ["A", "A", "a2"]
    stmts.append({"object": "Q", "count": 1})          # Q.id = number of the iteration
    sites, pvals, kinds = [], {}, []
    for k in range(1, rng.randint(1, 2) + 1):
        table = f"P{k}"
        where = rng.choice(["field", "field", "hidden", "variable"])
        kind = rng.choice(VALUE_KINDS)
        src = "iter" if where == "variable" else rng.choice(["child", "child", "child", "iter"])
        mode = "constant" if kind.endswith("literal") else "alternate" if kind == "bool" else \
            rng.choice(["blocks", "blocks", "blocks", "alternate", "alternate", "constant"])
        n = rng.randint(2, 9) if src == "child" else rng.randint(1, 3)
        g = rng.choice([1, 2, 2, 3, 4, 5]) if src == "child" else rng.choice([1, 2, 2, 3])
        spec = {"src": src, "g": g, "mode": mode, "kind": kind, "where": where}
        K = "child_index" if src == "child" else "(Q.id - 1)"
        G = {"blocks": f"({K} // {g})", "alternate": f"(({K} // {g}) % 2)", "constant": f"({K} * 0)"}[mode]
        pname = {"field": "grp", "hidden": "__grp", "variable": f"vgrp{k}"}[where]
        formula = _value_formula(rng, kind, K, G)
        fields = {"par": {"reference": "Q"}}
        if where == "variable":
            stmts.append({"var": pname, "value": formula})
        else:
            fields[pname] = formula
        spec["cell"] = "grp" if where == "field" else "pv"
        pvals[table] = {pname: spec}
        for j in range(1, rng.choice([1, 1, 2, 3]) + 1):
            r = rng.random()
            # the value; the object row Q; the row's own field `par`, which holds a reference to that row; none
            par = pname if (j == 1 or r < 0.5) else "Q" if r < 0.7 else "par" if r < 0.85 else None
            fields[f"r{j}"] = _sitedef(rng.choice(tos), j == 1 or rng.random() < 0.85, par,
                                       rng.random() < (0.4 if src == "iter" else 0.1))
            sd = _site_of_def(fields[f"r{j}"])
            sd.update({"table": table, "field": f"r{j}", "site": len(sites) + 1, "place": "top", "when": None, "via": "own"})
            sites.append(sd)
        if where != "field":
            fields["pv"] = f"${{{{ {pname} }}}}"       # the value the parent had, shown for the harness
        stmts.append({"object": table, "count": n, "fields": fields})
        kinds.append(kind)
    stmts.append(tpl(MARK))
    ks = rng.choice([[1], [2], [2], [3], [3], [4], [1, 2], [2, 2]])
    text = yaml.safe_dump(stmts, sort_keys=False, width=10 ** 6)
    return {"kind": "multi", "stream": "values", "tlayout": tlayout, "t": t, "text": text, "v3": v3, "pvals": pvals,
            "stmts": _json.loads(_json.dumps(stmts)), "sites": sites, "flow": False, "reps": sum(ks), "ks": ks,
            "bias": rng.choice(["lo", "hi", "mix", "mix"]), "raw": [rng.randint(0, 10 ** 6) for _ in range(400)]}


def generate(rng, tier):
    cases = []
    for _ in range(350 if tier == "quick" else 9000):
        cases.append(gen_script(rng))
    for _ in range(25 if tier == "quick" else 400):
        cases.append(gen_script(rng, out_of_order=True))
    if tier == "thorough":
        for layout in ["table", "nick", "two_templates", "friend", "just_once", "nested"]:
            for t in range(0, 7):
                for p in range(0, 9):
                    for unique in (False, True):
                        cases.append(gen_recipe(rng, t, p, layout, unique))
    for _ in range(260 if tier == "quick" else 3000):
        cases.append(gen_recipe(rng))
    for _ in range(350 if tier == "quick" else 5000):
        cases.append(gen_mscript(rng))
    for _ in range(120 if tier == "quick" else 2000):      # mostly parented sites, the parent being a plain value
        cases.append(gen_value_mscript(rng))
    if tier == "thorough":
        for t in range(0, 6):
            for c in range(1, 5):
                for _ in range(6):
                    cases.append(gen_multi(rng, t, c))
    for _ in range(450 if tier == "quick" else 4000):
        cases.append(gen_multi(rng))
    for _ in range(300 if tier == "quick" else 4000):
        cases.append(gen_scope(rng))
    for _ in range(260 if tier == "quick" else 4000):
        cases.append(gen_values(rng))
    return cases


# ------------------------------------------------------------------ implementation
def run_script(case):
    from snowfakery.row_history import RowHistory, RandomReferenceContext
    names = dict(case["names"])
    rhist = RowHistory(dict(case["counters"]), sorted(set(names.values())), names)
    ctx = {}
    obs, draws, ranges = [], [], []
    raw = iter(case["raw"])
    with injected_randbelow(raw=[next(raw) for _ in range(40)]) as rec:
        for op in case["ops"]:
            if op[0] == "save":
                try:
                    rhist.save_row(op[1], op[2], {"id": op[3]})
                    obs.append(["none"])
                except BaseException as e:
                    obs.append(["err", C.canon_exc(e)])
                    return {"obs": obs, "draws": draws, "ranges": ranges, "urr": rec.values, "aborted": True}
            elif op[0] == "reset":
                rhist.reset_locals()
                obs.append(["none"])
            elif op[0] == "ref":
                chosen = {}

                def pick(a, b, seed=op[2]):
                    chosen["r"] = (a, b)
                    chosen["d"] = a + seed % (b - a + 1) if b >= a else a
                    return chosen["d"]
                try:
                    ref = rhist.random_row_reference(op[1], "current-iteration", pick)
                    obs.append(["ref", ref._tablename, ref.id])
                except BaseException as e:
                    obs.append(["err", C.canon_exc(e)])
                draws.append(chosen.get("d"))
                ranges.append(chosen.get("r"))
            else:
                c = ctx.setdefault(op[1], RandomReferenceContext(rhist, op[1], unique=True))
                try:
                    ref = c.next()
                    obs.append(["ref", ref._tablename, ref.id])
                except BaseException as e:
                    obs.append(["err", C.canon_exc(e)])
                    break       # the model stops comparing after the first unique error
                draws.append(None)
                ranges.append(None)
    return {"obs": obs, "draws": draws, "ranges": ranges, "urr": rec.values}


def run_recipe(case):
    import yaml
    from snowfakery.data_generator import generate
    from snowfakery.api import SnowfakeryApplication
    from snowfakery.data_generator_runtime import StoppingCriteria
    from .sfcore import make_capture
    cap = make_capture()
    app = SnowfakeryApplication(StoppingCriteria("__REPS__", case["reps"]))
    app.echo = lambda *a, **k: None
    raw = case["raw"]
    bias = case["bias"]

    def chooser(n, idx):
        r = raw[idx % len(raw)]
        if bias == "lo":
            return 0 if r % 3 else r % n
        if bias == "hi":
            return n - 1 if r % 3 else r % n
        return (0, n - 1, r % n)[r % 3]
    text = yaml.safe_dump(case["stmts"], sort_keys=False)
    ks = case.get("ks") or [case["reps"]]
    cont = None
    with injected_randbelow(chooser=chooser) as rec:
        for i, k in enumerate(ks):
            app = SnowfakeryApplication(StoppingCriteria("__REPS__", k))
            app.echo = lambda *a, **kw: None
            out_cont = io.StringIO() if i < len(ks) - 1 else None
            try:
                generate(io.StringIO(text), {}, cap, app, generate_continuation_file=out_cont,
                         continuation_file=io.StringIO(cont) if cont else None)
            except BaseException as e:
                if type(e).__name__ == "_CaseTimeout":
                    raise
                return {"err": C.canon_exc(e), "msg": str(e)[:200], "rows": cap.rows, "draws": list(rec.values)}
            cont = out_cont.getvalue() if out_cont else None
            if cont is not None:
                cap.rows.append(["@run-boundary", []])     # not a row: the next run starts here
    return {"ok": cap.rows, "draws": list(rec.values)}


def _scope(glob):
    return "prior-and-current-iterations" if glob else "current-iteration"


def run_mscript(case):
    """several call sites over one real RowHistory: the state of each site is fetched through the real
    Interpreter.get_contextual_state (driven with a stub interpreter; a plain dict stands in if it cannot be
    called that way), each state is a real RandomReferenceContext"""
    from types import SimpleNamespace
    from snowfakery.row_history import RowHistory, RandomReferenceContext
    names = dict(case["names"])
    rhist = RowHistory(dict(case["counters"]), sorted(set(names.values())), names)

    class _Ctx:
        unique_context_identifier = None
        cur = None

        def field_vars(self):
            return {"PARENT": self.cur}
    ctx = _Ctx()
    interp = SimpleNamespace(current_context=ctx, instance_states={})
    getter = None
    try:        # can the real get_contextual_state be driven with this stub?  (first use, reuse, parent change)
        from snowfakery.data_generator_runtime import Interpreter
        g = Interpreter.get_contextual_state
        box = iter([[1], [2], [3], [4]])
        mk = lambda: next(box)      # noqa
        p1, p2 = object(), object()
        a = g(interp, make_state_func=mk, name=("probe",), parent=None)
        b = g(interp, make_state_func=mk, name=("probe",), parent=None)
        ctx.cur = p1
        c = g(interp, make_state_func=mk, name=("probe", 2), parent="PARENT")
        d = g(interp, make_state_func=mk, name=("probe", 2), parent="PARENT")
        ctx.cur = p2
        e = g(interp, make_state_func=mk, name=("probe", 2), parent="PARENT")
        if a == [1] and b is a and c == [2] and d is c and e == [3]:
            getter = g
    except Exception:
        getter = None
    ctx.cur = None
    interp.instance_states = {}
    parents, own = {}, {}

    pkind = case.get("pkind", "row")

    def state(site, p, make):
        if getter:
            if not p:
                ctx.cur = None
            elif pkind == "row":
                ctx.cur = parents.setdefault(p, object())
            else:
                ctx.cur = fresh_parent_value(pkind, p)
            return getter(interp, make_state_func=make, name=("site", site), parent="PARENT" if p else None)
        cur = own.get(site)
        if cur is None or cur[0] != p:
            own[site] = cur = (p, make())
        return cur[1]
    obs = []
    raw = case["raw"]
    with injected_randbelow(raw=raw) as rec:
        for op in case["ops"]:
            if op[0] == "save":
                rhist.save_row(op[1], op[2], {"id": op[3]})
                obs.append(["none"])
            elif op[0] == "reset":
                rhist.reset_locals()
                obs.append(["none"])
            elif op[0] == "ref":
                try:
                    ref = RandomReferenceContext(rhist, op[1], _scope(op[2])).next()
                    obs.append(["ref", ref._tablename, ref.id])
                except BaseException as e:
                    if type(e).__name__ in ("_CaseTimeout", "OracleExhausted"):
                        raise
                    obs.append(["err", C.canon_exc(e)])
            else:
                _, site, p, name, glob = op
                try:
                    c = state(site, p, lambda: RandomReferenceContext(rhist, name, _scope(glob), unique=True))
                    ref = c.next()
                    obs.append(["ref", ref._tablename, ref.id])
                except BaseException as e:
                    if type(e).__name__ in ("_CaseTimeout", "OracleExhausted"):
                        raise
                    obs.append(["err", C.canon_exc(e)])
                    break       # a recipe stops at the first failing unique reference; so does the model
    return {"obs": obs, "draws": list(rec.values), "states": "real" if getter else "stub"}


def run_multi(case):
    from snowfakery.data_generator import generate
    from snowfakery.api import SnowfakeryApplication
    from snowfakery.data_generator_runtime import StoppingCriteria
    from .sfcore import make_capture
    cap = make_capture()
    raw = case["raw"]
    bias = case["bias"]

    def chooser(n, idx):
        r = raw[idx % len(raw)]
        if bias == "lo":
            return 0 if r % 3 else r % n
        if bias == "hi":
            return n - 1 if r % 3 else r % n
        return (0, n - 1, r % n)[r % 3]
    ks = case.get("ks") or [case["reps"]]
    cont = None
    with injected_randbelow(chooser=chooser) as rec:
        for i, k in enumerate(ks):
            app = SnowfakeryApplication(StoppingCriteria("__REPS__", k))
            app.echo = lambda *a, **kw: None
            out_cont = io.StringIO() if i < len(ks) - 1 else None
            try:
                generate(io.StringIO(case["text"]), {}, cap, app, generate_continuation_file=out_cont,
                         continuation_file=io.StringIO(cont) if cont else None)
            except BaseException as e:
                if type(e).__name__ == "_CaseTimeout":
                    raise
                return {"err": C.canon_exc(e), "msg": str(e)[:200], "rows": cap.rows, "draws": list(rec.values)}
            cont = out_cont.getvalue() if out_cont else None
            if cont is not None:
                cap.rows.append(["@run-boundary", []])     # not a row: the next run starts here
    return {"ok": cap.rows, "draws": list(rec.values)}


def run_impl(case):
    return {"script": run_script, "recipe": run_recipe, "mscript": run_mscript, "multi": run_multi}[case["kind"]](case)


# ------------------------------------------------------------------ model side
def _ops_coq(case, obs):
    out = []
    di = 0
    n_obs = len(obs["obs"])
    for j, op in enumerate(case["ops"][:n_obs]):
        if op[0] == "save":
            out.append(f"(HSave {C.cstr(op[1])} {C.copt(op[2], C.cstr)} {C.cz(op[3])})")
        elif op[0] == "reset":
            out.append("HReset")
        elif op[0] == "ref":
            d = obs["draws"][di]
            di += 1
            out.append(f"(HRef {C.cstr(op[1])} {C.cz(d if d is not None else 0)})")
        else:
            di += 1
            out.append(f"(HURef {C.cstr(op[1])})")
    return C.clist(out)


def _obs_coq(o):
    if o[0] == "none":
        return "ONone"
    if o[0] == "ref":
        return f"(ORefd {C.cstr(o[1])} {C.cz(o[2])})"
    return f"(OErr {C.cerr(o[1])})"


def to_sfcore(case):
    """the recipe of an end-to-end case as an SF-core AST (harness/sfcore.py), or None when it uses
    `unique` / `parent`, which the interpreter model does not cover"""
    def fdef(v):
        if isinstance(v, str):
            return ["str", v]
        if isinstance(v, int):
            return ["int", v]
        if isinstance(v, list):
            return ["nested", tpl(v[0])]
        if isinstance(v, dict) and "reference" in v:
            return ["ref", v["reference"]]
        if isinstance(v, dict) and "random_reference" in v:
            if not isinstance(v["random_reference"], str):
                raise ValueError("unique / parent")
            return ["randref", v["random_reference"]]
        raise ValueError(repr(v))

    def tpl(t):
        return {"table": t["object"], "nick": t.get("nickname"), "once": bool(t.get("just_once")),
                "count": (["int", t["count"]] if "count" in t else None),
                "fields": [[k, fdef(v)] for k, v in (t.get("fields") or {}).items()],
                "friends": [["obj", tpl(f)] for f in t.get("friends", [])]}
    try:
        return {"version": 2, "options": [], "stmts": [["obj", tpl(t)] for t in case["stmts"]]}
    except ValueError:
        return None


def _mop_coq(op):
    if op[0] == "save":
        return f"(MSave {C.cstr(op[1])} {C.copt(op[2], C.cstr)} {C.cz(op[3])})"
    if op[0] == "reset":
        return "MReset"
    if op[0] == "ref":
        return f"(MRef {C.cstr(op[1])} {C.cbool(op[2])})"
    return f"(MURef {C.cz(op[1])} {C.cz(op[2])} {C.cstr(op[3])} {C.cbool(op[4])})"


def _mcase_coq(counters, names, draws, ops, res, tail, fails):
    cs = C.clist(C.cpair(C.cstr(k), C.cz(v)) for k, v in counters)
    ns = C.clist(C.cpair(C.cstr(k), C.cstr(v)) for k, v in names)
    return (f"KMulti (CMulti {cs} {ns} {C.clist(C.cz(d) for d in draws)} {C.clist(_mop_coq(o) for o in ops)} "
            f"{C.clist(_obs_coq(o) for o in res)} {C.clist(_mop_coq(o) for o in tail)} {C.cbool(fails)})")


MULTI_NAMES = sorted({**NICKS, **{t: t for t in TABLES}}.items())


def expand(case):
    """the rows a `multi` recipe writes, in order, all iterations and runs: (table, id, env) where env maps the names
    a `parent:` / `reference:` can use (Q, its nickname) to the id of the Q row they name while the row is built:
    the last such row of this iteration, else the last one made by a just_once template (those outlive iterations
    and runs).  The control flow of these recipes does not depend on data."""
    return _expand(case)[0]


def _expand(case):
    """expand + the rows a continued run saves again before its first iteration: rows of just_once templates still
    known by nickname, then those known by table name (tables with a history only)"""
    out = []
    ids = Counter()
    cur, pers = {}, {}
    by_nick, by_table = {}, {}

    pvals = case.get("pvals") or {}

    def go(tp, once):
        for child_index in range(tp.get("count", 1)):
            table = tp["object"]
            ids[table] += 1
            myid = ids[table]
            if table == "Q":
                for nm in (table, tp.get("nickname")):
                    if nm:
                        cur[nm] = myid
                        if once:
                            pers[nm] = myid
            if once and table in TABLES:
                if tp.get("nickname"):
                    by_nick[tp["nickname"]] = (table, myid, tp["nickname"])
                by_table[table] = (table, myid, None)
            env = dict(cur)
            for nm, spec in (pvals.get(table) or {}).items():
                # a `parent:` naming a value: the token stands for the VALUE (rows of one group: equal values, one
                # token); tokens of values start at 100, those of object rows are the rows' ids
                env[nm] = 100 + _group_index(spec, child_index, cur.get("Q", 0))
            if pvals and "Q" in env:
                env["par"] = env["Q"]       # `parent: par`: the field `par: {reference: Q}` of the row itself
            for v in (tp.get("fields") or {}).values():
                if isinstance(v, list):
                    for ch in v:
                        go(ch, False)
            out.append((table, myid, env))
            for fr in tp.get("friends", []):
                go(fr, False)
    for it in range(case["reps"]):
        cur.clear()
        cur.update(pers)
        for st in case["stmts"]:
            if "object" not in st or (st.get("just_once") and it > 0):       # macros, variables, options
                continue
            go(st, bool(st.get("just_once")))
    again = list(by_nick.values())
    have = {(t, i) for t, i, _ in again}
    again += [r for r in by_table.values() if (r[0], r[1]) not in have]
    return out, [list(r) for r in again]


def _json_key(v):
    import json as _json
    return None if v is None else _json.dumps(v)


def derive_trace(case, obs):
    """what a `multi` run did to the row history and to the call sites, read off the rows it wrote: saves of target
    rows, iteration ends, and one (unique) reference operation per random_reference cell, with its call site and
    the parent row it was evaluated under.  None when the rows cannot be attributed (never a failure)."""
    rows = obs.get("ok", obs.get("rows", []))
    fields_of = {}
    for sd in case["sites"]:
        fs_ = fields_of.setdefault(sd["table"], [])
        if sd["field"] not in fs_:
            fs_.append(sd["field"])
    order = fields_of

    def site_at(t, k, rowid):
        for sd in case["sites"]:
            if sd["table"] == t and sd["field"] == k and sd.get("when") in (None, "even" if rowid % 2 == 0 else "odd"):
                return sd
    skel, again = _expand(case)

    def site_op(sd, env):
        if sd["unique"]:
            return ["uref", sd["site"], env.get(sd["parent"], 0) if sd["parent"] else 0, sd["to"], sd["glob"]]
        return ["ref", sd["to"], sd["glob"]]
    ops, res = [], []
    pos = 0
    pvals = case.get("pvals") or {}
    shown = {}                              # (table, name) -> {token: cell}, {cell: token}
    for t, fs in rows:
        if t == "@run-boundary":            # the next run starts here: it saves the surviving just_once rows again
            ops.append(["newrun", again])
            res.append(["none"])
            continue
        d = dict((k, v) for k, v in fs)
        if pos >= len(skel) or skel[pos][0] != t or d.get("id") != ["int", skel[pos][1]]:
            return None
        env = skel[pos][2]
        if t == MARK:
            ops.append(["reset"])
            res.append(["none"])
        elif t in TABLES:
            ops.append(["save", t, d["nk"][1] if "nk" in d else None, skel[pos][1]])
            res.append(["none"])
        elif t in order:
            seen = [k for k, _ in fs if k in order[t]]
            if seen != order[t]:
                return None
            # the parent row is read off the row's own `reference:` cells (one per name a `parent:` uses)
            for cell, nm in (("par", "Q"), ("parn", "qq")):
                if cell in d and d[cell] != ["ref", "Q", env.get(nm, 0)]:
                    return None
            # a parent VALUE is read off the row as well: rows of one group show equal cells, rows of different groups
            # different ones (else the formulas did not compute what the harness thinks: not this property's business)
            for nm, spec in (pvals.get(t) or {}).items():
                cell = _json_key(d.get(spec["cell"]))
                fw, bw = shown.setdefault((t, nm), ({}, {}))
                if cell is None or fw.setdefault(env[nm], cell) != cell or bw.setdefault(cell, env[nm]) != env[nm]:
                    return None
            for k in seen:
                v = d[k]
                if v[0] != "ref":
                    return None
                ops.append(site_op(site_at(t, k, skel[pos][1]), env))
                res.append(["ref", v[1], v[2]])
        pos += 1
    tail = []
    fails = "err" in obs
    if fails:
        if pos >= len(skel) or skel[pos][0] not in order:
            tail = None         # the run did not fail while a picker row was being built
        else:
            t, rid, env = skel[pos]
            tail = [site_op(site_at(t, k, rid), env) for k in order[t]]
    return {"ops": ops, "res": res, "tail": tail, "fails": fails}


def first_run(tr):
    """the part of a trace that the call-site machine covers: the first run (a continued run starts from a
    row history rebuilt from the continuation file, which is the interpreter model's business)"""
    for i, op in enumerate(tr["ops"]):
        if op[0] == "newrun":
            return {"ops": tr["ops"][:i], "res": tr["res"][:i], "tail": [], "fails": False}
    return tr


def coq_case(case, obs):
    if case["kind"] == "mscript":
        if "draws" not in obs:
            return None
        return _mcase_coq(case["counters"], case["names"], obs["draws"], case["ops"][:len(obs["obs"])], obs["obs"], [], False)
    if case["kind"] == "multi":
        tr = derive_trace(case, obs)
        if tr is None or "draws" not in obs or obs.get("err", "DGE") != "DGE":
            return None
        tr = first_run(tr)
        if tr["tail"] is None:
            return None
        return _mcase_coq([], MULTI_NAMES, obs["draws"], tr["ops"], tr["res"], tr["tail"], tr["fails"])
    if case["kind"] == "recipe":
        r = to_sfcore(case)
        if r is None or "draws" not in obs:
            return None
        from . import sfcore as S
        rows = obs.get("ok", obs.get("rows", []))
        runs, cur = [], []
        for row in rows:
            if row[0] == "@run-boundary":
                runs.append(cur)
                cur = []
            else:
                cur.append(row)
        runs.append(cur)
        ks = case.get("ks") or [case["reps"]]
        if "ok" in obs:
            if len(runs) != len(ks) or not all(S.comparable(x) for x in runs):
                return None
            exp = "(Ok " + C.clist(S.rows_coq(x) for x in runs) + ")"
        else:
            exp = f"(Err {C.cerr(obs['err'])})"
        return f"KRecipe (CHist PFull {S.recipe_coq(r, obs['draws'])} {C.clist(C.cnat(k) for k in ks)} {exp})"
    if case["kind"] != "script" or obs.get("aborted"):
        return None
    counters = C.clist(C.cpair(C.cstr(k), C.cz(v)) for k, v in case["counters"])
    names = C.clist(C.cpair(C.cstr(k), C.cstr(v)) for k, v in case["names"])
    u = obs["urr"]
    oracle = C.clist(C.cpair(C.cz(u[i]), C.cz(u[i + 1])) for i in range(0, len(u) - 1, 2))
    exp = C.clist(_obs_coq(o) for o in obs["obs"])
    return f"KScript (CScriptH {counters} {names} {oracle} {_ops_coq(case, obs)} {exp})"


# ------------------------------------------------------------------ property oracle
def oracle_script(case, obs):
    saved = []           # (table, id, nick) in order
    since_reset = []
    uniq_seen = {}
    seen_ids = set()
    in_order = True
    last = dict(case["counters"])
    for op, o in zip(case["ops"], obs["obs"]):
        if op[0] == "save":
            if op[3] != last.get(op[1], 0) + 1:
                in_order = False
            last[op[1]] = max(last.get(op[1], 0), op[3])
            saved.append((op[1], op[3], op[2]))
            since_reset.append((op[1], op[3], op[2]))
        elif op[0] == "reset":
            since_reset = []
        elif o[0] == "ref":
            name = op[1]
            nick = name if name in NICKS else None
            table = NICKS.get(name, name)
            cands = [(t, i) for (t, i, n) in saved if t == table and (nick is None or n == nick)]
            local = [(t, i) for (t, i, n) in since_reset if t == table and (nick is None or n == nick)]
            got = (o[1], o[2])
            restored = dict(case["counters"]).get(table, 0)
            if got not in cands and not (nick is None and 1 <= got[1] <= restored):
                return f"script: random reference to {name} returned {got}, which is not a saved row of it (saved: {cands[:8]})"
            if local and got not in local:
                return f"script: random reference to {name} returned {got} although rows of this iteration exist: {local[:8]}"
            if op[0] == "uref":
                if got in uniq_seen.setdefault(name, set()):
                    return f"script: unique reference to {name} returned {got} twice"
                uniq_seen[name].add(got)
        elif o[0] == "err" and o[1] not in ("DGE",):
            if not (o[1] == "AssertionError" and op[0] == "uref"):
                return f"script: operation {op} failed with {o[1]}"
    return None


def oracle_recipe(case, obs):
    if "err" in obs and obs["err"] != "DGE":
        return f"recipe: internal error {obs['err']}: {obs.get('msg','')[:100]}"
    rows = obs.get("ok", obs.get("rows", []))
    to = case["stmts"]
    written = []            # (table, id, nick) in output order
    this_iter = []
    seen_unique = set()
    nrefs = 0
    all_rows = [(t, dict((k, v) for k, v in fs)) for t, fs in rows]
    for pos, (t, fs) in enumerate(rows):
        d = dict((k, v) for k, v in fs)
        if t == MARK:
            this_iter = []
            continue
        if t == "@run-boundary":
            seen_unique = set()     # `unique` is scoped to one run: the context is not persisted
            continue
        if "r" in d and t == "P":
            v = d["r"]
            nrefs += 1
            if v[0] != "ref":
                return f"recipe: random_reference produced a non-reference {v}"
            target_name = _target_name(case)
            nick = target_name if target_name in ("aa", "a2") else None
            cands = [(tt, i) for (tt, i, n) in written if tt == "A" and (nick is None or n == nick)]
            local = [(tt, i) for (tt, i, n) in this_iter if tt == "A" and (nick is None or n == nick)]
            got = (v[1], v[2])
            if got not in cands:
                if got in [(tt, i) for (tt, i, n) in written if tt == "A"]:
                    return (f"recipe[{case['layout']}]: random reference to {target_name} = {got[0]}({got[1]}) names a row "
                            f"created under another nickname (rows of {target_name} so far: {cands[:8]})")
                return (f"recipe[{case['layout']}]: random reference to {target_name} = {got[0]}({got[1]}) names a row "
                        f"that does not exist yet (reserved or never created id; written so far: {cands[:8]})")
            if local and got not in local:
                return (f"recipe[{case['layout']}]: random reference to {target_name} = {got[0]}({got[1]}) ignores the rows "
                        f"of the current iteration {local[:8]}")
            if case["unique"]:
                if got in seen_unique:
                    return f"recipe[{case['layout']}]: unique random reference returned {got} twice"
                seen_unique.add(got)
        if "id" in d and d["id"][0] == "int":
            written.append((t, d["id"][1], d.get("nk", [None, None])[1]))
            this_iter.append(written[-1])
    single = case["reps"] == 1 and len(case.get("ks") or [1]) == 1
    if case["unique"] and case["layout"] in ("table",) and "ok" in obs and single:
        if case["p"] > case["t"]:
            return (f"recipe[table]: {case['p']} unique references to {case['t']} targets all succeeded")
    if case["unique"] and case["layout"] == "table" and "err" in obs and single and case["p"] <= case["t"]:
        return f"recipe[table]: unique references failed although {case['t']} targets >= {case['p']} pickers: {obs.get('msg','')[:80]}"
    if case["layout"] == "table" and "err" in obs and case["t"] >= 1 and (not case["unique"] or case["p"] <= case["t"]):
        return f"recipe[table]: random_reference failed although targets exist: {obs.get('msg','')[:80]}"
    if case["layout"] in ("friend_nick", "nested_nick", "once_plus_repeating") and "err" in obs and not case["unique"]:
        return (f"recipe[{case['layout']}]: random_reference failed although rows of the target exist before every "
                f"picker: {obs.get('msg','')[:120]}")
    return None


def _target_name(case):
    for s in case["stmts"]:
        for holder in [s] + list(s.get("friends", [])) + [k for f in (s.get("fields") or {}).values() if isinstance(f, list) for k in f]:
            f = (holder.get("fields") or {}).get("r") if isinstance(holder, dict) else None
            if isinstance(f, dict) and "random_reference" in f:
                rr = f["random_reference"]
                return rr if isinstance(rr, str) else rr["to"]
    return "A"


def oracle_trace(label, counters, ops, res, tail, fails, pdesc=None):
    """the property, per call site: a reference names an eligible row (a row of the target that exists; of the
    current iteration when it has one, unless the scope is global); a unique call site never returns a row twice
    under one parent row, and it fails only when it has used every eligible row itself"""
    saved, local = [], []
    used = {}                # site -> [parent token, rows returned under it]: lives as long as the parent row is
    #                          the same row (iteration ends do not touch it), within one run
    restored = dict(counters)
    top = dict(counters)     # per table: the id of the row saved last (the restored counter before any save)

    def eligible(name, glob):
        nick = name if name in NICKS else None
        table = NICKS.get(name, name)
        rows = [(t, i) for (t, i, n) in saved if t == table and (nick is None or n == nick)]
        loc = [(t, i) for (t, i, n) in local if t == table and (nick is None or n == nick)]
        if loc and not glob:
            return loc
        old = [(table, i) for i in range(1, top.get(table, 0) + 1)] if nick is None else []
        return old + [x for x in rows if x not in old]

    def scope_used(op):
        u = used.get(op[1])
        return u[1] if u and u[0] == op[2] else set()

    def window_start(name, e):
        """how many rows of `name` precede the eligible ones"""
        nick = name if name in NICKS else None
        table = NICKS.get(name, name)
        rows = [(t, i) for (t, i, n) in saved if t == table and (nick is None or n == nick)]
        if not e or e[0] not in rows:
            return 0
        return (restored.get(table, 0) if nick is None else 0) + rows.index(e[0])

    def moved_back(op):
        """open finding: the site was last used on a later window (rows of an iteration) and is now asked for the
        whole table again (an iteration without rows of the target at this point)"""
        u = used.get(op[1])
        return bool(op[0] == "uref" and u and u[0] == op[2] and window_start(op[3], eligible(op[3], op[4])) < u[2])

    def refusal_ok(op):
        if op[0] == "ref":
            return not eligible(op[1], op[2])
        e = eligible(op[3], op[4])
        return not e or set(e) <= scope_used(op)
    for op, o in zip(ops, res):
        if op[0] == "save":
            saved.append((op[1], op[3], op[2]))
            local.append((op[1], op[3], op[2]))
            top[op[1]] = op[3]
            continue
        if op[0] == "reset":
            local = []
            continue
        if op[0] == "newrun":
            # a continued run: the state of every call site starts afresh (it is not stored in the continuation
            # file), the row history holds the ids restored per table plus the just_once rows saved again
            used.clear()
            restored.clear()
            restored.update(top)
            saved, local = [], []
            for t, i, n in op[1]:
                saved.append((t, i, n))
                top[t] = i
            continue
        name, glob = (op[1], op[2]) if op[0] == "ref" else (op[3], op[4])
        what = f"{'unique ' if op[0] == 'uref' else ''}random_reference to {name}" + \
               (f" (call site {op[1]}, parent {pdesc(op[2]) if pdesc and op[2] else 'row ' + str(op[2] or 'none')})"
                if op[0] == "uref" else "")
        e = eligible(name, glob)
        if o[0] == "ref":
            got = (o[1], o[2])
            if got not in e:
                table = NICKS.get(name, name)
                if got in [(t, i) for (t, i, n) in saved if t == table]:
                    why = ("is not among the eligible rows" if got in eligible(name, True) else
                           "was created under another nickname")
                    return f"{label}: {what} = {got[0]}({got[1]}) {why}; eligible now: {e[:8]}"
                return f"{label}: {what} = {got[0]}({got[1]}) names a row that does not exist; eligible now: {e[:8]}"
            if op[0] == "uref":
                if got in scope_used(op):
                    return f"{label}: {what} returned {got[0]}({got[1]}) twice in its scope"
                if not (op[1] in used and used[op[1]][0] == op[2]):
                    used[op[1]] = [op[2], set(), 0]
                used[op[1]][1].add(got)
                used[op[1]][2] = window_start(name, e)
        elif o[0] == "err":
            if moved_back(op) and not refusal_ok(op):
                return (f"{label}: {what} failed ({o[1]}) [unique-window-moved-back]: the call site was last used on the "
                        f"rows of an iteration and now falls back to the whole table; unused eligible rows exist")
            if o[1] != "DGE" and not (o[1] == "AssertionError" and moved_back(op) and refusal_ok(op)):
                return f"{label}: {what} failed with {o[1]}"      # (a refusal may surface as the range's own assertion)
            if not refusal_ok(op):
                left = [x for x in e if x not in scope_used(op)] if op[0] == "uref" else e
                return (f"{label}: {what} was refused although this call site has not used the eligible row(s) "
                        f"{left[:6]}")
    if fails and tail is not None and not any(refusal_ok(op) for op in tail):
        if any(moved_back(op) for op in tail):
            return (f"{label}: the run failed while a row was built [unique-window-moved-back]: a unique call site of the "
                    f"row was last used on the rows of an iteration and now falls back to the whole table; every call "
                    f"site of the row still had an unused eligible target")
        return (f"{label}: the run failed while a row with {len(tail)} random_reference call site(s) was built, although "
                f"each of them still had an unused eligible target")
    return None


def oracle_multi(case, obs):
    if "err" in obs and obs["err"] != "DGE":
        return f"multi: internal error {obs['err']}: {obs.get('msg', '')[:100]}"
    rows = obs.get("ok", obs.get("rows", []))
    for t, fs in rows:
        for k, v in fs:
            if any(sd["table"] == t and sd["field"] == k for sd in case["sites"]) and v[0] != "ref":
                return f"multi: random_reference produced a non-reference {v}"
    tr = derive_trace(case, obs)
    if tr is None:
        return None
    pdesc = None
    if case.get("pvals"):
        pdesc = lambda p: f"value of group {p - 100}" if p >= 100 else f"row {p}"      # noqa
    label = f"multi[{'parent values/' if case.get('pvals') else ''}{case['tlayout']}]"
    msg = oracle_trace(label, [], tr["ops"], tr["res"], tr["tail"], tr["fails"], pdesc)
    if msg and "err" in obs:
        msg += f" (run ended with: {obs.get('msg', '')[:70]!r})"
    return msg


def oracle(case, obs):
    if case["kind"] == "mscript":
        pk = case.get("pkind", "row")
        return oracle_trace("sites", case["counters"], case["ops"], obs["obs"], [], False,
                            None if pk == "row" else (lambda p: f"value {fresh_parent_value(pk, p)!r}"))
    if case["kind"] == "multi":
        return oracle_multi(case, obs)
    return oracle_script(case, obs) if case["kind"] == "script" else oracle_recipe(case, obs)


def nontrivial(case, obs):
    if case["kind"] in ("script", "mscript"):
        return any(o[0] == "ref" for o in obs["obs"])
    if case["kind"] == "multi":
        keys = {(sd["table"], sd["field"]) for sd in case["sites"]}
        return any((t, k) in keys for t, fs in obs.get("ok", obs.get("rows", [])) for k, _ in fs)
    return any(k == "r" for _, fs in obs.get("ok", []) for k, _ in fs)


def stats(cases, obss):
    st = {"kinds": dict(Counter(c["kind"] for c in cases)),
          "layouts": dict(Counter(c.get("layout") for c in cases if c["kind"] == "recipe")),
          "unique": dict(Counter(str(c.get("unique")) for c in cases if c["kind"] == "recipe")),
          "histories": dict(Counter("+".join(map(str, c.get("ks") or [c["reps"]])) for c in cases if c["kind"] == "recipe")),
          "script_ops": dict(Counter(o[0] for c in cases if c["kind"] == "script" for o in c["ops"])),
          "script_outcomes": dict(Counter(o[0] if o[0] != "err" else "err:" + o[1]
                                          for ob in obss if isinstance(ob, dict) and "obs" in ob for o in ob["obs"])),
          "recipe_outcomes": dict(Counter(("ok" if "ok" in ob else ob.get("err")) for ob in obss
                                          if isinstance(ob, dict) and ("ok" in ob or "err" in ob)))}
    multi = [(c, o) for c, o in zip(cases, obss) if c["kind"] == "multi" and isinstance(o, dict)]
    ms = [(c, o) for c, o in zip(cases, obss) if c["kind"] == "mscript" and isinstance(o, dict)]

    def same_target_sites(c):
        cnt = Counter((sd["to"], sd["glob"]) for sd in c["sites"] if sd["unique"])
        return max(cnt.values()) if cnt else 0
    st["multi"] = {
        "target_layouts": dict(Counter(c["tlayout"] for c, _ in multi)),
        "call_sites_per_recipe": dict(Counter(len(c["sites"]) for c, _ in multi)),
        "unique_sites_on_one_target": dict(Counter(same_target_sites(c) for c, _ in multi)),
        "site_written_as": dict(Counter(sd["via"] for c, _ in multi for sd in c["sites"])),
        "site_placement": dict(Counter(sd["place"] for c, _ in multi for sd in c["sites"])),
        "site_options": dict(Counter(("unique" if sd["unique"] else "plain") + ("+parent" if sd["parent"] else "")
                                     + ("+global" if sd["glob"] else "") for c, _ in multi for sd in c["sites"])),
        "flow_style": sum(1 for c, _ in multi if c["flow"]), "iterations": dict(Counter(c["reps"] for c, _ in multi)),
        "outcomes": dict(Counter(("ok" if "ok" in o else "err:" + str(o.get("err"))) for _, o in multi)),
        "traces_attributed": sum(1 for c, o in multi if ("ok" in o or "err" in o) and derive_trace(c, o) is not None),
    }
    sc = [(c, o) for c, o in multi if c.get("stream") == "scope"]

    def spans(c, o):
        """(scopes = call site + parent row; how many were asked in more than one iteration; how many of those were
        refused in an iteration after their first)"""
        tr = derive_trace(c, o) if ("ok" in o or "err" in o) else None
        if tr is None:
            return None
        it, run, seen = 0, 0, {}
        for op in tr["ops"] + (tr["tail"] or []):
            if op[0] == "reset":
                it += 1
            elif op[0] == "newrun":
                run += 1
            elif op[0] == "uref" and op[2]:
                seen.setdefault((run, op[1], op[2]), set()).add(it)
        return len(seen), sum(1 for v in seen.values() if len(v) > 1)
    sp = [x for x in (spans(c, o) for c, o in sc) if x]
    st["scope_lifetime"] = {
        "cases": len(sc), "parent_layouts": dict(Counter(c["playout"] for c, _ in sc)),
        "target_layouts": dict(Counter(c["tlayout"] for c, _ in sc)),
        "histories": dict(Counter("+".join(map(str, c["ks"])) for c, _ in sc)),
        "site_options": dict(Counter(("unique" if sd["unique"] else "plain") + ("+parent:" + sd["parent"] if sd["parent"] else "")
                                     + ("+global" if sd["glob"] else "") for c, _ in sc for sd in c["sites"])),
        "outcomes": dict(Counter(("ok" if "ok" in o else "err:" + str(o.get("err"))) for _, o in sc)),
        "scopes_asked": sum(a for a, _ in sp), "scopes_asked_in_several_iterations": sum(b for _, b in sp),
        "cases_with_a_scope_spanning_iterations": sum(1 for _, b in sp if b),
        "failed_in_a_later_iteration_or_run": sum(1 for c, o in sc if "err" in o and
                                                   sum(1 for r in o.get("rows", []) if r[0] in (MARK, "@run-boundary")) > 0),
    }
    vl = [(c, o) for c, o in multi if c.get("stream") == "values"]

    def groups(c, o):
        """per (call site, run of consecutive evaluations under one parent value): how many evaluations"""
        tr = derive_trace(c, o) if ("ok" in o or "err" in o) else None
        if tr is None:
            return None
        runs, last, seen, back, spans = [], {}, set(), 0, 0
        it = 0
        for op in tr["ops"] + (tr["tail"] or []):
            if op[0] == "reset":
                it += 1
            elif op[0] == "newrun":
                last, seen = {}, set()
            elif op[0] == "uref" and op[2] >= 100:
                if last.get(op[1], (None,))[0] == op[2]:
                    if last[op[1]][1] != it and not last[op[1]][2]:
                        spans += 1
                        last[op[1]][2] = True
                    last[op[1]][3][0] += 1
                else:
                    if (op[1], op[2]) in seen:
                        back += 1
                    seen.add((op[1], op[2]))
                    cnt = [1]
                    runs.append(cnt)
                    last[op[1]] = [op[2], it, False, cnt]
        return [r[0] for r in runs], back, spans
    gr = [x for x in (groups(c, o) for c, o in vl) if x]
    st["parent_values"] = {
        "cases": len(vl), "dialect": dict(Counter("version 3" if c["v3"] else "classic" for c, _ in vl)),
        "value_kinds": dict(Counter(sp["kind"] for c, _ in vl for pv in c["pvals"].values() for sp in pv.values())),
        "parent_is": dict(Counter(sp["where"] for c, _ in vl for pv in c["pvals"].values() for sp in pv.values())),
        "groups_counted_by": dict(Counter(sp["src"] + "/" + sp["mode"] for c, _ in vl for pv in c["pvals"].values()
                                          for sp in pv.values())),
        "site_options": dict(Counter(("unique" if sd["unique"] else "plain") +
                                     ("+parent:" + (sd["parent"] if sd["parent"] in ("Q", "par") else "value") if sd["parent"] else "")
                                     + ("+global" if sd["glob"] else "") for c, _ in vl for sd in c["sites"])),
        "histories": dict(Counter("+".join(map(str, c["ks"])) for c, _ in vl)),
        "outcomes": dict(Counter(("ok" if "ok" in o else "err:" + str(o.get("err"))) for _, o in vl)),
        "traces_attributed": len(gr),
        "evaluations_per_run_of_equal_parent_values": dict(Counter(min(n, 6) for g, _, _ in gr for n in g)),
        "parent_value_came_back": sum(b for _, b, _ in gr),
        "runs_of_equal_values_spanning_iterations": sum(s_ for _, _, s_ in gr),
    }
    st["site_scripts"] = {
        "sites": dict(Counter(c["nsites"] for c, _ in ms)),
        "several_sites_on_one_target": sum(1 for c, _ in ms if c["same_target"]),
        "ops": dict(Counter(o[0] for c, _ in ms for o in c["ops"])),
        "parented_urefs": sum(1 for c, _ in ms for o in c["ops"] if o[0] == "uref" and o[2]),
        "global_scope_ops": sum(1 for c, _ in ms for o in c["ops"] if (o[0] == "uref" and o[4]) or (o[0] == "ref" and o[2])),
        "outcomes": dict(Counter(x[0] if x[0] != "err" else "err:" + x[1] for _, o in ms for x in o.get("obs", []))),
        "states_from": dict(Counter(o.get("states") for _, o in ms)),
        "parent_stands_for": dict(Counter(c.get("pkind", "row") for c, _ in ms)),
        "parented_urefs_under_a_value": sum(1 for c, _ in ms if c.get("pkind", "row") != "row"
                                            for o in c["ops"] if o[0] == "uref" and o[2]),
    }
    return st


def _renumbered(case, ops):
    nxt = dict(case["counters"])
    out = []
    for o in ops:
        if o[0] == "save":
            nxt[o[1]] = nxt.get(o[1], 0) + 1
            o = [o[0], o[1], o[2], nxt[o[1]]]
        out.append(o)
    return out


def shrink(case):
    if case["kind"] == "mscript":
        ops = case["ops"]
        for i in range(len(ops)):
            yield dict(case, ops=_renumbered(case, ops[:i] + ops[i + 1:]))
    elif case["kind"] == "script":
        ops = case["ops"]
        for i in range(len(ops)):
            yield dict(case, ops=ops[:i] + ops[i + 1:])
    elif case["reps"] > 1 and len(case.get("ks") or [1]) == 1:
        yield dict(case, reps=case["reps"] - 1, ks=[case["reps"] - 1])


def directed_search(rng, disagreeing):
    return ([gen_script(rng) for _ in range(1500)] + [gen_recipe(rng) for _ in range(600)] +
            [gen_mscript(rng) for _ in range(1000)] +
            [gen_value_mscript(rng) for _ in range(600)] + [gen_multi(rng) for _ in range(1000)] +
            [gen_scope(rng) for _ in range(1000)] + [gen_values(rng) for _ in range(1500)])


def match_finding(case, obs, msg, findings):
    ids = {f["id"] for f in findings}
    if WINDOW_BACK in ids and case["kind"] in ("mscript", "multi") and "[unique-window-moved-back]" in msg:
        return WINDOW_BACK
    if "K3" in ids:
        if case["kind"] == "script" and case.get("out_of_order"):
            return "K3"
        if case["kind"] == "recipe" and case["layout"] in ("forward_reserved", "reserved_then_nick") \
                and ("does not exist yet (reserved" in msg or "Problem rendering value" in msg
                     or "ignores the rows of the current iteration" in msg):
            return "K3"
    return None
