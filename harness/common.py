"""Shared machinery of the Snowfakery proof checks (DESIGN.md section 2.2).

One check run =
  1. proof obligations: build coq/props/Cxx.vo (full .vo), Print Assumptions per theorem,
     forbidden-token scan;
  2. corpus cases first, then generated cases;
  3. correspondence: implementation (/repo working tree) vs. Gallina model evaluated by
     vm_compute inside coqc (`Lemma agree : forallb check_case cases = true`);
  4. property oracle evaluated directly on the implementation's observables;
  5. verdict + replay file;  6. evidence/Cxx.json.
"""
import concurrent.futures as cf
import hashlib
import json
import os
import random
import re
import signal
import subprocess
import sys
import time
import traceback
from pathlib import Path

VERIF = Path(__file__).resolve().parent.parent
COQ = VERIF / "coq"
REPO = Path(os.environ.get("SFV_REPO", "/repo"))
CASES_DIR = COQ / "cases"
EVIDENCE = VERIF / "evidence"
REPLAYS = VERIF / "replays"
CORPUS = VERIF / "corpus"
NCPU = int(os.environ.get("SFV_JOBS", "16"))
GUARD = "SNOWFAKERY_VERIF"

COQ_FLAGS = ["-Q", "theories", "SFV", "-Q", "proofs", "SFV.P", "-Q", "props", "SFV.Props"]

FORBIDDEN = re.compile(
    r"\b(Admitted|admit|Axiom|Axioms|Parameter|Parameters|Conjecture|Conjectures|"
    r"Admit Obligations|Unset Guard Checking|Unset Positivity Checking|"
    r"Unset Universe Checking|bypass_check|type-in-type|impredicative-set|native_compute)\b"
)
ALLOWED_AXIOMS = ()  # the development is expected to be closed under the global context


# ----------------------------------------------------------------------------- Coq terms

def cz(n):
    n = int(n)
    return f"({n})" if n < 0 else str(n)


def cnat(n):
    assert 0 <= n < 5000
    return f"{n}%nat"


def cbool(b):
    return "true" if b else "false"


def cstr(s):
    """Coq string literal.  Coq strings are byte strings; non-ASCII goes as UTF-8 bytes."""
    out = []
    for ch in s:
        if ch == '"':
            out.append('""')
        elif ch == "\n" or ch == "\r" or ch == "\t" or ord(ch) < 32 or ord(ch) == 127:
            raise ValueError("control character in Coq string literal; use cbytes")
        else:
            out.append(ch)
    return '"' + "".join(out) + '"'


def cbytes(s):
    """list of byte values (as Z) — for payload strings the model never inspects"""
    if isinstance(s, str):
        s = s.encode("utf-8")
    return clist(cz(b) for b in s)


def clist(items):
    items = list(items)
    return "[" + "; ".join(items) + "]"


def copt(x, f=lambda v: v):
    return "None" if x is None else f"(Some {f(x)})"


def cpair(a, b):
    return f"({a}, {b})"


def cerr(kind):
    """kind: canonical error string from canon_exc"""
    if kind == "DGE":
        return '(DGE "")'
    if kind == "StopIteration":
        return "StopIter"
    return f"(Internal {cstr(kind)})"


def cresult(r, okf):
    """r = {"ok": value} | {"err": kind}"""
    if "ok" in r:
        return f"(Ok {okf(r['ok'])})"
    return f"(Err {cerr(r['err'])})"


# ----------------------------------------------------------------------------- implementation side

def impl_env():
    """Make sure the implementation under test is /repo's working tree."""
    sys.path[:] = [p for p in sys.path if "snowfakery" not in p.lower() or p.startswith(str(REPO))]
    if str(REPO) not in sys.path:
        sys.path.insert(0, str(REPO))
    os.environ[GUARD] = "1"
    import warnings
    warnings.filterwarnings("ignore")
    import snowfakery  # noqa
    assert Path(snowfakery.__file__).resolve().is_relative_to(REPO.resolve()), snowfakery.__file__


def canon_exc(e):
    """Map an implementation exception to the model's small error enum."""
    try:
        from snowfakery.data_gen_exceptions import DataGenError
        if isinstance(e, DataGenError):
            return "DGE"
    except Exception:
        pass
    if isinstance(e, _CaseTimeout):
        return "HANG"
    return type(e).__name__


class _CaseTimeout(BaseException):
    pass


def _alarm(signum, frame):
    raise _CaseTimeout()


def _worker_init():
    impl_env()
    signal.signal(signal.SIGALRM, _alarm)


def _run_one(args):
    modname, case, timeout = args
    import importlib
    mod = importlib.import_module(modname)
    signal.alarm(timeout)
    try:
        return mod.run_impl(case)
    except _CaseTimeout:
        return {"hang": True}
    except BaseException as e:  # harness failure inside run_impl: surface it, never hide
        return {"harness_error": f"{type(e).__name__}: {e}", "tb": traceback.format_exc()[-1500:]}
    finally:
        signal.alarm(0)


def run_impl_all(mod, cases, timeout=20, workers=None):
    """Run mod.run_impl(case) for every case in fresh worker processes importing /repo."""
    workers = workers or min(NCPU, max(1, len(cases) // 4 or 1))
    modname = mod.__name__
    import multiprocessing as mp
    ctx = mp.get_context("spawn")
    env_backup = dict(os.environ)
    os.environ["PYTHONPATH"] = f"{REPO}:{VERIF}"
    os.environ["PYTHONHASHSEED"] = "0"
    os.environ[GUARD] = "1"
    try:
        with cf.ProcessPoolExecutor(max_workers=workers, mp_context=ctx,
                                    initializer=_worker_init) as ex:
            chunks = max(1, len(cases) // (workers * 8))
            return list(ex.map(_run_one, [(modname, c, timeout) for c in cases], chunksize=chunks))
    finally:
        os.environ.clear()
        os.environ.update(env_backup)


# ----------------------------------------------------------------------------- Coq side

def sh(cmd, cwd=None, timeout=None):
    p = subprocess.run(cmd, cwd=cwd, stdout=subprocess.PIPE, stderr=subprocess.STDOUT,
                       text=True, timeout=timeout)
    return p.returncode, p.stdout


def ensure_makefile():
    if not (COQ / "Makefile").exists():
        files = sorted(str(p.relative_to(COQ)) for d in ("theories", "proofs", "props")
                       for p in (COQ / d).glob("*.v"))
        sh(["coq_makefile", "-f", "_CoqProject", *files, "-o", "Makefile"], cwd=COQ)


def regen_makefile():
    files = sorted(str(p.relative_to(COQ)) for d in ("theories", "proofs", "props")
                   for p in (COQ / d).glob("*.v"))
    rc, out = sh(["coq_makefile", "-f", "_CoqProject", *files, "-o", "Makefile"], cwd=COQ)
    return rc, out


def theorem_names(prop):
    txt = (COQ / "props" / f"{prop}.v").read_text()
    return re.findall(r"^\s*Theorem\s+([A-Za-z0-9_']+)", txt, flags=re.M)


def scan_forbidden():
    hits = []
    for d in ("theories", "proofs", "props"):
        for p in sorted((COQ / d).glob("*.v")):
            txt = re.sub(r"\(\*.*?\*\)", "", p.read_text(), flags=re.S)  # comments do not count
            for m in FORBIDDEN.finditer(txt):
                hits.append(f"{p.relative_to(VERIF)}: {m.group(0)}")
            # Variable / Hypothesis outside a Section
            depth = 0
            for line in txt.splitlines():
                if re.match(r"\s*Section\s", line):
                    depth += 1
                elif re.match(r"\s*End\s", line) and depth > 0:
                    depth -= 1
                elif depth == 0 and re.match(r"\s*(Variable|Variables|Hypothesis|Hypotheses|Context)\b", line):
                    hits.append(f"{p.relative_to(VERIF)}: section-less {line.strip()[:40]}")
    return hits


def build_props(prop, timeout=1800, models=()):
    """Step 1.  Returns dict(obligations, discharged, theorems, assumptions, problems).
    `models`: the model modules the generated case files import (harness MODEL): they are built too -
    a module that only case files import (e.g. DepsCases) is no dependency of props/Cxx.vo and would
    otherwise stay stale after a change to what it imports ("inconsistent assumptions")."""
    import fcntl
    names = theorem_names(prop)
    problems = []
    extra = [f"theories/{m}.vo" for m in models if (COQ / "theories" / f"{m}.v").exists()]
    with open(COQ / ".build.lock", "w") as lk:      # several checks may run concurrently
        fcntl.flock(lk, fcntl.LOCK_EX)
        regen_makefile()
        rc, out = sh(["timeout", str(timeout), "make", f"-j{NCPU}", f"props/{prop}.vo", *extra], cwd=COQ)
    built = rc == 0
    if not built:
        problems.append({"kind": "proof-build-failed", "detail": out[-3000:]})
    assumptions = {}
    discharged = 0
    if built:
        chk = CASES_DIR / f"{prop}_{TAG}_assumptions.v"
        CASES_DIR.mkdir(exist_ok=True)
        lines = [f"From SFV.Props Require Import {prop}."]
        for n in names:
            lines.append(f'Goal True. idtac "@@{n}". exact I. Qed.')
            lines.append(f"Print Assumptions {n}.")
        chk.write_text("\n".join(lines) + "\n")
        rc, out = sh(["timeout", "600", "coqc", *COQ_FLAGS, str(chk.relative_to(COQ))], cwd=COQ)
        if rc != 0:
            problems.append({"kind": "print-assumptions-failed", "detail": out[-2000:]})
        else:
            parts = re.split(r"@@([A-Za-z0-9_']+)\n", out)
            for i in range(1, len(parts), 2):
                assumptions[parts[i]] = parts[i + 1].strip()
            for n in names:
                a = assumptions.get(n, "<missing>")
                if a.startswith("Closed under the global context"):
                    discharged += 1
                else:
                    axs = [l.split(":")[0].strip() for l in a.splitlines()
                           if ":" in l and not l.startswith(" ")]
                    bad = [x for x in axs if x not in ALLOWED_AXIOMS]
                    if bad or a == "<missing>":
                        problems.append({"kind": "unexpected-assumptions", "theorem": n, "detail": a[:1500]})
                    else:
                        discharged += 1
    for h in scan_forbidden():
        problems.append({"kind": "forbidden-token", "detail": h})
    return {"obligations": len(names), "discharged": discharged if not problems else min(discharged, len(names)),
            "theorems": names, "assumptions": assumptions, "problems": problems, "built": built}


def run_coqchk(prop, timeout=2400):
    """Thorough tier: re-check props/<prop>.vo and everything it depends on with the independent
    checker and read the context summary it prints (-o).  Returns (record, problems)."""
    t0 = time.time()
    rc, out = sh(["timeout", str(timeout), "coqchk", "-silent", "-o", *COQ_FLAGS, f"SFV.Props.{prop}"], cwd=COQ)
    rec = {"cmd": f"coqchk -silent -o -Q theories SFV -Q proofs SFV.P -Q props SFV.Props SFV.Props.{prop}",
           "exit": rc, "wall_s": round(time.time() - t0, 1)}
    problems = []
    summary = out[out.find("CONTEXT SUMMARY"):] if "CONTEXT SUMMARY" in out else ""
    fields = {}
    for m in re.finditer(r"\* ([^\n:]+):[ \t]*([^*]*)", summary):
        fields[m.group(1).strip()] = " ".join(m.group(2).split())
    rec["context_summary"] = fields
    if rc != 0 or not summary:
        problems.append({"kind": "coqchk-failed", "detail": out[-1500:]})
    else:
        for key in ("Axioms", "Constants/Inductives relying on type-in-type",
                    "Constants/Inductives relying on unsafe (co)fixpoints",
                    "Inductives whose positivity is assumed"):
            v = fields.get(key)
            if v is None:
                problems.append({"kind": "coqchk-summary-unreadable", "detail": summary[:800]})
                break
            names = [] if v == "<none>" else v.split()
            bad = [x for x in names if x not in ALLOWED_AXIOMS]
            if bad:
                problems.append({"kind": "coqchk-reports-" + key.split()[0].lower(), "detail": v[:800]})
    return rec, problems


def _compile_shard(path):
    t0 = time.time()
    rc, out = sh(["timeout", "900", "coqc", *COQ_FLAGS, str(path.relative_to(COQ))], cwd=COQ)
    return rc, out, time.time() - t0


LAST_SKIPPED = {}


# Several checks - also of the same property - may run at the same time (seeded-change validation):
# every generated Coq file carries the id of the process that wrote it.
TAG = f"p{os.getpid()}"


def clean_cases(prop):
    """remove the generated files of this process, and those left behind by processes that are gone"""
    if not CASES_DIR.exists():
        return
    for old in CASES_DIR.iterdir():
        m = re.match(r"^\.?[A-Za-z0-9]+_p(\d+)_", old.name)
        if not m:
            continue
        pid = int(m.group(1))
        mine = pid == os.getpid()
        if not mine:
            try:
                os.kill(pid, 0)
                continue                 # still running: not ours to remove
            except ProcessLookupError:
                pass
            except OSError:
                continue
        elif not re.match(rf"^\.?{re.escape(prop)}_{TAG}_(s\d|eval|assumptions)", old.name):
            continue
        try:
            old.unlink()
        except OSError:
            pass


def check_cases_in_coq(prop, model_module, terms, shard=300, check_fn="check_case",
                       extra_imports=(), max_bytes=400_000, skipped_fn=None):
    """Step 3.  `terms` are Coq terms of the model's `case` type.  Returns
    (failing_indices, compile_errors).  Agreement is a Qed'ed lemma per shard."""
    CASES_DIR.mkdir(exist_ok=True)
    clean_cases(prop)
    shards, cur, size = [], [], 0
    for i, t in enumerate(terms):
        if cur and (len(cur) >= shard or size + len(t) > max_bytes):
            shards.append(cur)
            cur, size = [], 0
        cur.append((i, t))
        size += len(t)
    if cur:
        shards.append(cur)
    header = ("From SFV Require Import Base " + model_module + ".\n" +
              "".join(f"{l}\n" for l in extra_imports) +
              "Import ListNotations. Open Scope Z_scope. Open Scope string_scope.\n")
    paths = []
    for k, sh_cases in enumerate(shards):
        p = CASES_DIR / f"{prop}_{TAG}_s{k}.v"
        body = ";\n  ".join(t for _, t in sh_cases)
        extra = (f"Eval vm_compute in (Z.of_nat (length (filter {skipped_fn} cases))).\n"
                 if skipped_fn else "")
        p.write_text(header + f"Definition cases := [\n  {body}\n].\n"
                     f"Lemma agree : forallb {check_fn} cases = true.\n"
                     "Proof. vm_compute. reflexivity. Qed.\n" + extra)
        paths.append(p)
    failing, errors = [], []
    with cf.ThreadPoolExecutor(max_workers=NCPU) as ex:
        results = list(ex.map(_compile_shard, paths))
    skipped = 0
    for k, (rc, out, dt) in enumerate(results):
        if rc == 0:
            m = re.search(r"=\s*(\d+)\s*:\s*Z", out)
            if m:
                skipped += int(m.group(1))
            continue
        # locate failing cases of this shard
        p = CASES_DIR / f"{prop}_{TAG}_s{k}_loc.v"
        body = ";\n  ".join(t for _, t in shards[k])
        p.write_text(header + f"Definition cases := [\n  {body}\n].\n"
                     f"Eval vm_compute in failing {check_fn} cases.\n")
        rc2, out2 = sh(["timeout", "900", "coqc", *COQ_FLAGS, str(p.relative_to(COQ))], cwd=COQ)
        m = re.search(r"=\s*\[(.*?)\]\s*:\s*list Z", out2, flags=re.S)
        if rc2 == 0 and m:
            idxs = [int(x.strip().replace("%Z", "")) for x in m.group(1).split(";") if x.strip()]
            failing.extend(shards[k][j][0] for j in idxs)
            if not idxs:
                errors.append({"shard": k, "detail": out[-1500:]})
        else:
            errors.append({"shard": k, "detail": (out + "\n" + out2)[-2500:]})
    LAST_SKIPPED[prop] = skipped
    if not failing and not errors:
        clean_cases(prop)          # keep the disk small; failing shards stay for inspection
    return sorted(failing), errors


def eval_in_coq(prop, model_module, expr, extra_imports=()):
    """Evaluate one Coq expression with vm_compute and return the printed text."""
    CASES_DIR.mkdir(exist_ok=True)
    p = CASES_DIR / f"{prop}_{TAG}_eval.v"
    p.write_text("From SFV Require Import Base " + model_module + ".\n" +
                 "".join(f"{l}\n" for l in extra_imports) +
                 "Import ListNotations. Open Scope Z_scope. Open Scope string_scope.\n"
                 f"Eval vm_compute in ({expr}).\n")
    rc, out = sh(["timeout", "300", "coqc", *COQ_FLAGS, str(p.relative_to(COQ))], cwd=COQ)
    return rc, out


# ----------------------------------------------------------------------------- findings / evidence

def load_findings():
    p = VERIF / "KNOWN_FINDINGS.json"
    if p.exists():
        return json.loads(p.read_text())
    return {"open": [], "fixed": []}


def case_key(case):
    return hashlib.sha256(json.dumps(case, sort_keys=True, default=str).encode()).hexdigest()[:16]


def write_replay(prop, seed, payload):
    REPLAYS.mkdir(exist_ok=True)
    p = REPLAYS / f"{prop}_{seed}_{int(time.time())}_{os.getpid()}_{len(list(REPLAYS.glob(prop + '_*')))}.json"
    p.write_text(json.dumps(payload, indent=1, default=str))
    return p


def write_evidence(prop, tier, seed, wall, coverage, assumptions, violations):
    EVIDENCE.mkdir(exist_ok=True)
    ev = {"property_id": prop, "tier": tier, "seed": seed, "level": "proof",
          "coverage": coverage, "assumptions": assumptions, "wall_s": round(wall, 2),
          "violations": violations}
    target = EVIDENCE / f"{prop}.json"
    if REPO.resolve() != Path("/repo"):
        # a run against a scratch copy (seeded-change validation, SFV_REPO): its evidence is not the
        # evidence of /repo and must not replace it
        ev["repo"] = str(REPO)
        target = EVIDENCE / f".scratch_{prop}_{TAG}.json"
    target.write_text(json.dumps(ev, indent=1, default=str))


def repo_fingerprint():
    h = hashlib.sha256()
    for p in sorted((REPO / "snowfakery").rglob("*.py")):
        h.update(str(p).encode())
        h.update(p.read_bytes())
    return h.hexdigest()[:16]
