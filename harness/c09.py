"""C09 — names starting with two underscores never reach any output.
Model: coq/theories/Interp.v; theorems: coq/props/C09.v."""
import copy
import io
import json
import re
import shutil
import tempfile
from pathlib import Path

from . import common as C
from . import sfcore as S

PROP = "C09"
MODEL = "Interp"
SHARD = 150
SKIPPED_FN = "case_unsupported"
CASE_TIMEOUT = 40
RULE = ("(artefact passes: plain; update_key on every template; update mode = update_input_file + pass-through fields on a hidden-field template) SF-core recipes with hidden fields / hidden tables at top level, nested, in friends, as reference targets "
        "and as formula / count inputs; every output format (txt, json, csv folder, sql script, sqlite db, Graphviz dot) and the "
        "generated CCI mapping are scanned for identifiers; metamorphic oracle: renaming the hidden names to visible "
        "ones must not change any other row; compared projection with the model: table and field names of every "
        "written row.  non-trivial: recipe contains a hidden name and completes; distinct by recipe hash")
TRUSTED = ["harness/sfcore.py printers and capture stream; harness/c09.py identifier scanners for each format"]
ASSUMPTIONS = ["identifiers are extracted structurally per format (keys, headers, table / column names, mapping step and field names); values are never scanned",
               "the rendering `Table(id)` of a reference value inside the debug text is a value, not an identifier "
               "(references into hidden tables are out of scope by design)"]
W = dict(hidden_nick=0.1, hidden_field=0.45, hidden_table=0.3, nested=0.2, friend=0.5, ref=0.28, randref=0.1)


def generate(rng, tier):
    n = 260 if tier == "quick" else 6000
    cases = []
    for _ in range(n):
        if rng.random() < 0.12:      # hidden fields of just_once rows read again in continued runs
            r, feats = S.stream_once_hidden(rng)
            k = rng.choice([2, 3, 4])
            cases.append({"recipe": r, "reps": k, "ks": S.random_cuts(rng, k), "features": feats})
            continue
        if rng.random() < 0.1:       # nicknamed templates of hidden tables used like visible ones
            r, feats = S.stream_hidden_table_nicks(rng)
            cases.append({"recipe": r, "reps": rng.choice([1, 2]), "features": feats})
            continue
        if rng.random() < 0.1:       # hidden child rows read through a random_reference (row-history copy)
            r, feats = S.stream_randref_hidden_child(rng)
            k = rng.choice([1, 2, 3])
            cases.append({"recipe": r, "reps": k, "ks": S.random_cuts(rng, k), "features": feats})
            continue
        r, feats = S.gen_recipe(rng, W)
        if rng.random() < 0.3 and factor_hidden_into_macro(rng, r):
            feats = sorted(set(feats) | {"hidden_field_from_macro"})
        cases.append({"recipe": r, "reps": rng.choice([1, 1, 2]), "features": feats})
    return cases


def factor_hidden_into_macro(rng, recipe):
    """move the hidden fields of a top-level template (and the fields before them) into a macro,
    so that the template itself declares no hidden field"""
    cands = [s[1] for s in recipe["stmts"] if s[0] == "obj" and not s[1].get("include")
             and any(n.startswith("__") for n, _ in s[1]["fields"])
             and not any(d[0] == "nested" for _, d in s[1]["fields"])]
    if not cands:
        return False
    t = rng.choice(cands)
    last = max(i for i, (n, _) in enumerate(t["fields"]) if n.startswith("__"))
    macro_fields = [list(f) for f in t["fields"][:last + 1]]
    own = [list(f) for f in t["fields"][last + 1:]]
    name = "m%d" % (len(recipe.get("macros", [])) + 1)
    recipe.setdefault("macros", []).append([name, macro_fields])
    t["include"] = [name]
    t["own_fields"] = own
    return True


# ------------------------------------------------------------------ renaming (metamorphic)
REN = {"__H": "HX", "__h0": "hx0", "__": "hx1", "__-r": "hx2", "__ t": "hx3", "__-s": "HX2", "__p": "hx4",
       "__kid": "hx5", "__s": "hx6", "__n": "hx7", "__who": "hx8"}
BACK = {v: k for k, v in REN.items()}


def _ren(n):
    return REN.get(n, n)


def rename_hidden(recipe):
    r = copy.deepcopy(recipe)

    def expr(e):
        if e[0] == "var":
            e[1] = _ren(e[1])
        elif e[0] == "attr":
            expr(e[1])
            e[2] = _ren(e[2])
        elif e[0] in ("add", "sub", "mul"):
            expr(e[1])
            expr(e[2])

    def fdef(d):
        if d[0] == "formula":
            for p in d[1]:
                if p[0] == "e":
                    expr(p[1])
        elif d[0] == "ref":
            d[1] = ".".join(_ren(x) for x in d[1].split("."))
        elif d[0] == "randref":
            d[1] = _ren(d[1])
        elif d[0] == "nested":
            tpl(d[1])

    def tpl(t):
        t["table"] = _ren(t["table"])
        if t.get("count"):
            fdef(t["count"])
        for f in t["fields"]:
            f[0] = _ren(f[0])
            fdef(f[1])
        for f in t.get("own_fields", []):
            f[0] = _ren(f[0])
            fdef(f[1])
        for s in t["friends"]:
            stmt(s)

    def stmt(s):
        if s[0] == "obj":
            tpl(s[1])
        else:
            fdef(s[2])

    for s in r["stmts"]:
        stmt(s)
    for name, fields in r.get("macros", []):
        for f in fields:
            f[0] = _ren(f[0])
            fdef(f[1])
    return r


def strip_renamed(rows):
    out = []
    for t, fs in rows:
        if t in ("HX", "HX2", "hx1"):
            continue
        def back(v):
            if v[0] == "ref" and v[1] in BACK:
                return ["ref", BACK[v[1]], v[2]]
            if v[0] == "str":       # a name can be embedded in a value (repr of a forward-reference slot)
                x = v[1]
                for vis in sorted(BACK, key=len, reverse=True):
                    x = x.replace(vis, BACK[vis])
                return ["str", x]
            return v
        out.append([t, [[k, back(v)] for k, v in fs if k not in ("hx0", "hx1", "hx2", "hx3", "hx4", "hx5", "hx6", "hx7", "hx8")]])
    return out


# ------------------------------------------------------------------ artefact scanners
def with_update_keys(recipe):
    """the same recipe with `update_key: <a visible field>` on every template that has one
    (upsert steps of the CCI mapping, the _sf_update_key column)"""
    r = copy.deepcopy(recipe)
    n = 0
    for t in S.walk_templates(r):
        own = t["own_fields"] if t.get("include") else t["fields"]
        vis = [f for f, d in own if not f.startswith("__") and f.replace("_", "a").isalnum()]
        if vis and not t["table"].startswith("__"):
            t["update_key"] = vis[0]
            n += 1
    return r if n else None


def as_update_recipe(recipe):
    """update mode (update_input_file + pass-through fields) wants a single top-level object template
    without count: a template of the recipe (any depth) that has a hidden field, reduced to the fields
    that do not depend on other templates; when the recipe has none, its first visible template with a
    hidden field and a reader of it added"""
    def simple(t):
        own = [x for x, _ in t["fields"]]
        return [[f, d] for f, d in t["fields"] if d[0] in ("int", "str") or
                (d[0] == "formula" and all(p[0] == "t" or (p[0] == "e" and (p[1][0] == "int" or
                                                           (p[1][0] == "var" and p[1][1] in own)))
                                           for p in d[1]))]
    cands = [t for t in S.walk_templates(recipe) if not t.get("include") and not t["table"].startswith("__")]
    for t in cands:
        keep = simple(t)
        if any(f.startswith("__") for f, _ in keep):
            return dict(recipe, stmts=[["obj", dict(t, fields=keep, friends=[], count=None, once=False)]])
    if cands:
        t = cands[0]
        keep = [[f, d] for f, d in simple(t) if f not in ("__u", "w_u")]
        keep = [["__u", ["int", 7]]] + keep + [["w_u", ["formula", [["t", "u"], ["e", ["var", "__u"]]]]]]
        return dict(recipe, stmts=[["obj", dict(t, fields=keep, friends=[], count=None, once=False)]])
    return None


def scan_artefacts(recipe, reps):
    out = _scan_artefacts(recipe, reps)
    if "error" not in out:
        up = as_update_recipe(recipe)
        if up is not None:
            out3 = _scan_artefacts(up, 1, update=True)
            if "error" in out3:      # update mode has constraints of its own: not this property's business
                out["update_mode_run"] = ["(failed: %s)" % out3["error"]]
            else:
                for k, v in out3.items():
                    out[k + "+update_mode"] = v
    if "error" not in out:
        uk = with_update_keys(recipe)
        if uk is not None:
            out2 = _scan_artefacts(uk, reps)
            if "error" in out2:      # update_key adds constraints of its own: not this property's business
                out["update_key_run"] = ["(failed: %s)" % out2["error"]]
            else:
                for k, v in out2.items():
                    out[k + "+update_key"] = v
    return out


def _scan_artefacts(recipe, reps, update=False):
    """Run the real output streams and return {artefact: [identifiers]} or {"error": ...}.
    update=True: update mode - the template is driven by an input CSV, with a pass-through field."""
    from snowfakery.api import generate_data, SnowfakeryApplication
    from snowfakery.data_generator_runtime import StoppingCriteria
    import sqlite3

    class QuietApp(SnowfakeryApplication):
        def echo(self, *a, **k):
            pass
    import yaml
    d = Path(tempfile.mkdtemp(prefix="sfv_c09_", dir="/var/tmp"))
    idents = {}
    try:
        text = S.recipe_yaml(recipe)
        (d / "r.yml").write_text(text)
        jsonf, txtf, sqlf, mapf = d / "o.json", d / "o.txt", d / "o.sql", d / "map.yml"
        db = d / "o.db"
        import contextlib
        from .oracle_random import injected_randbelow

        def draws():     # the same injected draw stream as the capture run (recipes with random_reference)
            return injected_randbelow(chooser=S.chooser_for(recipe)) if S.uses_random(recipe) else contextlib.nullcontext()
        extra = {}
        if recipe.get("supplied"):      # option values given by the user, as in the capture run (sfcore.run_recipe)
            extra["user_options"] = dict(recipe["supplied"])
        if update:
            (d / "input.csv").write_text("Oid,Ext\n003A,x1\n003B,x2\n003C,x3\n")
            extra.update(update_input_file=str(d / "input.csv"), update_passthrough_fields=("Oid", "Ext"))
        with draws():
            generate_data(str(d / "r.yml"), parent_application=QuietApp(StoppingCriteria("__REPS__", reps)),
                          output_files=[str(jsonf), str(txtf), str(sqlf)], dburl=f"sqlite:///{db}",
                          generate_cci_mapping_file=str(mapf), **extra)
        (d / "csv").mkdir()
        with draws():
            generate_data(str(d / "r.yml"), parent_application=QuietApp(StoppingCriteria("__REPS__", reps)),
                          output_format="csv", output_folder=str(d / "csv"), **extra)
        ids = []
        for obj in json.loads(jsonf.read_text() or "[]"):
            ids.extend(obj.keys())
            ids.append(obj.get("_table", ""))
        idents["json"] = ids
        ids = []
        for line in txtf.read_text().splitlines():
            m = re.match(r"^([^\s(]+)\((.*)\)$", line)
            if m:
                ids.append(m.group(1))
                ids.extend(re.findall(r"(?:^|, )([^=,\s]+)=", m.group(2)))
        idents["txt"] = ids
        sqltxt = sqlf.read_text()
        ids = re.findall(r'CREATE TABLE\s+"?([^\s"(]+)"?', sqltxt)
        for m in re.finditer(r'INSERT INTO\s+"?([^\s"(]+)"?\s*\(([^)]*)\)', sqltxt):
            ids.append(m.group(1))
            ids.extend(c.strip().strip('"') for c in m.group(2).split(","))
        for m in re.finditer(r'CREATE TABLE[^(]*\((.*?)\)\s*;', sqltxt, flags=re.S):
            ids.extend(re.findall(r'^\s*"?([A-Za-z_]\w*)"?\s', m.group(1), flags=re.M))
        idents["sql"] = ids
        ids = []
        con = sqlite3.connect(db)
        for (name,) in con.execute("select name from sqlite_master where type='table'"):
            ids.append(name)
            ids.extend(row[1] for row in con.execute(f'pragma table_info("{name}")'))
        con.close()
        idents["sqlite"] = ids
        ids = []
        for f in sorted((d / "csv").iterdir()):
            ids.append(f.stem if f.suffix == ".csv" else "")
            if f.suffix == ".csv":
                first = f.read_text().splitlines()[:1]
                ids.extend(first[0].split(",") if first else [])
            else:
                def walk(x):
                    if isinstance(x, dict):
                        for k, v in x.items():
                            if k in ("name", "url", "titles") and isinstance(v, str):
                                ids.append(v)
                            walk(v)
                    elif isinstance(x, list):
                        for y in x:
                            walk(y)
                try:
                    walk(json.loads(f.read_text()))
                except ValueError:
                    pass
        idents["csv"] = ids
        # the Graphviz text output (dot; the image formats are made from it by the `dot` program): node labels
        # `Table(id[, name])` and edge labels (field names).  A run of its own: a diagram that cannot be drawn
        # (close() fails, e.g. a link to a row that was never written) is not this property's business
        try:
            dotf = d / "o.dot"
            with draws():
                generate_data(str(d / "r.yml"), parent_application=QuietApp(StoppingCriteria("__REPS__", reps)),
                              output_file=str(dotf), output_format="dot", **extra)
            ids = []
            for lab in re.findall(r'label="([^"]*)"', dotf.read_text() if dotf.exists() else ""):
                m = re.match(r"^([^\s(]+)\(", lab)
                ids.append(m.group(1) if m else lab)
            idents["dot"] = ids
        except BaseException as e:
            if type(e).__name__ == "_CaseTimeout":
                raise
        ids = []
        mp = yaml.safe_load(mapf.read_text()) or {}
        for step, m in mp.items():
            ids.append(step.split()[-1] if step.split() else step)
            ids.extend([str(m.get("sf_object")), str(m.get("table"))])
            ids.extend(list((m.get("fields") or {}).keys()) + [str(v) for v in (m.get("fields") or {}).values()])
            for k, lk in (m.get("lookups") or {}).items():
                ids.extend([k, str(lk.get("table")), str(lk.get("after", "")).split()[-1] if lk.get("after") else ""])
        idents["mapping"] = ids
        return idents
    except BaseException as e:
        if type(e).__name__ == "_CaseTimeout":
            raise
        return {"error": C.canon_exc(e), "msg": str(e)[:200]}
    finally:
        shutil.rmtree(d, ignore_errors=True)


def run_chain(recipe, ks):
    """the runs of a continuation chain; obs['ok'] = all rows, obs['runs'] = rows per run"""
    runs, cont, draws = [], None, []
    for i, k in enumerate(ks):
        o = S.run_recipe(recipe, reps=k, continuation=cont, want_continuation=(i < len(ks) - 1),
                         draw_offset=len(draws))
        draws.extend(o.get("draws", []))
        cont = o.get("cont")
        if "ok" not in o:
            return {"err": o["err"], "msg": o.get("msg", ""), "runs": runs, "draws": draws}
        runs.append(o["ok"])
    return {"ok": [row for r in runs for row in r], "runs": runs, "draws": draws}


def run_impl(case):
    if case.get("ks"):
        obs = run_chain(case["recipe"], case["ks"])
        if "ok" in obs:
            ren = run_chain(rename_hidden(case["recipe"]), case["ks"])
            obs["renamed"] = ren.get("ok") if "ok" in ren else {"err": ren["err"], "msg": ren.get("msg", "")[:150]}
        elif obs.get("err") == "DGE":      # the other direction, as for single runs below
            ren = run_chain(rename_hidden(case["recipe"]), case["ks"])
            if "ok" in ren:
                obs["fails_only_when_hidden"] = True
        return obs
    obs = S.run_recipe(case["recipe"], reps=case["reps"])
    if "ok" in obs:
        obs["artefacts"] = scan_artefacts(case["recipe"], case["reps"])
        ren = S.run_recipe(rename_hidden(case["recipe"]), reps=case["reps"])
        obs["renamed"] = ren.get("ok") if "ok" in ren else {"err": ren["err"], "msg": ren.get("msg", "")[:150]}
    elif obs.get("err") == "DGE":
        # the other direction of "behaves as if it were visible": a recipe that fails must also fail
        # with its hidden names made visible
        ren = S.run_recipe(rename_hidden(case["recipe"]), reps=case["reps"])
        if "ok" in ren:
            obs["fails_only_when_hidden"] = True
    obs.pop("cont", None)
    return obs


def coq_case(case, obs):
    if case.get("ks"):
        if "ok" in obs:
            if not all(S.comparable(r) for r in obs["runs"]):
                return None
            exp = "(Ok " + C.clist(S.rows_coq(r) for r in obs["runs"]) + ")"
        else:
            exp = f"(Err {C.cerr(obs['err'])})"
        return f"CHist PNames {S.recipe_coq(case['recipe'], obs.get('draws', []))} {C.clist(C.cnat(k) for k in case['ks'])} {exp}"
    slim = {"ok": obs["ok"]} if "ok" in obs else {"err": obs["err"]}
    slim["draws"] = obs.get("draws", [])
    return S.proj_case_coq("PNames", case["recipe"], case["reps"], slim)


def oracle(case, obs):
    if "err" in obs:
        if obs["err"] != "DGE":
            return f"internal-error: {obs['err']}: {obs.get('msg','')[:120]}"
        if obs.get("fails_only_when_hidden"):
            return (f"transparency: the recipe fails ({obs.get('msg', '')[:100]}) but completes with its hidden names "
                    f"made visible")
        return None
    for t, fs in obs["ok"]:
        if t.startswith("__"):
            return f"hidden-table-written: row of table {t} reached write_row"
        for k, _ in fs:
            if k.startswith("__"):
                return f"hidden-field-written: field {k} of table {t} reached write_row"
    art = obs.get("artefacts", {})
    if "error" in art:
        return f"artefact-run-failed: real output streams / mapping failed with {art['error']}: {art.get('msg','')[:120]}"
    for name, ids in art.items():
        bad = [i for i in ids if isinstance(i, str) and i.startswith("__")]
        if bad:
            return f"hidden-name-in-{name}: identifiers {sorted(set(bad))[:5]} appear in the {name} artefact"
    ren = obs.get("renamed")
    if isinstance(ren, dict) and "not fulfilled" in ren.get("msg", ""):
        # a forward-reference slot held by a hidden field is never written, so its id is never drawn and
        # nothing has to fulfil it; made visible, the same value is written and must resolve.  The value is
        # computed alike in both - only writing differs - so this is not a difference the property forbids
        ren = None
    if isinstance(ren, dict):
        return f"transparency: the recipe completes, but with its hidden names made visible it fails with {ren['err']}: {ren.get('msg','')[:80]}"
    if ren is not None and strip_renamed(ren) != obs["ok"]:
        return "transparency: rows differ from those of the same recipe with its hidden names made visible (minus those columns/tables)"
    return None


def nontrivial(case, obs):
    f = set(case.get("features", []))
    return "ok" in obs and bool(f & {"hidden_field", "hidden_table"})


def stats(cases, obss):
    st = S.feature_stats(cases, obss)
    from collections import Counter
    passes = Counter()
    for o in obss:
        art = o.get("artefacts") if isinstance(o, dict) else None
        if not isinstance(art, dict):
            continue
        passes["plain"] += 1
        passes["update_key"] += any(k.endswith("+update_key") for k in art)
        passes["update_key_failed"] += "update_key_run" in art
        passes["update_mode"] += any(k.endswith("+update_mode") for k in art)
        passes["update_mode_failed"] += "update_mode_run" in art
    st["artefact_passes"] = dict(passes)
    return st


shrink = S.shrink_recipe_case


def directed_search(rng, disagreeing):
    out = []
    for _ in range(800):
        r, feats = S.gen_recipe(rng, W)
        out.append({"recipe": r, "reps": 1, "features": feats})
    return out


def match_finding(case, obs, msg, findings):
    return None
