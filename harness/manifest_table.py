"""Source of MANIFEST.json (bin/mkmanifest)."""
_TB = ("Trusted: Coq 8.16.1 kernel + vm_compute; no axioms (Print Assumptions: closed under the global "
       "context); the hand-written model is tied to /repo by the per-run correspondence check (differential, "
       "as good as its generators); ")
CLAIMED = {
 "C12": {
  "text": "Theorems for every range, every value of the two random draws and every operation script: Hull-Dobell "
          "full period for 2^k moduli, random_range is a permutation and terminates, UpdatableRandomRange never "
          "repeats, extension is complete, a move shows only new values. Tied to randomized_range.py by comparing "
          "full output sequences with injected draws (exhaustive for small sizes) and generator parameters at 2^k, 2^k+-1.",
  "design_ref": "DESIGN.md section 5 C12",
  "note": _TB + "modelled: snowfakery/utils/randomized_range.py (whole file). Python ints = Z.",
  "technique": "Coq proof (induction on exponent / invariant over op scripts) + vm_compute correspondence with injected random draws",
 },
}
_NY = "not yet built in this framework (planned, see DESIGN.md section 10); no check is registered"
NOT_APPLICABLE = {f"C{i:02d}": _NY for i in range(1, 21)}
