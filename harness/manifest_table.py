"""Reasons for properties that have no registered check yet (bin/mkmanifest). Claimed checks live in harness/manifest/Cxx.json."""
_NY = "not yet built in this framework (planned, see DESIGN.md section 10); no check is registered"
NOT_APPLICABLE = {f"C{i:02d}": _NY for i in range(1, 21)}
