"""C15 — Schedule.Event emits exactly the occurrences of the recurrence it describes.
Implementation: snowfakery/standard_plugins/Schedule.py; model: coq/theories/Schedule.v.

Two kinds of cases.
  direct  CalendarRule(**kw) called from Python while the names `rrule` and `rruleset` inside
          the Schedule module are replaced by pure recording stand-ins: the keyword arguments
          and rruleset calls the real code makes are observed for arbitrary (also malformed)
          argument values, and compared with the model's `wire`.
  recipe  a recipe using Schedule.Event run through snowfakery.generate_data while the two
          names are replaced by recording SUBCLASSES of the real dateutil classes (they
          delegate): engine calls, the engine's raw output and the emitted rows are observed.
          Independently a dateutil recurrence is built straight from the case's keywords
          (name to name) and its occurrences are the oracle for the rows.
Third kind (round 3): session - a HISTORY of several schedules in one process (several generate_data runs,
          several objects / fields per recipe, direct CalendarRule calls advanced in turn) whose date values are
          drawn from a small pool of instants and spelled in different zones, types and precisions; every
          schedule is judged by the reference recurrence (and the model) of its OWN keywords.
Round 5:  recipe cases of class `offset_text` - include / exclude entries written as TEXT with a UTC offset at times
          of day where the day as written is not the UTC day, as quoted strings and as datetime(...) formulas, under
          `snowfakery_version` 2 (formula results are text) and 3 (objects); sessions of class `macro` - Schedule.Event
          inside macros that several templates (top level, friends, nested, through another macro, a macro's own
          friend template) include: one schedule per (template, field), each judged on its own.
Engine model (round 3): whenever the real engine produced the values (recipe and session cases), the model's
          own recurrence engine (Schedule.v: rr_occ / rs_occ, proved exact in ScheduleP.v) is evaluated on the
          engine calls and compared with dateutil's raw output, inside the fragment it covers.
"""
import calendar
import datetime as _dtm
import inspect
import io
import itertools
import json
import re
import time as _time
from collections import Counter
from datetime import date, datetime, timedelta, timezone

from . import common as C

PROP = "C15"
MODEL = "Schedule"
SHARD = 150
SKIPPED_FN = "engine_not_compared"   # evidence: cases whose engine output was NOT compared with the Gallina recurrence
CASE_TIMEOUT = 30
RULE = ("cases: (direct) CalendarRule(**kw) with recording stand-ins for rrule/rruleset, every keyword "
        "present/absent, well-typed and malformed values, nested rules; compared: engine-call tree, values of "
        "next(), exception class; (recipe) Schedule.Event through generate_data with count / for_each, start dates "
        "uniform over 2019-2030 plus year ends, leap days and century years 1600-2400, several zones, date and datetime forms, include/exclude nesting <= 2; compared: "
        "engine-call tree, rows vs. recorded engine output (model) and rows vs. an independently built dateutil "
        "recurrence (oracle); dateutil's raw output vs. the Gallina recurrence engine (yearly..daily rules and rule "
        "sets of one zone; `outside_model_fragment` counts the cases where that comparison did not apply); (session) "
        "2-10 schedules in one process over 1-3 steps (recipes with several objects / interleaved fields, direct calls "
        "advanced in turn), date values spelled in different zones / types / precisions for the same instants; "
        "every schedule compared with the reference and the model of its own keywords; (offset_text) include / exclude "
        "entries as text carrying an offset whose written day differs from the UTC day, quoted or as a datetime() formula, "
        "snowfakery_version 2 and 3; (macro) 2-12 schedules written once in macros and included by several templates / "
        "friends / nested templates / macros, each (template, field) compared with the recurrence of its keywords from the "
        "first occurrence on.  non-trivial: the rule was "
        "constructed and at least one by*/until/include/exclude/interval keyword was given (session: two schedules "
        "produced rows and two differently spelled values denote one instant); distinct by case hash")
TRUSTED = ["harness/c15.py: recording stand-ins / subclasses put in place of Schedule.rrule and Schedule.rruleset "
           "with unittest.mock.patch.object; independent reference recurrence built with dateutil from the case",
           "dateutil.parser.parse evaluated by the harness supplies the model's parser table"]
ASSUMPTIONS = ["engine_is_rfc5545: dateutil.rrule/rruleset yield the RFC 5545 occurrences of the keyword arguments "
               "they are given (hypothesis of C15_event_emits_exactly_partial; dateutil itself is not verified).  Inside "
               "the fragment of the Gallina engine model (freq yearly..daily, interval, count, until, bymonth, bymonthday, "
               "byyearday, byweekday with ordinals, byhour/byminute/bysecond as times of day, rule sets in one zone) the "
               "hypothesis is replaced by the model (C15_rrule_exact, C15_ruleset_exact) plus its per-run comparison "
               "with dateutil's output (C15_engine_check_sound); hourly and finer rules, bysetpos/byweekno/byeaster and "
               "mixed-zone rule sets remain under the hypothesis",
               "dateutil.parser.parse and datetime.now() are inputs of the model (function argument / value)"]
EXHAUSTIVE = {"quick": False, "thorough": False}

EVENT_KEYS = ["freq", "start_date", "interval", "count", "until", "bysetpos", "bymonth", "bymonthday",
              "byyearday", "byeaster", "byweekno", "byweekday", "byhour", "byminute", "bysecond",
              "cache", "exclude", "include"]
INT_KEYS = ["bysetpos", "bymonth", "bymonthday", "byyearday", "byeaster", "byweekno", "byhour", "byminute", "bysecond"]
DOC_INT_KEYS = ["bymonth", "bymonthday", "byyearday", "byhour", "byminute", "bysecond"]
DATE_KEYS = ["start_date", "until", "exclude", "include"]
FREQS = ["YEARLY", "MONTHLY", "WEEKLY", "DAILY", "HOURLY", "MINUTELY", "SECONDLY"]
WD = ["MO", "TU", "WE", "TH", "FR", "SA", "SU"]
ZONES = [-43200, -28800, -18000, -12600, 3600, 19800, 20700, 32400, 43200, 50400]
UTC = timezone.utc
QUIRKS = {  # oracle code -> finding id.  (K15a, K15b, K15c, K15e are repaired in /repo: the reference
    # below states the intended behaviour only, their witnesses in corpus/C15 are regression cases.)
    "for_each_dt": "K15d",
}


# ================================================================ typed values (JSON) <-> Python
def L(t, v=None, **kw):
    d = {"t": t}
    if v is not None:
        d["v"] = v
    d.update(kw)
    return d


def lit_date(d):
    return L("date", [d.year, d.month, d.day])


def lit_dt(d):
    off = d.utcoffset()
    return L("dt", [d.year, d.month, d.day, d.hour, d.minute, d.second, d.microsecond,
                    None if off is None else int(off.total_seconds())])


def to_py_date(v):
    return date(v[0], v[1], v[2])


def to_py_dt(v):
    tz = None if v[7] is None else timezone(timedelta(seconds=v[7]))
    return datetime(v[0], v[1], v[2], v[3], v[4], v[5], v[6], tzinfo=tz)


def enc_dt(d):
    """(proleptic ordinal, microsecond of day, utcoffset seconds | None)"""
    off = d.utcoffset()
    return [d.toordinal(), ((d.hour * 60 + d.minute) * 60 + d.second) * 1000000 + d.microsecond,
            None if off is None else int(off.total_seconds())]


def enc_scalar(x):
    if x is None:
        return ["none"]
    if isinstance(x, bool):
        return ["bool", x]
    if isinstance(x, int):
        return ["int", x]
    if isinstance(x, str):
        return ["str", x]
    return ["other"]


def walk_events(kw):
    """all keyword lists (top-level first) of a case"""
    yield kw
    for _, e in kw:
        yield from _walk_expr(e)


def _walk_expr(e):
    if e["t"] == "event":
        yield from walk_events(e["kw"])
    elif e["t"] == "seq":
        for x in e["v"]:
            yield from _walk_expr(x)


def kwget(kw, k, default=None):
    for kk, v in kw:
        if kk == k:
            return v
    return default


# ================================================================ generation
def rand_day(rng):
    d0 = date(2019, 1, 1).toordinal()
    d1 = date(2030, 12, 31).toordinal()
    r = rng.random()
    if r < 0.08:   # year ends / starts
        y = rng.randint(2019, 2030)
        return rng.choice([date(y, 12, 31), date(y, 1, 1), date(y, 12, 30), date(y, 1, 2)])
    if r < 0.14:   # leap days and month ends
        return rng.choice([date(2020, 2, 29), date(2024, 2, 29), date(2028, 2, 29), date(2023, 2, 28),
                           date(2021, 3, 31), date(2022, 1, 31), date(2025, 4, 30), date(2024, 3, 1)])
    if r < 0.17:   # century years (leap: 2000, 2400; not leap: 1900, 2100), far past and future
        return rng.choice([date(1900, 2, 28), date(1900, 3, 1), date(1899, 12, 31), date(2000, 2, 29), date(1999, 12, 31),
                           date(2100, 2, 28), date(2099, 12, 31), date(2100, 12, 31), date(2096, 2, 29), date(2104, 2, 29),
                           date(2400, 2, 29), date(1896, 2, 29), date(1970, 1, 1), date(1600, 2, 29), date(2199, 12, 30)])
    return date.fromordinal(rng.randint(d0, d1))


def fmt_off(off):
    sign = "+" if off >= 0 else "-"
    a = abs(off)
    return f"{sign}{a // 3600:02d}:{(a % 3600) // 60:02d}"


def gen_start(rng, want_time=None, utc_only=False):
    """-> (expr, python datetime (aware), precision 'date'|'datetime')"""
    d = rand_day(rng)
    is_dt = rng.random() < 0.55 if want_time is None else want_time
    if not is_dt:
        form = rng.choice(["native", "str"])
        val = lit_date(d) if form == "native" else L("str", d.isoformat())
        return val, datetime(d.year, d.month, d.day, tzinfo=UTC), "date"
    hh, mm, ss = rng.choice([(10, 0, 0), (0, 0, 0), (23, 59, 59), (rng.randint(0, 23), rng.randint(0, 59), rng.randint(0, 59))])
    us = 990000 if rng.random() < 0.06 else 0
    off = 0 if (utc_only or rng.random() < 0.6) else rng.choice(ZONES)
    aware = datetime(d.year, d.month, d.day, hh, mm, ss, us, tzinfo=timezone(timedelta(seconds=off)))
    form = rng.choice(["native", "strT", "strS"])
    if form == "native":
        if off == 0 and rng.random() < 0.6:
            return lit_dt(aware.replace(tzinfo=None)), aware, "datetime"
        return lit_dt(aware), aware, "datetime"
    sep = "T" if form == "strT" else " "
    s = f"{d.isoformat()}{sep}{hh:02d}:{mm:02d}:{ss:02d}"
    if us:
        s += ".99"
    if off == 0:
        s += rng.choice(["", "", "Z", "+00:00"])
    else:
        s += fmt_off(off)
    return L("str", s), aware, "datetime"


def int_forms(rng, vals, allow_list):
    vals = list(vals)
    forms = ["str", "strsp", "tuple"] + (["list"] if allow_list else [])
    if len(vals) == 1:
        forms += ["int", "int", "intstr"]
    f = rng.choice(forms)
    if f == "int":
        return L("int", vals[0])
    if f == "intstr":
        return L("str", str(vals[0]))
    if f == "str":
        return L("str", ",".join(str(v) for v in vals))
    if f == "strsp":
        return L("str", ", ".join(str(v) for v in vals))
    elems = [L("int", v) if rng.random() < 0.8 else L("str", str(v)) for v in vals]
    return L("seq", elems, tuple=(f == "tuple"))


def some(rng, must, pool, kmax=3):
    vals = {must} if must is not None else set()
    for _ in range(rng.randint(0, kmax - 1)):
        vals.add(rng.choice(pool))
    vals = list(vals)
    rng.shuffle(vals)
    return vals


def gen_same_day_ordinals(rng, must=None):
    """byweekday naming the SAME day under several ordinals (first and third Monday, first and last
    Friday, a plain day next to a numbered one), possibly mixed with other days"""
    days = [must if must is not None else rng.randrange(7)]
    if rng.random() < 0.4:
        days.append(rng.randrange(7))
    parts = []
    for d in days:
        ords = rng.sample([1, 2, 3, 4, -1, -2, None], rng.choice([2, 2, 3]))
        for n in ords:
            nm = rng.choice([WD[d], WD[d].lower(), WD[d].capitalize()])
            if n is not None:
                nm += rng.choice([f"({n:+d})", f"({n})"])
            parts.append(nm)
    if rng.random() < 0.3:
        parts.append(WD[rng.randrange(7)] + rng.choice(["", "(+1)", "(-1)"]))
    rng.shuffle(parts)
    return L("str", rng.choice([",", ", ", " , "]).join(parts))


def gen_weekday_str(rng, must, with_n):
    if with_n and rng.random() < 0.35:
        return gen_same_day_ordinals(rng, must)
    days = some(rng, must, list(range(7)), 3)
    parts = []
    for d in days:
        nm = WD[d]
        nm = rng.choice([nm, nm.lower(), nm.capitalize()])
        if with_n and rng.random() < 0.6:
            n = rng.choice([1, 2, -1, -2, 3, 0])
            nm += rng.choice([f"({n:+d})", f"({n})"])
        parts.append(nm)
    return L("str", rng.choice([",", ", ", " , "]).join(parts))


def period(freq_i, interval, k):
    """approximate timedelta of k*interval base periods"""
    unit = [timedelta(days=366), timedelta(days=31), timedelta(days=7), timedelta(days=1),
            timedelta(hours=1), timedelta(minutes=1), timedelta(seconds=1)][freq_i]
    return unit * (interval * k)


def gen_event_kw(rng, depth, mode, start_like=None, sane_lists=True):
    """keywords of one Schedule.Event for a recipe case. start_like: aware datetime of the parent
    (nested rules reuse its time of day so that exclusions can coincide)."""
    kw = []
    in_for_each = mode == "for_each"
    freq_i = rng.choice([0, 1, 1, 2, 2, 3, 3, 3, 4, 5, 6])
    want_time = True if freq_i >= 4 else None
    if start_like is not None:
        d = start_like + timedelta(days=rng.choice([0, 0, 1, 7, 30, -3, 365]))
        if rng.random() < 0.7:
            start = d
            sexpr = lit_dt(d) if rng.random() < 0.5 else L("str", d.isoformat())
            prec = "datetime"
            if d.hour == d.minute == d.second == d.microsecond == 0 and d.utcoffset() == timedelta(0) and freq_i < 4:
                sexpr, prec = (lit_date(d.date()), "date") if rng.random() < 0.5 else (L("str", d.date().isoformat()), "date")
        else:
            sexpr, start, prec = gen_start(rng, want_time)
    elif depth == 0 and rng.random() < 0.03:
        sexpr, start, prec = None, None, "datetime"     # start_date omitted: datetime.now()
    else:
        sexpr, start, prec = gen_start(rng, want_time)
    fname = FREQS[freq_i]
    kw.append(["freq", L("str", rng.choice([fname.lower(), fname, fname.capitalize()]))])
    if sexpr is not None:
        kw.append(["start_date", sexpr])
    interval = 1
    if rng.random() < 0.35:
        interval = rng.choice([1, 2, 2, 3, 4, 7])
        kw.append(["interval", L("int", interval)])
    ref_start = start or datetime(2024, 1, 1, 10, 0, tzinfo=UTC)
    local = ref_start
    # ---- by* filters, derived from a target date so that the combination is satisfiable
    # (dateutil tests `until` only on candidates that pass the filters, and walks period by period:
    #  unsatisfiable or very sparse filters make the ENGINE run for seconds to minutes.  The choices
    #  below keep every combination satisfiable within a few thousand engine steps.)
    ndate_filters = 0
    max_date_filters = 3 if freq_i <= 1 else (2 if freq_i <= 3 else (1 if freq_i <= 5 else 0))
    target = local + (timedelta(days=rng.randint(0, 400)) if freq_i <= 3 else timedelta(0))
    if start is None or (freq_i >= 4 and interval > 1):
        max_date_filters = 0
    order = ["bymonth", "bymonthday", "byyearday", "byweekday"]
    rng.shuffle(order)
    for key in order:
        if ndate_filters >= max_date_filters or rng.random() > 0.3:
            continue
        if key == "byyearday" and freq_i >= 4:
            continue
        if key == "bymonth" and (freq_i == 5 or (freq_i == 1 and interval > 1)):
            continue
        if key == "byweekday" and freq_i == 3 and interval % 7 == 0:
            continue
        ndate_filters += 1
        if key == "bymonth":
            kw.append([key, int_forms(rng, some(rng, target.month, list(range(1, 13))), in_for_each)])
        elif key == "bymonthday":
            last = calendar.monthrange(target.year, target.month)[1]
            must = target.day if rng.random() < 0.7 else target.day - last - 1
            kw.append([key, int_forms(rng, some(rng, must, [1, 2, 15, 28, 29, 30, 31, -1, -2]), in_for_each)])
        elif key == "byyearday":
            yd = target.timetuple().tm_yday
            ylen = 366 if calendar.isleap(target.year) else 365
            must = yd if rng.random() < 0.7 else yd - ylen - 1
            kw.append([key, int_forms(rng, some(rng, must, [1, 60, 100, 365, 366, -1, -7]), in_for_each)])
        else:
            kw.append([key, gen_weekday_str(rng, target.weekday(), with_n=freq_i <= 1 and ndate_filters == 1)])
            if freq_i <= 1 and ndate_filters == 1:
                max_date_filters = 1
    ntime = 0
    for key, hi, cur in (("byhour", 23, local.hour), ("byminute", 59, local.minute), ("bysecond", 59, local.second)):
        if rng.random() < (0.3 if prec == "datetime" else 0.1):
            ntime += 1
            must = cur if rng.random() < 0.5 else None
            vals = some(rng, must, [0, 1, 2, 3, 5, 30, hi, rng.randint(0, hi)], 3) or [rng.randint(0, hi)]
            kw.append([key, int_forms(rng, vals, in_for_each)])
    sparse = ndate_filters >= 2 or (freq_i >= 4 and ndate_filters >= 1) or (freq_i == 6 and ntime >= 1)
    # ---- bounds
    bound = None
    need_bound = in_for_each and depth == 0
    r = rng.random()
    if need_bound or r < 0.45 or depth > 0:
        fine_zone = freq_i >= 5 and start is not None and start.utcoffset() != timedelta(0)
        if start is None or fine_zone or rng.random() < (0.5 if not sparse or freq_i <= 1 else 0.15):
            c = rng.choice([1, 2, 3, 5, 8, 12]) if sparse else rng.choice([1, 2, 3, 5, 10, 20, 40])
            kw.append(["count", L("int", c)])
            bound = "count"
        else:
            k = rng.choice([0, 1, 2, 3, 5, 10, 30])
            u = start + period(freq_i, interval, k)
            uform = rng.choice(["date", "date", "datestr", "datestr", "dtstr", "dtstr", "native_dt"])
            if freq_i >= 4 and uform in ("date", "datestr") and rng.random() < 0.8:
                uform = "dtstr"
            if freq_i >= 5:
                uform = "dtstr_utc"     # (a zone or time-of-day mistake would turn seconds into hours of rows)
            if uform == "date":
                kw.append(["until", lit_date(u.date())])
            elif uform == "datestr":
                kw.append(["until", L("str", u.date().isoformat())])
            elif uform in ("dtstr", "dtstr_utc"):
                if uform == "dtstr_utc":
                    uu = u.astimezone(UTC)
                elif rng.random() < 0.7:
                    uu = u.astimezone(UTC) if rng.random() < 0.8 else u
                else:
                    uu = u.astimezone(timezone(timedelta(seconds=rng.choice(ZONES))))
                s = uu.replace(tzinfo=None).isoformat(sep=rng.choice(["T", " "]))
                off = int(uu.utcoffset().total_seconds())
                s += rng.choice(["", "Z", "+00:00"]) if off == 0 else fmt_off(off)
                kw.append(["until", L("str", s)])
            else:
                uu = u + timedelta(hours=rng.choice([0, 0, -3, 5]))
                kw.append(["until", lit_dt(uu if rng.random() < 0.5 else uu.astimezone(UTC).replace(tzinfo=None))])
            bound = "until"
    # ---- include / exclude
    if depth < 2 and start is not None and freq_i <= 3:
        for key in ("exclude", "include"):
            if rng.random() < (0.25 if depth == 0 else 0.15):
                kw.append([key, gen_special(rng, depth, mode, start, freq_i, interval, key)])
    # ---- rarely: undocumented features (rejected), explicit None / defaults
    if rng.random() < 0.04:
        key = rng.choice(["bysetpos", "byeaster", "byweekno", "cache"])
        kw.append([key, L("bool", True) if key == "cache" else L("int", rng.choice([1, 2, 30]))])
    if rng.random() < 0.03:
        kw.append([rng.choice(["count", "until", "bymonth", "byweekday", "include", "exclude", "byhour"]), L("none")])
    seen, out = set(), []
    for k, v in kw:
        if k not in seen:
            seen.add(k)
            out.append([k, v])
    head, tail = out[:1], out[1:]
    rng.shuffle(tail)
    return head + tail, sparse


def gen_special(rng, depth, mode, start, freq_i, interval, key):
    def one():
        r = rng.random()
        if r < 0.55:
            d = (start + period(freq_i, interval, rng.choice([0, 1, 1, 2, 3, 5]))).date()
            if freq_i == 1:
                try:
                    d = d.replace(day=start.day)
                except ValueError:
                    pass
            if freq_i == 0:
                try:
                    d = date(start.year + rng.choice([0, 1, 2, 3]), start.month, start.day)
                except ValueError:
                    pass
            if rng.random() < 0.15:
                d = rand_day(rng)
            return lit_date(d) if rng.random() < 0.5 else L("str", d.isoformat())
        if r < 0.63:   # aware native datetime at the start's time of day
            d = start + period(freq_i, interval, rng.choice([0, 1, 2]))
            return lit_dt(d.astimezone(UTC)) if d.utcoffset() == timedelta(0) else lit_dt(d)
        if r < 0.66:   # naive native datetime
            d = start + period(freq_i, interval, rng.choice([1, 2]))
            return lit_dt(d.replace(tzinfo=None))
        kw, _ = gen_event_kw(rng, depth + 1, mode, start_like=start)
        return L("event", kw=kw)
    r = rng.random()
    if r < 0.5:
        return one()
    n = rng.choice([0, 1, 2, 2, 3])
    items = [one() for _ in range(n)]
    if rng.random() < 0.25 and items:
        items[rng.randrange(len(items))] = L("seq", [one() for _ in range(rng.choice([0, 1, 2]))],
                                             tuple=(mode == "count" or rng.random() < 0.5))
    tup = True if mode == "count" and rng.random() < 0.93 else rng.random() < 0.5
    return _jinja_fix(L("seq", items, tuple=tup), True)


def _jinja_fix(e, in_seq):
    """values inside a sequence are written as a formula: only whole-second UTC datetimes can be
    expressed there; other datetimes become strings (rule keywords) or dates (include/exclude leaves)"""
    if e["t"] == "seq":
        return dict(e, v=[_jinja_fix(x, True) for x in e["v"]])
    if e["t"] == "event":
        kw = []
        for k, v in e["kw"]:
            if in_seq and v["t"] == "dt" and (v["v"][7] != 0 or v["v"][6] != 0):
                v = L("str", to_py_dt(v["v"]).isoformat())
            kw.append([k, _jinja_fix(v, in_seq or v["t"] == "seq")])
        return dict(e, kw=kw)
    if in_seq and e["t"] == "dt" and (e["v"][7] != 0 or e["v"][6] != 0):
        return lit_date(to_py_dt(e["v"]).date())
    return e


def gen_recipe_case(rng):
    mode = "for_each" if rng.random() < 0.35 else "count"
    kw, sparse = gen_event_kw(rng, 0, mode)
    case = {"kind": "recipe", "kw": kw}
    if mode == "for_each":
        case["mode"] = "for_each"
    else:
        case["mode"] = {"count": rng.choice([1, 2, 3, 4, 6]) if sparse else rng.choice([1, 2, 3, 5, 8, 13, 21])}
    return case


MALFORMED_RECIPE = [
    ("freq", [L("str", "BLAH"), L("str", ""), L("bool", False), L("int", 3), L("str", "dai ly")]),
    ("byweekday", [L("str", "JAN,FEB"), L("str", "MO(ABC)"), L("str", "I_1Z$0R(AB)"), L("bool", True), L("str", "MO("),
                   L("str", "MO,,TU"), L("int", 3), L("str", "MO()")]),
    ("bymonth", [L("str", "AAAA,B"), L("str", "1,,2"), L("str", ""), L("seq", [L("none")], tuple=True)]),
    ("bymonthday", [L("str", "1;2"), L("str", "x")]),
    ("byhour", [L("str", "1.5"), L("int", 24), L("int", 25), L("str", "3,24")]),
    ("bysecond", [L("int", 60), L("int", 61), L("str", "sixty")]),
    ("byminute", [L("int", 60), L("str", "-")]),
    ("until", [L("bool", True), L("int", 5), L("str", "garbage"), L("seq", [L("int", 1)], tuple=True)]),
    ("start_date", [L("bool", True), L("int", 7), L("str", "garbage"), L("seq", [L("int", 1)], tuple=True)]),
    ("include", [L("bool", True), L("int", 5), L("str", "garbage"), L("seq", [L("int", 1)], tuple=True),
                 L("seq", [L("bool", True)], tuple=True)]),
    ("exclude", [L("bool", True), L("int", 5), L("str", "nonsense"), L("seq", [L("none")], tuple=True)]),
    ("use_undocumented_features", [L("bool", True)]),
    ("nosuchkeyword", [L("int", 1)]),
    ("interval", [L("int", 0), L("bool", False), L("str", ""), L("none")]),
    ("byeaster", [L("int", 1), L("str", "MO(ABCDE)")]),
    ("bysetpos", [L("int", 1), L("str", "1,2")]),
    ("byweekno", [L("int", 30), L("str", "1")]),
    ("cache", [L("bool", True), L("int", 1)]),
]


def gen_time_freq_date_start(rng, kind):
    d = rand_day(rng)
    f = rng.choice(FREQS[4:])
    kw = [["freq", L("str", rng.choice([f, f.lower(), f.capitalize()]))],
          ["start_date", lit_date(d) if rng.random() < 0.5 else L("str", d.isoformat())],
          ["count", L("int", rng.choice([2, 3, 5]))]]
    if kind == "direct":
        return {"kind": "direct", "kw": kw, "n": 2}
    return {"kind": "recipe", "kw": kw, "malformed": "freq/start_date",
            "mode": "for_each" if rng.random() < 0.3 else {"count": 2}}


def gen_malformed_recipe(rng):
    if rng.random() < 0.12:
        return gen_time_freq_date_start(rng, "recipe")
    mode = "for_each" if rng.random() < 0.3 else "count"
    for _ in range(20):
        kw, _ = gen_event_kw(rng, 0, mode)
        if kwget(kw, "count") or kwget(kw, "until"):
            break
    key, vals = rng.choice(MALFORMED_RECIPE)
    v = rng.choice(vals)
    kw = [[k, x] for k, x in kw if k != key]
    if key == "freq":
        kw.insert(0, [key, v])
    else:
        kw.insert(rng.randint(1, len(kw)), [key, v])
    if rng.random() < 0.1:
        kw = [[k, x] for k, x in kw if k != "freq"]   # missing required keyword
    case = {"kind": "recipe", "kw": kw, "malformed": key}
    case["mode"] = "for_each" if mode == "for_each" else {"count": rng.choice([1, 2, 3])}
    return case


# ---- direct cases: arbitrary values for every keyword
def wild_value(rng, key):
    r = rng.random()
    pool_int = [0, 1, 2, 3, 5, 7, 12, 30, 31, 59, 60, 366, -1, -2, 400, 10 ** 12]
    if key in INT_KEYS:
        if r < 0.25:
            return L("int", rng.choice(pool_int))
        if r < 0.5:
            n = rng.randint(1, 4)
            sep = rng.choice([",", ", ", " ,"])
            return L("str", sep.join(str(rng.choice(pool_int)) for _ in range(n)))
        if r < 0.7:
            n = rng.randint(0, 3)
            return L("seq", [rng.choice([L("int", rng.choice(pool_int)), L("str", str(rng.choice(pool_int))),
                                         L("bool", rng.random() < 0.5), L("str", " 4 "), L("str", "1_0")])
                             for _ in range(n)], tuple=rng.random() < 0.5)
        if r < 0.78:
            return L("bool", rng.random() < 0.5)
        if r < 0.9:
            return rng.choice([L("str", ""), L("str", "a,b"), L("str", "1,,2"), L("str", "+3,-4"), L("str", "1_000"),
                               L("str", "_1"), L("str", "1_"), L("str", "1__0"), L("str", "0x10"), L("str", " 7\t"),
                               L("str", "1.0"), L("str", "--1"), L("str", "+")])
        return rng.choice([L("none"), L("dict"), L("seq", [L("none")], tuple=False),
                           L("seq", [L("seq", [L("int", 1)], tuple=True)], tuple=True), L("date", [2024, 2, 29]),
                           L("seq", [L("dict")], tuple=False)])
    if key in ("interval", "count"):
        return rng.choice([L("int", rng.choice([0, 1, 2, 3, 10, -1])), L("none"), L("str", "2"), L("bool", True),
                           L("int", 4), L("dict"), L("seq", [L("int", 1)], tuple=True)])
    if key == "cache":
        return rng.choice([L("bool", True), L("bool", False), L("int", 0), L("int", 1), L("none"), L("str", ""), L("str", "x")])
    if key == "use_undocumented_features":
        return rng.choice([L("bool", True), L("bool", True), L("bool", False), L("int", 1), L("int", 0), L("none"), L("str", "yes")])
    if key == "freq":
        if r < 0.8:
            f = rng.choice(FREQS)
            return L("str", rng.choice([f, f.lower(), f.capitalize(), f[0] + f[1:].lower()]))
        return rng.choice([L("str", "BLAH"), L("str", ""), L("str", " daily"), L("str", "daily "), L("int", 3),
                           L("none"), L("bool", False), L("dict"), L("seq", [L("str", "daily")], tuple=False)])
    if key == "byweekday":
        if r < 0.55:
            return gen_weekday_str(rng, None, True) if rng.random() < 0.9 else L("str", "MO")
        return rng.choice([L("str", ""), L("str", "MO(+1)xyz"), L("str", " mo(2) "), L("str", "MO(1)(2)"), L("str", "MO()"),
                           L("str", "MO( 2 )"), L("str", "M O"), L("str", "MO,"), L("str", "(1)"), L("str", "MO(0)"),
                           L("str", "xx(1)"), L("str", "MO(1"), L("str", "TU(-1),we"), L("str", "MO(1_0)"), L("str", "mo\t"),
                           L("str", "MO(+-1)"), L("str", "I_1Z_A_HA$0R(ABCDE)"), L("str", "JAN,FEB,MAR"), L("str", "MO)("),
                           L("str", "MO(a)b)"), L("str", "MO(3)) "), L("str", "_MO(1)"), L("str", "MO (1)"),
                           L("bool", True), L("bool", False), L("int", 0), L("int", 2), L("none"), L("dict"),
                           L("seq", [L("str", "MO")], tuple=False), L("seq", [], tuple=True)])
    if key in ("start_date", "until"):
        if r < 0.2:
            return lit_date(rand_day(rng))
        if r < 0.55:
            e, _, _ = gen_start(rng)
            return e
        if r < 0.7:
            d = rand_day(rng)
            off = rng.choice([None, 0, 3600, -28800, 20700])
            return L("dt", [d.year, d.month, d.day, rng.randint(0, 23), rng.randint(0, 59), rng.randint(0, 59),
                            rng.choice([0, 0, 5, 999999]), off])
        return rng.choice([L("none"), L("str", ""), L("str", "garbage"), L("bool", True), L("bool", False), L("int", 0),
                           L("int", 5), L("dict"), L("seq", [], tuple=True), L("seq", [L("int", 1)], tuple=False),
                           L("str", "2023-02-30"), L("str", "2024-02-29T24:00:01")])
    raise KeyError(key)


def wild_special(rng, depth):
    def leaf():
        r = rng.random()
        if r < 0.3:
            return lit_date(rand_day(rng))
        if r < 0.5:
            e, _, _ = gen_start(rng)
            return e
        if r < 0.65:
            d = rand_day(rng)
            return L("dt", [d.year, d.month, d.day, rng.randint(0, 23), rng.randint(0, 59), 0, 0,
                            rng.choice([None, 0, 19800, -18000])])
        if r < 0.85 and depth < 2:
            return L("event", kw=gen_direct_kw(rng, depth + 1))
        return rng.choice([L("none"), L("bool", True), L("int", 5), L("str", "garbage"), L("dict"), L("str", ""),
                           L("int", 0), L("bool", False)])
    r = rng.random()
    if r < 0.4:
        return leaf()
    items = []
    for _ in range(rng.choice([0, 1, 2, 3])):
        if rng.random() < 0.2:
            items.append(L("seq", [leaf() for _ in range(rng.choice([0, 1, 2]))], tuple=rng.random() < 0.5))
        else:
            items.append(leaf())
    return L("seq", items, tuple=rng.random() < 0.5)


def gen_direct_kw(rng, depth=0):
    kw = []
    style = rng.random()
    p = 0.9 if style < 0.1 else (0.12 if style < 0.5 else 0.3)   # almost all / few / some keywords
    if rng.random() < 0.96:
        kw.append(["freq", wild_value(rng, "freq")])
    if depth > 0:
        # nested rules always carry a real start date (datetime.now() is read once per rule and the
        # model has a single `now`)
        v = wild_value(rng, "start_date")
        while _ref_falsy(v):
            v = wild_value(rng, "start_date")
        kw.append(["start_date", v])
    elif rng.random() < 0.85:
        kw.append(["start_date", wild_value(rng, "start_date")])
    undoc = False
    for key in ["interval", "count", "until", "byweekday"] + INT_KEYS + ["cache"]:
        if rng.random() < p:
            v = wild_value(rng, key)
            kw.append([key, v])
            undoc = undoc or key in ("bysetpos", "byeaster", "byweekno", "cache")
    if undoc and rng.random() < 0.8 or rng.random() < 0.1:
        kw.append(["use_undocumented_features", wild_value(rng, "use_undocumented_features")])
    for key in ("exclude", "include"):
        if rng.random() < (0.3 if depth == 0 else 0.15):
            kw.append([key, wild_special(rng, depth)])
    if rng.random() < 0.01:
        kw.append(["nosuchkeyword", L("int", 1)])
    head, tail = kw[:1], kw[1:]
    rng.shuffle(tail)
    return head + tail


def gen_direct_single(rng, key=None):
    """one by-keyword given, well-typed start: the sharpest probe of a mis-wired keyword"""
    e, _, _ = gen_start(rng, want_time=True)
    key = key or rng.choice(INT_KEYS + ["byweekday", "interval", "count", "cache", "until"])
    kw = [["freq", L("str", rng.choice(FREQS).lower())], ["start_date", e], [key, wild_value(rng, key)],
          ["use_undocumented_features", L("bool", True)]]
    return {"kind": "direct", "kw": kw, "n": 2}


def generate(rng, tier):
    cases = []
    nq = tier == "quick"
    for key in INT_KEYS + ["byweekday", "interval", "count", "cache", "until"]:
        for _ in range(3 if nq else 40):
            cases.append(gen_direct_single(rng, key))
    for _ in range(900 if nq else 26000):
        cases.append({"kind": "direct", "kw": gen_direct_kw(rng), "n": 2})
    for _ in range(12 if nq else 200):
        cases.append(gen_time_freq_date_start(rng, "direct"))
    for _ in range(800 if nq else 24000):
        cases.append(gen_recipe_case(rng))
    for _ in range(120 if nq else 3000):
        cases.append(gen_malformed_recipe(rng))
    for _ in range(10 if nq else 300):
        cases.append(gen_nested_exclusion(rng))
    for _ in range(40 if nq else 800):
        cases.append(gen_ordinal_weekdays_case(rng))
    # single documented by-keyword with a plain UTC datetime start, every keyword, both modes
    for key in DOC_INT_KEYS:
        for _ in range(2 if nq else 30):
            cases.append(gen_recipe_single(rng, key))
    # histories: several schedules in one process, date values equal as instants, spelled differently
    for _ in range(160 if nq else 4000):
        cases.append(gen_session(rng))
    for _ in range(40 if nq else 1000):
        cases.append(gen_session(rng, general=True))
    # round 5: text include / exclude entries with offsets (both dialects); macros included by several templates
    rng5 = __import__("random").Random(rng.random())
    for _ in range(220 if nq else 5000):
        cases.append(gen_offset_text_case(rng5))
    for _ in range(110 if nq else 2500):
        cases.append(gen_macro_session(rng5))
    return cases


def gen_nested_exclusion(rng):
    """a nested schedule that has only an `exclude` of one of its OWN occurrences, used as include
    (the excluded day must not come back) or as exclude (the excluded day must stay) of an outer rule"""
    d0 = rand_day(rng)
    dd = lambda k: d0 + timedelta(days=k)
    lit = lambda d: lit_date(d) if rng.random() < 0.5 else L("str", d.isoformat())
    if rng.random() < 0.5:
        off = rng.choice([1, 2, 3, 4])
        hole = rng.choice([0, 1, 2])
        inner = L("event", kw=[["freq", L("str", "weekly")], ["start_date", lit(dd(off))], ["count", L("int", 4)],
                               ["exclude", lit(dd(off + 7 * hole))]])
        kw = [["freq", L("str", "weekly")], ["start_date", lit(d0)], ["include", inner]]
        return {"kind": "recipe", "kw": kw, "mode": {"count": rng.choice([6, 7])}}
    off = rng.choice([1, 2, 3])
    hole = rng.choice([0, 1])
    inner = L("event", kw=[["freq", L("str", "weekly")], ["start_date", lit(dd(off))],
                           ["exclude", lit(dd(off + 7 * hole))]])
    kw = [["freq", L("str", "daily")], ["start_date", lit(d0)], ["until", lit(dd(16))], ["exclude", inner]]
    return {"kind": "recipe", "kw": kw, "mode": "for_each" if rng.random() < 0.5 else {"count": 12}}


def gen_ordinal_weekdays_case(rng):
    """monthly / yearly rules whose byweekday repeats a day name with different ordinals, at top level
    or inside a nested include / exclude schedule; recipe (count, for_each) and direct (wiring) form"""
    d0 = rand_day(rng)
    freq = rng.choice(["monthly", "monthly", "yearly", "Monthly", "YEARLY"])
    if rng.random() < 0.5:
        start = lit_date(d0) if rng.random() < 0.5 else L("str", d0.isoformat())
    else:
        start = lit_dt(datetime(d0.year, d0.month, d0.day, rng.randint(0, 23), rng.randint(0, 59), 0))
    fixed = rng.choice([None, None, "MO(+1), MO(+3)", "FR(+1),FR(-1)", "WE(+2), MO(-1), WE(-1)", "MO(+1), MO",
                        "su(-1),SU(1),Su(+2)"])
    wd = L("str", fixed) if fixed else gen_same_day_ordinals(rng)
    rule = [["freq", L("str", freq)], ["start_date", start], ["byweekday", wd]]
    if rng.random() < 0.25 and freq.lower() == "yearly":
        rule.append(["bymonth", int_forms(rng, some(rng, rng.randint(1, 12), list(range(1, 13))), False)])
    r = rng.random()
    if r < 0.25:
        return {"kind": "direct", "kw": rule, "n": 2}
    if r < 0.6:
        mode = {"count": rng.choice([4, 6, 9])} if rng.random() < 0.6 else "for_each"
        if mode == "for_each":
            rule.append(["count", L("int", rng.choice([5, 8, 12]))])
        return {"kind": "recipe", "kw": rule, "mode": mode}
    # nested: the ordinal rule is an include (its occurrences must all appear) or an exclude of a daily rule
    inner = L("event", kw=rule + [["count", L("int", rng.choice([4, 6, 8]))]])
    if rng.random() < 0.5:
        outer = [["freq", L("str", "yearly")], ["start_date", start], ["include", inner]]
        return {"kind": "recipe", "kw": outer, "mode": {"count": rng.choice([4, 6])}}
    dstart = start if start["t"] != "str" else lit_date(d0)
    outer = [["freq", L("str", "daily")], ["start_date", dstart], ["count", L("int", 70)],
             ["exclude", inner if rng.random() < 0.6 else L("seq", [inner], tuple=True)]]
    return {"kind": "recipe", "kw": outer, "mode": "for_each"}


def gen_recipe_single(rng, key):
    e, start, _ = gen_start(rng, want_time=True, utc_only=True)
    hi = {"bymonth": 12, "bymonthday": 28, "byyearday": 365, "byhour": 23, "byminute": 59, "bysecond": 59}[key]
    lo = 0 if key in ("byhour", "byminute", "bysecond") else 1
    freq_i = {"bymonth": 1, "bymonthday": 3, "byyearday": 3, "byhour": 4, "byminute": 5, "bysecond": 5}[key]
    v = rng.randint(lo, hi)
    kw = [["freq", L("str", FREQS[freq_i].lower())], ["start_date", e], [key, rng.choice([L("int", v), L("str", str(v))])]]
    return {"kind": "recipe", "kw": kw, "mode": {"count": rng.choice([2, 3, 5])}}



# ================================================================ include / exclude written as TEXT with an offset
# (round 5) A text entry of include / exclude is a "simple date": the calendar day AS WRITTEN, at the start's
# time of day in the start's zone - whatever time and offset the text carries.  The generator writes entries
# whose day as written differs from the UTC day of the instant they spell (late evening west of Greenwich,
# early morning east of it), as quoted strings in both dialects and as `${{datetime(..., timezone=...)}}`
# formulas, which are TEXT under `snowfakery_version: 2` and datetime OBJECTS (instants) under version 3.
def formula_leaf(d, version):
    """the value of `${{datetime(...)}}` for the aware whole-second datetime d in the given dialect"""
    if version == 2:
        return L("str", str(d), via="formula", dt=lit_dt(d)["v"])
    return L("dt", lit_dt(d)["v"], via="formula")


def _crossing_time(rng, off):
    """seconds of the local day at which the UTC calendar day differs from the local one (None: there is none)"""
    if off > 0:
        return rng.randrange(0, off)
    if off < 0:
        return rng.randrange(86400 + off, 86400)
    return None


def _at(d, sec, off):
    return datetime(d.year, d.month, d.day, sec // 3600, (sec % 3600) // 60, sec % 60, tzinfo=timezone(timedelta(seconds=off)))


def text_entry(rng, day, version, like=None, allow_formula=True):
    """an include / exclude leaf that names `day` as written; like=(seconds of day, offset) of the start"""
    r = rng.random()
    if like is not None and r < 0.45:
        sec, off = like
    else:
        off = rng.choice(ZONES + [0]) if r < 0.9 else 0
        sec = _crossing_time(rng, off) if rng.random() < 0.75 else None
        if sec is None:
            sec = rng.randrange(86400)
        if rng.random() < 0.5:
            sec -= sec % 60
    d = _at(day, sec, off)
    f = rng.choice(["str", "str", "formula", "formula", "native"]) if allow_formula and off % 60 == 0 else "str"
    if f == "formula":
        return formula_leaf(d, version)
    if f == "native":
        return lit_dt(d)
    s = d.replace(tzinfo=None).isoformat(sep=rng.choice(["T", " "]))
    return L("str", s + (rng.choice(["Z", "+00:00"]) if off == 0 else fmt_off(off)))


def gen_offset_text_case(rng):
    version = rng.choice([2, 3])
    d = rand_day(rng)
    off = rng.choice(ZONES + [0, 0])
    sec = _crossing_time(rng, off) if rng.random() < 0.7 else None
    if sec is None:
        sec = rng.randrange(86400)
    sec -= sec % rng.choice([1, 60, 1800])
    start = _at(d, sec, off)
    like = (sec, off)
    r = rng.random()
    if r < 0.2:        # a date-precision start: entries are days at 00:00 UTC
        start = datetime(d.year, d.month, d.day, tzinfo=UTC)
        like = None
        sexpr = lit_date(d) if rng.random() < 0.5 else L("str", d.isoformat())
    elif r < 0.5:
        sexpr = lit_dt(start)
    elif r < 0.75:
        sexpr = L("str", start.replace(tzinfo=None).isoformat(sep=rng.choice(["T", " "])) + (rng.choice(["", "Z"]) if off == 0 else fmt_off(off)))
    else:
        sexpr = formula_leaf(start, version) if off % 60 == 0 else lit_dt(start)
    freq_i = rng.choice([1, 2, 3, 3, 3])
    interval = rng.choice([1, 1, 1, 2])
    kw = [["freq", L("str", FREQS[freq_i].lower())], ["start_date", sexpr]]
    if interval > 1:
        kw.append(["interval", L("int", interval)])
    n_occ = rng.choice([3, 4, 6, 8])

    def occ_day(k):
        if freq_i == 1:
            return _add_months(start, k * interval).date()
        return (start + period(freq_i, interval, k)).date()
    if d.day > 28 and freq_i == 1:
        freq_i, kw[0] = 3, ["freq", L("str", "daily")]
    mode = "for_each" if rng.random() < 0.3 else "count"
    if mode == "for_each" or rng.random() < 0.5:
        r = rng.random()
        if r < 0.4:
            kw.append(["count", L("int", n_occ)])
        elif r < 0.75:
            u = occ_day(n_occ - 1)
            kw.append(["until", lit_date(u) if rng.random() < 0.5 else L("str", u.isoformat())])
        else:      # a datetime `until` (text or object) is an instant, whatever zone it is written in
            kw.append(["until", text_entry(rng, occ_day(n_occ - 1), version, like)])
    keys = rng.choice([["exclude"], ["exclude"], ["include"], ["exclude", "include"]])
    n_rows = n_occ
    for key in keys:
        def one():
            if key == "exclude":
                day = occ_day(rng.randrange(0, n_occ)) if rng.random() < 0.85 else occ_day(1) + timedelta(days=rng.choice([-1, 1]))
            else:
                day = occ_day(rng.randrange(0, n_occ + 3)) + timedelta(days=rng.choice([0, 1, 1, 2, -1, 40]))
            return text_entry(rng, day, version, like)
        if version == 3 and rng.random() < 0.3:
            items = [one() for _ in range(rng.choice([1, 2, 3]))]
            items = [x if not (x["t"] == "dt" and x.get("via") != "formula" and (x["v"][7] is None or x["v"][7] % 60)) else
                     L("str", to_py_dt(x["v"]).isoformat()) for x in items]
            kw.append([key, L("seq", items, tuple=True)])
        elif rng.random() < 0.12:
            inner = [["freq", L("str", "daily")], ["start_date", text_entry(rng, occ_day(1), version, like, allow_formula=True)],
                     ["count", L("int", 2)], [rng.choice(["exclude", "include"]), one()]]
            if rng.random() < 0.4:
                inner[1] = ["start_date", sexpr]
            kw.append([key, L("event", kw=inner)])
        else:
            kw.append([key, one()])
    head, tail = kw[:1], kw[1:]
    rng.shuffle(tail)
    case = {"kind": "recipe", "kw": head + tail, "version": version, "cls": "offset_text"}
    case["mode"] = "for_each" if mode == "for_each" else {"count": rng.randint(1, max(1, n_rows - 1))}
    return case


# ================================================================ sessions: several schedules in one process
# Every schedule's output is a function of its OWN keywords.  A session is a history: several
# generate_data runs (each with several objects using Schedule.Event) and direct CalendarRule calls
# in ONE process, whose start / until / include / exclude values are drawn from a small pool of
# instants and spelled in different zones, types (native value / string) and precisions (date vs
# datetime at midnight).  Each event is judged by the reference recurrence of its own keywords.
SESSION_ZONES = [0, 0, -43200, -28800, -18000, -12600, 3600, 19800, 20700, 32400, 43200, 50400]


def spell(rng, T, allow_date=True, native_only=False):
    """a keyword value denoting the instant T (aware, whole seconds): random zone, type, precision"""
    Tu = T.astimezone(UTC)
    forms = ["native_tz", "native_tz", "native_tz", "native_naive", "str_tz", "str_tz", "str_utc"]
    if native_only:
        forms = ["native_tz", "native_tz", "native_naive"]
    if allow_date and (Tu.hour, Tu.minute, Tu.second) == (0, 0, 0):
        forms += ["date", "datestr"] if not native_only else ["date"]
    f = rng.choice(forms)
    if f == "date":
        return lit_date(Tu.date())
    if f == "datestr":
        return L("str", Tu.date().isoformat())
    if f == "native_naive":
        return lit_dt(Tu.replace(tzinfo=None))
    if f == "str_utc":
        return L("str", Tu.replace(tzinfo=None).isoformat(sep=rng.choice(["T", " "])) + rng.choice(["", "Z", "+00:00"]))
    z = rng.choice(SESSION_ZONES)
    loc = Tu.astimezone(timezone(timedelta(seconds=z)))
    if f == "native_tz":
        return lit_dt(loc)
    s = loc.replace(tzinfo=None).isoformat(sep=rng.choice(["T", " "]))
    return L("str", s + (rng.choice(["Z", "+00:00"]) if z == 0 else fmt_off(z)))


def _add_months(T, k):
    y, m = divmod(T.year * 12 + T.month - 1 + k, 12)
    try:
        return T.replace(year=y, month=m + 1)
    except ValueError:
        return T.replace(year=y, month=m + 1, day=28)


def gen_session_event(rng, pool, how, r5=False):
    """one Schedule.Event whose date-valued keywords are spellings of instants of the pool
    (r5: include / exclude leaves may be text too - a text names the DAY as written)"""
    freq_i = rng.choice([0, 1, 1, 1, 2, 3, 3, 4])
    T = pool[0] if rng.random() < 0.6 else rng.choice(pool)
    fname = FREQS[freq_i]
    kw = [["freq", L("str", rng.choice([fname.lower(), fname, fname.capitalize()]))],
          ["start_date", spell(rng, T, allow_date=freq_i < 4)]]
    interval = 1
    if rng.random() < 0.25:
        interval = rng.choice([2, 3])
        kw.append(["interval", L("int", interval)])
    filtered = False
    if rng.random() < 0.25 and freq_i <= 3:
        filtered = True
        if freq_i == 3:
            kw.append(["byweekday", L("str", rng.choice(["MO,WE,FR", "TU, TH", "SA,SU", "mo,tu,we,th,fr"]))])
        elif freq_i == 2:
            kw.append(["byweekday", L("str", rng.choice(["MO", "TU,FR", "SU", "we, sa"]))])
        elif freq_i == 1:
            kw.append(rng.choice([["bymonthday", L("int", rng.choice([1, 15, 28, -1]))],
                                  ["byweekday", L("str", rng.choice(["MO(+1)", "FR(-1)", "TU(+2), TH(-1)"]))]]))
        else:
            kw.append(["bymonth", int_forms(rng, some(rng, T.month, list(range(1, 13)), 2), how != "recipe_count")])
    later = [x for x in pool if x > T]
    n_avail = None
    if later and rng.random() < 0.45:
        U = rng.choice(later)
        kw.append(["until", spell(rng, U, allow_date=rng.random() < 0.5)])
        bounded = True
    else:
        c = rng.choice([2, 3, 4, 5, 8])
        kw.append(["count", L("int", c)])
        bounded = True
        n_avail = c
    if freq_i <= 3 and rng.random() < 0.3:
        key = rng.choice(["exclude", "include"])
        X = rng.choice(pool)
        leaf = lambda: spell(rng, rng.choice(pool), allow_date=True, native_only=not (r5 and rng.random() < 0.4))
        if how == "direct" and rng.random() < 0.5:
            kw.append([key, L("seq", [leaf() for _ in range(rng.choice([1, 2, 3]))], tuple=rng.random() < 0.5)])
        else:
            kw.append([key, spell(rng, X, allow_date=True, native_only=True) if not r5 else leaf()])
        if key == "exclude":
            n_avail = None
        elif n_avail is not None:
            n_avail = n_avail       # an include never removes occurrences
    head, tail = kw[:1], kw[1:]
    rng.shuffle(tail)
    ev = {"kw": head + tail}
    if how == "direct":
        ev["mode"] = {"count": rng.choice([1, 2, 3]) if n_avail is None else rng.randint(1, n_avail)}
    elif n_avail is not None and not filtered and rng.random() < 0.6:
        ev["mode"] = {"count": rng.randint(1, n_avail)}
    else:
        ev["mode"] = "for_each"
    return ev


def _session_pool(rng):
    d = rand_day(rng)
    r = rng.random()
    if r < 0.35:
        hms = (0, 0, 0)
    elif r < 0.5:
        hms = rng.choice([(4, 0, 0), (20, 0, 0), (23, 30, 0), (0, 30, 0), (12, 0, 0)])
    else:
        hms = (rng.randint(0, 23), rng.choice([0, 15, 30, 45, rng.randint(0, 59)]), rng.choice([0, 0, rng.randint(0, 59)]))
    T0 = datetime(d.year, d.month, d.day, *hms, tzinfo=UTC)
    return [T0, T0 + timedelta(days=1), T0 + timedelta(days=7), _add_months(T0, 1), _add_months(T0, 3),
            T0 + timedelta(hours=rng.choice([1, 5, 24 * 14]))]


def gen_session(rng, general=False):
    pool = _session_pool(rng)
    T0 = pool[0]
    steps = []
    for _ in range(rng.choice([1, 2, 2, 3])):
        how = "direct" if rng.random() < 0.25 else "recipe"
        evs = []
        for _ in range(rng.choice([1, 2, 2, 3])):
            if general and rng.random() < 0.5:
                # an unrelated, arbitrary schedule in between (state must not leak from or into it)
                c = gen_recipe_case(rng)
                if how == "direct":
                    c["kw"] = [[k, v] for k, v in c["kw"] if k in ("freq", "start_date", "interval", "count")]
                    c["mode"] = {"count": 2}
                if kwget(c["kw"], "start_date") is None or _ref_falsy(kwget(c["kw"], "start_date")):
                    c["kw"] = [[k, v] for k, v in c["kw"] if k != "start_date"]
                    c["kw"].append(["start_date", spell(rng, T0, allow_date=False)])
                evs.append({"kw": c["kw"], "mode": c["mode"]})
            else:
                evs.append(gen_session_event(rng, pool, how))
            if rng.random() < 0.12:
                evs.append(json.loads(json.dumps(evs[-1])))       # the very same schedule once more
        st = {"how": how, "events": evs}
        if rng.random() < 0.4:
            # recipe: schedules with `count` become FIELDS of one object (built together, advanced row by row
            # in turn); direct: all rules are built first and then advanced in turn
            st["interleave"] = True
            if how == "recipe":
                cnt = [ev["mode"]["count"] for ev in evs if ev["mode"] != "for_each"]
                for ev in evs:
                    if ev["mode"] != "for_each":
                        ev["mode"] = {"count": min(cnt)}
        steps.append(st)
    if sum(len(s["events"]) for s in steps) < 2:
        steps.append({"how": "recipe", "events": [gen_session_event(rng, pool, "recipe")]})
    return {"kind": "session", "steps": steps}


# ---- round 5: schedules reached through macros.  A macro's fields become fields of EVERY template that includes
# it (top-level templates, friends, nested templates, through another macro); each including template is its own
# place of use of Schedule.Event and must list the whole recurrence from its first occurrence on, however the
# other templates are interleaved with it.  The step's `events` holds one entry per (template, field); `layout`
# says how they are written down.
def _route_formulas(rng, kw, version, p):
    """some aware datetime values are written as datetime(...) formulas instead of YAML timestamps:
    still objects under version 3, TEXT under version 2 (YAML timestamps are objects in both dialects)"""
    out = []
    for k, v in kw:
        if v["t"] == "event":
            v = dict(v, kw=_route_formulas(rng, v["kw"], version, p))
        elif k in DATE_KEYS and v["t"] == "dt" and v["v"][7] is not None and v["v"][7] % 60 == 0 and v["v"][6] == 0 \
                and rng.random() < p:
            v = formula_leaf(to_py_dt(v["v"]), version)
        out.append([k, v])
    return out


def _has_seq(kw):
    return any(v["t"] == "seq" or (v["t"] == "event" and _has_seq(v["kw"])) for _, v in kw)


def _macro_event(rng, pool, need):
    """a schedule for a macro: enough occurrences for `need` rows of every including template"""
    ev = gen_session_event(rng, pool, "recipe_count", r5=True)
    kw = [[k, v] for k, v in ev["kw"] if k not in ("until", "count")]
    r = rng.random()
    if r < 0.5:
        kw.append(["count", L("int", need + rng.choice([0, 1, 5, 20]) + (6 if kwget(kw, "exclude") else 0))])
    return kw


def gen_macro_session(rng):
    pool = _session_pool(rng)
    version = rng.choice([2, 3, 3])
    events, macros = [], []
    MAXROWS = 8
    n_macros = rng.choice([1, 1, 2])
    for j in range(n_macros):
        fields = [[f"m{j}f{k}", _macro_event(rng, pool, MAXROWS)] for k in range(rng.choice([1, 1, 2]))]
        macros.append({"name": f"m{j}", "fields": fields, "include": None})
    if n_macros == 2 and rng.random() < 0.6:
        macros[1]["include"] = "m0"              # a macro that includes a macro
    if version == 2 and any(_has_seq(kw) for m in macros for _, kw in m["fields"]):
        version = 3                              # (sequences are written as formulas: objects only in version 3)
    for m in macros:
        m["fields"] = [[f, _route_formulas(rng, kw, version, 0.4)] for f, kw in m["fields"]]
    # a macro with FRIENDS: every top-level template that includes it gets its own copy of the friend template
    # (same table name; the copies run one after the other, so their rows are consecutive blocks of that table)
    mf = None
    if rng.random() < 0.4:
        kwf = _route_formulas(rng, _macro_event(rng, pool, MAXROWS), version, 0.4)
        if version == 2 and _has_seq(kwf):
            kwf = [[k, v] for k, v in kwf if not (v["t"] == "seq" or v["t"] == "event")]
        mf = {"name": "mf", "include": None, "friend": {"name": "MF", "count": rng.choice([1, 1, 2]), "field": "g0", "kw": kwf},
              "fields": [["mff0", _route_formulas(rng, _macro_event(rng, pool, MAXROWS), version, 0.4)]] if rng.random() < 0.4 else []}
        if version == 2 and any(_has_seq(kw) for _, kw in mf["fields"]):
            mf["fields"] = []
        macros.append(mf)
    by_name = {m["name"]: m for m in macros}

    def macro_fields(name):
        m = by_name[name]
        return (macro_fields(m["include"]) if m["include"] else []) + [[f, kw, name] for f, kw in m["fields"]]
    counter = [0]

    def template(kind, rows_above, depth):
        i = counter[0]
        counter[0] += 1
        t = {"name": f"{kind}{i}", "include": [], "slots": [], "own": [], "nested": [], "friends": []}
        if kind == "K":
            t["count"], rows = None, rows_above
        else:
            room = max(1, MAXROWS // rows_above)
            t["count"] = rng.randint(1, min(4, room))
            rows = rows_above * t["count"]
        r = rng.random()
        inc = ["m0"] if r < 0.75 else []
        if n_macros == 2 and rng.random() < 0.5:
            inc = [rng.choice(["m1", "m1", "m0"])] if macros[1]["include"] else rng.choice([["m1"], ["m0", "m1"], ["m1", "m0"]])
        if mf and kind == "E" and rng.random() < 0.7 and rows * mf["friend"]["count"] <= MAXROWS:
            inc = inc + ["mf"] if rng.random() < 0.5 else ["mf"] + inc
            t["mfriends"] = [{"name": mf["friend"]["name"], "count": mf["friend"]["count"], "include": [], "slots": [], "nested": [],
                              "friends": [], "own": [[mf["friend"]["field"], None]], "rows": rows * mf["friend"]["count"]}]
        t["include"] = inc
        seen = set()
        for name in inc:
            for f, kw, src in macro_fields(name):
                if f in seen:
                    continue
                seen.add(f)
                t["slots"].append([f, len(events), src])
                events.append({"kw": json.loads(json.dumps(kw)), "mode": {"count": rows}})
        if rng.random() < 0.35:                  # a schedule of its own next to the included ones
            if rng.random() < 0.5 and macros[0]["fields"]:
                kw = json.loads(json.dumps(macros[0]["fields"][0][1]))      # the macro's schedule, written out
            else:
                kw = _route_formulas(rng, _macro_event(rng, pool, MAXROWS), version, 0.4)
                if version == 2 and _has_seq(kw):
                    kw = [[k, v] for k, v in kw if not (v["t"] == "seq" or v["t"] == "event")]
            t["own"].append([f"d{len(events)}", len(events)])
            events.append({"kw": kw, "mode": {"count": rows}})
        for fr in t.get("mfriends", []):
            fr["own"][0][1] = len(events)
            events.append({"kw": json.loads(json.dumps(mf["friend"]["kw"])), "mode": {"count": fr.pop("rows")}})
        if depth < 2 and rng.random() < (0.35 if depth == 0 else 0.15):
            t["nested"].append([f"kid{counter[0]}", template("K", rows, depth + 1)])
        if depth < 2 and rows < MAXROWS and rng.random() < (0.4 if depth == 0 else 0.15):
            t["friends"].append(template("F", rows, depth + 1))
        return t
    templates = [template("E", 1, 0) for _ in range(rng.choice([2, 2, 3]))]

    def includers(t):
        return (1 if t["slots"] else 0) + sum(includers(x) for _, x in t["nested"]) + sum(includers(x) for x in t["friends"])
    if sum(includers(t) for t in templates) < 2:
        for t in templates[:2]:
            if not t["slots"]:
                t["include"] = t["include"] + ["m0"]
                rows = t["count"]
                for f, kw, src in macro_fields("m0"):
                    t["slots"].append([f, len(events), src])
                    events.append({"kw": json.loads(json.dumps(kw)), "mode": {"count": rows}})
    pos = 0
    for t in templates:                           # which rows of the shared friend table belong to which copy
        for fr in t.get("mfriends", []):
            n = events[fr["own"][0][1]]["mode"]["count"]
            fr["slice"] = [pos, pos + n]
            pos += n
    step = {"how": "recipe", "events": events, "version": version,
            "layout": {"macros": [dict({"name": m["name"], "include": m["include"], "fields": [f for f, _ in m["fields"]]},
                                       **({"friend": {k: v for k, v in m["friend"].items() if k != "kw"}} if m.get("friend") else {}))
                                  for m in macros],
                       "templates": templates}}
    steps = [step]
    if rng.random() < 0.3:                       # the same process goes on with ordinary schedules of the same instants
        steps.append({"how": "recipe", "events": [gen_session_event(rng, pool, "recipe") for _ in range(rng.choice([1, 2]))]})
        if rng.random() < 0.5:
            steps.reverse()
    return {"kind": "session", "steps": steps, "cls": "macro"}


def layout_templates(layout):
    """all templates of a layout in the order of their first evaluation (a template's own row is built
    field by field - nested templates where their field stands -, then its friends)"""
    out = []

    def walk(t):
        out.append(t)
        for _, k in t["nested"]:
            walk(k)
        for f in t.get("mfriends", []) + t["friends"]:
            walk(f)
    for t in layout["templates"]:
        walk(t)
    return out


def layout_order(layout):
    """event indexes in the order in which the schedules are first evaluated: included fields, own fields,
    nested templates, friends"""
    out = []

    def walk(t):
        out.extend(i for _, i, _ in t["slots"])
        out.extend(i for _, i in t["own"])
        for _, k in t["nested"]:
            walk(k)
        for f in t.get("mfriends", []) + t["friends"]:
            walk(f)
    for t in layout["templates"]:
        walk(t)
    return out


def render_layout_recipe(st):
    events, lay = st["events"], st["layout"]
    lines = [f"- snowfakery_version: {st.get('version', 3)}", "- plugin: snowfakery.standard_plugins.Schedule"]
    defs = {}
    for t in layout_templates(lay):
        for f, i, src in t["slots"]:
            defs.setdefault((src, f), i)          # (every instance carries the same keywords)
    for m in lay["macros"]:
        lines.append(f"- macro: {m['name']}")
        if m["include"]:
            lines.append(f"  include: {m['include']}")
        lines.append("  fields:")
        for f in m["fields"]:
            if (m["name"], f) not in defs:
                lines.append(f"    {f}: 0")
                continue
            lines += [f"    {f}:", "      Schedule.Event:"] + _yaml_kw(events[defs[(m["name"], f)]]["kw"], 8)
        if not m["fields"]:
            lines.pop()
        fr = m.get("friend")
        if fr:
            inst = [t for t in layout_templates(lay) if t["name"] == fr["name"]]
            lines += ["  friends:", f"    - object: {fr['name']}", f"      count: {fr['count']}"]
            if inst:
                lines += ["      fields:", f"        {fr['field']}:", "          Schedule.Event:"] + \
                    _yaml_kw(events[inst[0]["own"][0][1]]["kw"], 12)

    def tmpl(t, ind, as_item=True):
        pad = " " * ind
        out = [f"{pad}- object: {t['name']}"]
        if t["count"] is not None:
            out.append(f"{pad}  count: {t['count']}")
        if t["include"]:
            out.append(f"{pad}  include: {', '.join(t['include'])}")
        if t["own"] or t["nested"]:
            out.append(f"{pad}  fields:")
            for f, i in t["own"]:
                out += [f"{pad}    {f}:", f"{pad}      Schedule.Event:"] + _yaml_kw(events[i]["kw"], ind + 8)
            for f, k in t["nested"]:
                out.append(f"{pad}    {f}:")
                out += tmpl(k, ind + 6)
        if t["friends"]:
            out.append(f"{pad}  friends:")
            for fr in t["friends"]:
                out += tmpl(fr, ind + 4)
        return out
    for t in lay["templates"]:
        lines += tmpl(t, 0)
    return "\n".join(lines) + "\n"


def session_events(case):
    for si, st in enumerate(case["steps"]):
        for ei, ev in enumerate(st["events"]):
            yield si, ei, st["how"], ev


def _event_case(ev, how):
    """the single-schedule view of a session event (what `reference`, the printers and the model see)"""
    c = {"kind": "recipe" if how == "recipe" else "direct_engine", "kw": ev["kw"], "mode": ev["mode"]}
    if how == "direct":
        c["memo"] = False
    return c


# ================================================================ implementation side
SENTINEL = [datetime(2021, 3, 4, 1, 6, 7, tzinfo=timezone(timedelta(seconds=19800))),
            datetime(2024, 2, 29, 23, 59, 59, 999999, tzinfo=UTC)]


def _enc_rrule_args(ba):
    """BoundArguments of dateutil.rrule.rrule.__init__ -> JSON"""
    a = dict(ba.arguments)
    a.pop("self", None)
    out = {}
    f = a.get("freq")
    out["freq"] = f if isinstance(f, int) and not isinstance(f, bool) else -1
    out["dtstart"] = enc_dt(a["dtstart"]) if isinstance(a.get("dtstart"), datetime) else None
    for k in ("interval", "count", "cache"):
        out[k] = enc_scalar(a.get(k))
    out["wkst"] = _enc_wd(a.get("wkst"))
    u = a.get("until")
    out["until"] = None if u is None else (enc_dt(u) if isinstance(u, datetime) else "odd")
    for k in INT_KEYS:
        v = a.get(k)
        if v is None:
            out[k] = None
        elif isinstance(v, (list, tuple)) and all(isinstance(x, int) for x in v):
            out[k] = [int(x) for x in v]
        else:
            out[k] = "odd"
    v = a.get("byweekday")
    if v is None:
        out["byweekday"] = None
    elif isinstance(v, (list, tuple)):
        out["byweekday"] = [_enc_wd(x) for x in v]
    else:
        out["byweekday"] = "odd"
    return out


def _enc_wd(w):
    if w is None:
        return None
    if isinstance(w, int):
        return [w, None]
    try:
        return [int(w.weekday), None if w.n is None else int(w.n)]
    except Exception:
        return "odd"


def _make_recorders(delegate):
    """Stand-ins for Schedule.rrule / Schedule.rruleset.  delegate=False: pure recorders (no engine);
    True: subclasses of the real dateutil classes that record and then behave normally."""
    from dateutil import rrule as du
    state = {"sets": [], "engine_err": None}
    sig_rr = inspect.signature(du.rrule.__init__)
    sig_rs = inspect.signature(du.rruleset.__init__)

    def bind_rr(self, a, k):
        ba = sig_rr.bind(self, *a, **k)
        ba.apply_defaults()
        return _enc_rrule_args(ba)

    def bind_rs(self, a, k):
        ba = sig_rs.bind(self, *a, **k)
        ba.apply_defaults()
        return enc_scalar(ba.arguments.get("cache"))

    if delegate:
        class RecRRule(du.rrule):
            def __init__(self, *a, **k):
                self._sfv_args = bind_rr(self, a, k)
                try:
                    super().__init__(*a, **k)
                except BaseException as e:
                    state["engine_err"] = type(e).__name__
                    raise

        class RecRuleSet(du.rruleset):
            def __init__(self, *a, **k):
                self._sfv = {"cache": bind_rs(self, a, k), "calls": [], "yielded": []}
                state["sets"].append(self)
                super().__init__(*a, **k)

            def rrule(self, x):
                self._sfv["calls"].append(("rrule", x))
                return super().rrule(x)

            def exrule(self, x):
                self._sfv["calls"].append(("exrule", x))
                return super().exrule(x)

            def rdate(self, x):
                self._sfv["calls"].append(("rdate", x))
                return super().rdate(x)

            def exdate(self, x):
                self._sfv["calls"].append(("exdate", x))
                return super().exdate(x)

            def __iter__(self):
                it = super().__iter__()
                rec = self._sfv["yielded"]

                def gen():
                    while True:
                        try:
                            x = next(it)
                        except StopIteration:
                            return
                        except BaseException as e:
                            state["engine_err"] = type(e).__name__
                            raise
                        rec.append(x)
                        yield x
                return gen()
    else:
        class RecRRule:
            def __init__(self, *a, **k):
                self._sfv_args = bind_rr(self, a, k)

        class RecRuleSet:
            def __init__(self, *a, **k):
                self._sfv = {"cache": bind_rs(self, a, k), "calls": [], "yielded": []}
                state["sets"].append(self)

            def rrule(self, x):
                self._sfv["calls"].append(("rrule", x))

            def exrule(self, x):
                self._sfv["calls"].append(("exrule", x))

            def rdate(self, x):
                self._sfv["calls"].append(("rdate", x))

            def exdate(self, x):
                self._sfv["calls"].append(("exdate", x))

            def __iter__(self):
                return iter(list(SENTINEL))

    def enc_set(rs):
        calls = []
        for m, x in rs._sfv["calls"]:
            if isinstance(x, RecRuleSet):
                calls.append([m, {"set": enc_set(x)}])
            elif isinstance(x, RecRRule):
                calls.append([m, {"rr": x._sfv_args}])
            elif isinstance(x, datetime):
                calls.append([m, {"dt": enc_dt(x)}])
            else:
                calls.append([m, {"odd": type(x).__name__}])
        return {"cache": rs._sfv["cache"], "calls": calls}

    return RecRRule, RecRuleSet, state, enc_set


def enc_value(v):
    if isinstance(v, datetime):
        return ["dt"] + enc_dt(v)
    if isinstance(v, date):
        return ["d", v.toordinal()]
    return ["odd", type(v).__name__]


def run_impl(case):
    from unittest import mock
    from snowfakery.standard_plugins import Schedule as S
    if not (hasattr(S, "rrule") and hasattr(S, "rruleset") and hasattr(S, "CalendarRule")):
        return {"skip": "Schedule module no longer binds the names rrule / rruleset / CalendarRule"}
    if case["kind"] == "direct":
        return _run_direct(case, S, mock)
    if case["kind"] == "session":
        return _run_session(case, S, mock)
    return _run_recipe(case, S, mock)


def _py_value(e, S):
    t = e["t"]
    if t == "none":
        return None
    if t in ("bool", "int", "str"):
        return e["v"]
    if t == "date":
        return to_py_date(e["v"])
    if t == "dt":
        return to_py_dt(e["v"])
    if t == "dict":
        return {"x": 1}
    if t == "seq":
        vals = [_py_value(x, S) for x in e["v"]]
        return tuple(vals) if e.get("tuple") else vals
    if t == "event":
        return S.CalendarRule(**{k: _py_value(v, S) for k, v in e["kw"]})
    raise ValueError(t)


def _run_direct(case, S, mock):
    RecRRule, RecRuleSet, state, enc_set = _make_recorders(delegate=False)
    with mock.patch.object(S, "rrule", RecRRule), mock.patch.object(S, "rruleset", RecRuleSet):
        try:
            kwargs = {}
            for k, v in case["kw"]:
                kwargs[k] = _py_value(v, S)
            obj = S.CalendarRule(**kwargs)
        except BaseException as e:
            if isinstance(e, (KeyboardInterrupt, SystemExit)) or type(e).__name__ == "_CaseTimeout":
                raise
            return {"err": C.canon_exc(e)}
        rs = getattr(obj, "ruleset", None)
        if not isinstance(rs, RecRuleSet):
            return {"skip": "CalendarRule.ruleset is not the object built by Schedule.rruleset"}
        vals = []
        try:
            for _ in range(case.get("n", 2)):
                vals.append(enc_value(next(obj)))
        except BaseException as e:
            if type(e).__name__ == "_CaseTimeout":
                raise
            return {"ok": True, "tree": enc_set(rs), "values": vals, "next_err": C.canon_exc(e)}
        return {"ok": True, "tree": enc_set(rs), "values": vals, "stream": [enc_dt(x) for x in SENTINEL]}


# ---- recipe rendering
def _yaml_scalar(e):
    t = e["t"]
    if t == "none":
        return "null"
    if t == "bool":
        return "true" if e["v"] else "false"
    if t == "int":
        return str(e["v"])
    if t == "str":
        return json.dumps(e["v"])
    if t == "date":
        return to_py_date(e["v"]).isoformat()
    if t == "dt":
        d = to_py_dt(e["v"])
        s = d.replace(tzinfo=None).isoformat(sep=" ")
        if d.utcoffset() is not None:
            off = int(d.utcoffset().total_seconds())
            s += "Z" if off == 0 else fmt_off(off)
        return s
    if t == "dict":
        return "{x: 1}"
    raise ValueError(t)


def _jinja(e, top=False):
    t = e["t"]
    if t == "str" and e.get("via") == "formula" and not top:
        return json.dumps(e["v"])          # inside a sequence: the text itself
    if t == "none":
        return "None"
    if t == "bool":
        return "True" if e["v"] else "False"
    if t == "int":
        return str(e["v"])
    if t == "str" and e.get("via") != "formula":
        return json.dumps(e["v"])
    if t == "date":
        v = e["v"]
        return f"date(year={v[0]}, month={v[1]}, day={v[2]})"
    if t == "dt" or (t == "str" and e.get("via") == "formula"):
        # (a `str` leaf marked via=formula is the TEXT of this formula's result under snowfakery_version 2;
        #  written as a formula only where it stands alone)
        v = e["v"] if t == "dt" else e["dt"]
        if v[7] is None or v[6] != 0 or v[7] % 60 != 0:
            raise ValueError("only whole-second aware datetimes can be written inside a formula")
        s = f"datetime(year={v[0]}, month={v[1]}, day={v[2]}, hour={v[3]}, minute={v[4]}, second={v[5]}"
        if v[7] != 0:
            sg = -1 if v[7] < 0 else 1
            s += f", timezone=relativedelta(hours={sg * (abs(v[7]) // 3600)}, minutes={sg * ((abs(v[7]) % 3600) // 60)})"
        return s + ")"
    if t == "seq":
        items = [_jinja(x) for x in e["v"]]
        if e.get("tuple"):
            return "(" + ", ".join(items) + ("," if len(items) == 1 else "") + ")"
        return "[" + ", ".join(items) + "]"
    if t == "event":
        return "Schedule.Event(" + ", ".join(f"{k}={_jinja(v)}" for k, v in e["kw"]) + ")"
    raise ValueError(t)


def _yaml_kw(kw, indent):
    pad = " " * indent
    lines = []
    for k, v in kw:
        if v["t"] == "event":
            lines.append(f"{pad}{k}:")
            lines.append(f"{pad}  Schedule.Event:")
            lines.extend(_yaml_kw(v["kw"], indent + 4))
        elif v["t"] == "seq" or v.get("via") == "formula":
            # a datetime written as a formula: an OBJECT under snowfakery_version 3, its TEXT under version 2
            j = _jinja(v, top=True).replace("'", "''")
            lines.append(f"{pad}{k}: '${{{{ {j} }}}}'")
        else:
            lines.append(f"{pad}{k}: {_yaml_scalar(v)}")
    if not kw:
        lines.append(f"{pad}{{}}")
    return lines


def render_recipe(case):
    head = [f"- snowfakery_version: {case.get('version', 3)}", "- plugin: snowfakery.standard_plugins.Schedule", "- object: E"]
    if case["mode"] == "for_each":
        body = ["  for_each:", "    var: D", "    value:", "      Schedule.Event:"] + _yaml_kw(case["kw"], 8) + \
               ["  fields:", "    d: ${{D}}"]
    else:
        body = [f"  count: {case['mode']['count']}", "  fields:", "    d:", "      Schedule.Event:"] + _yaml_kw(case["kw"], 8)
    return "\n".join(head + body) + "\n"


def _parse_out(s):
    if isinstance(s, str):
        try:
            if len(s) == 10:
                return ["d", date.fromisoformat(s).toordinal()]
            return ["dt"] + enc_dt(datetime.fromisoformat(s))
        except ValueError:
            pass
    return ["odd", repr(s)[:40]]


REF_LIMIT = 6      # seconds the ENGINE alone may need for a case (all reference variants together)


def _guarded(fn, limit):
    """run fn() under its own SIGALRM budget, then restore the driver's alarm. -> (result, timed_out)"""
    import signal
    if signal.getsignal(signal.SIGALRM) in (signal.SIG_DFL, signal.SIG_IGN, None):
        def _h(signum, frame):
            raise C._CaseTimeout()
        signal.signal(signal.SIGALRM, _h)
    remaining = signal.alarm(0)
    t0 = _time.time()
    signal.alarm(limit)
    try:
        return fn(), False
    except BaseException as e:
        if type(e).__name__ == "_CaseTimeout":
            return None, True
        raise
    finally:
        signal.alarm(0)
        if remaining:
            signal.alarm(max(1, int(remaining - (_time.time() - t0))))


def _formula_leaves(kws):
    out = []

    def walk(e):
        if e.get("via") == "formula":
            out.append(e)
        elif e["t"] == "seq":
            for x in e["v"]:
                walk(x)
        elif e["t"] == "event":
            for _, v in e["kw"]:
                walk(v)
    for kw in kws:
        for _, v in kw:
            walk(v)
    return out


def _probe_formulas(kws, version):
    """The datetime(...) formulas of a case, evaluated on their own in the case's dialect, must print as the
    datetime the case assumes (the formula language is not this property's subject).  -> None | reason to skip"""
    from snowfakery import generate_data
    leaves = _formula_leaves(kws)
    if not leaves:
        return None
    lines = [f"- snowfakery_version: {version}", "- object: P", "  fields:"]
    want = []
    for i, e in enumerate(leaves):
        lines.append(f"    p{i}: '${{{{ {_jinja(e, top=True)} }}}}'")
        want.append(str(to_py_dt(e["v"] if e["t"] == "dt" else e["dt"])))
    out = io.StringIO()
    try:
        generate_data(io.StringIO("\n".join(lines) + "\n"), output_file=out, output_format="json")
        row = json.loads(out.getvalue())[0]
        got = [row.get(f"p{i}") for i in range(len(leaves))]
    except BaseException as e:
        if isinstance(e, (KeyboardInterrupt, SystemExit)) or type(e).__name__ == "_CaseTimeout":
            raise
        return f"a datetime(...) formula of the case cannot be evaluated on its own: {type(e).__name__}"
    if got != want:
        return f"a datetime(...) formula of the case prints as {got}, the case assumes {want}"
    return None


def _run_recipe(case, S, mock):
    from snowfakery import generate_data
    RecRRule, RecRuleSet, state, enc_set = _make_recorders(delegate=True)
    try:
        text = render_recipe(case)
        why = _probe_formulas([case["kw"]], case.get("version", 3))
    except ValueError as e:
        return {"skip": f"case cannot be rendered: {e}"}
    if why:
        return {"skip": why}
    # The engine walks period by period and can need minutes for sparse or unsatisfiable filter
    # combinations.  Such a case says nothing about Snowfakery: the pure-dateutil reference is run
    # first under its own budget and the case is dropped when the ENGINE alone is that slow.  (When
    # the reference is fast and the implementation does not finish, the driver reports the hang.)
    t1 = _time.time()
    pre, slow = _guarded(lambda: reference_all(case, datetime.now().replace(tzinfo=UTC)), REF_LIMIT)
    if slow:
        return {"skip": f"the engine alone needs more than {REF_LIMIT}s for these arguments", "slow_engine": True}
    pre_s = round(_time.time() - t1, 3)
    out = io.StringIO()
    t0 = _time.time()
    obs = {"recipe": text}
    wall_before = datetime.now()
    with mock.patch.object(S, "rrule", RecRRule), mock.patch.object(S, "rruleset", RecRuleSet):
        try:
            generate_data(io.StringIO(text), output_file=out, output_format="json")
            txt = out.getvalue()
            rows = json.loads(txt) if txt.strip() else []     # no rows at all: nothing is written
            obs["ok"] = True
            vals = [_parse_out(r.get("d")) for r in rows if r.get("_table") == "E"]
            obs["n_rows"] = len(vals)
            obs["values"] = vals[:FOR_EACH_CAP + 1]
        except BaseException as e:
            if isinstance(e, (KeyboardInterrupt, SystemExit)) or type(e).__name__ == "_CaseTimeout":
                raise
            obs["err"] = C.canon_exc(e)
            obs["msg"] = str(e)[:200]
    obs["engine_err"] = state["engine_err"]
    obs["n_sets"] = len(state["sets"])
    n_events = sum(1 for _ in walk_events(case["kw"]))
    if not obs.get("ok") and state["sets"] and len(state["sets"]) == n_events:
        obs["stream"] = [enc_dt(x) for x in state["sets"][-1]._sfv["yielded"][:FOR_EACH_CAP + 1]]
    if obs.get("ok") and state["sets"]:
        top = state["sets"][-1]
        obs["tree"] = enc_set(top)
        obs["stream"] = [enc_dt(x) for x in top._sfv["yielded"][:FOR_EACH_CAP + 1]]
        obs["sets_expected"] = n_events
    obs["impl_s"] = round(_time.time() - t0, 3)
    # ---- the independent reference (pure dateutil, never imports Snowfakery)
    now = None
    if kwget(case["kw"], "start_date") is None or kwget(case["kw"], "start_date")["t"] == "none":
        tr = obs.get("tree")
        try:
            d = tr["calls"][0][1]["rr"]["dtstart"]
            cand = datetime.fromordinal(d[0]) + timedelta(microseconds=d[1])
            if abs((cand - wall_before).total_seconds()) < 300:
                now = cand.replace(tzinfo=UTC)
                obs["now"] = d
        except Exception:
            now = None
        if now is None:
            now = wall_before.replace(tzinfo=UTC)
            obs["now_unobserved"] = True
    if now is None:
        obs["ref"] = pre
    else:
        ref, slow = _guarded(lambda: reference_all(case, now), REF_LIMIT)
        if slow:
            return {"skip": f"the engine alone needs more than {REF_LIMIT}s for these arguments", "slow_engine": True}
        obs["ref"] = ref
    obs["ref_s"] = pre_s
    return obs



def session_objects(st):
    """-> list of objects; an object is a list of event indexes (several only when interleaved:
    consecutive `count` schedules with the same count are the fields of one object)"""
    objs = []
    for i, ev in enumerate(st["events"]):
        if (st.get("interleave") and objs and ev["mode"] != "for_each" and
                st["events"][objs[-1][-1]]["mode"] == ev["mode"]):
            objs[-1].append(i)
        else:
            objs.append([i])
    return objs


def render_session_recipe(st):
    events = st["events"]
    lines = ["- snowfakery_version: 3", "- plugin: snowfakery.standard_plugins.Schedule"]
    for oi, idxs in enumerate(session_objects(st)):
        ev = events[idxs[0]]
        lines.append(f"- object: E{oi}")
        if ev["mode"] == "for_each":
            lines += ["  for_each:", "    var: D", "    value:", "      Schedule.Event:"] + _yaml_kw(ev["kw"], 8) + \
                     ["  fields:", f"    d{idxs[0]}: ${{{{D}}}}"]
        else:
            lines += [f"  count: {ev['mode']['count']}", "  fields:"]
            for i in idxs:
                lines += [f"    d{i}:", "      Schedule.Event:"] + _yaml_kw(events[i]["kw"], 8)
    return "\n".join(lines) + "\n"


def _take(obj, n, eo):
    """n more values of a directly constructed rule"""
    if obj is None or "err" in eo:
        return
    vals = eo.setdefault("values", [])
    try:
        for _ in range(n):
            vals.append(enc_value(next(obj)))
    except StopIteration:
        eo["err"] = "StopIteration"
    except BaseException as e:
        if isinstance(e, (KeyboardInterrupt, SystemExit)) or type(e).__name__ == "_CaseTimeout":
            raise
        eo.update(err=C.canon_exc(e), msg=str(e)[:200])


def _run_session(case, S, mock):
    """all steps in THIS process, in order; per event: rows, engine-call tree, raw engine output"""
    from snowfakery import generate_data
    now = datetime.now().replace(tzinfo=UTC)
    # the engine alone must be fast for every event (see _run_recipe)
    def all_refs():
        return [[reference_all(_event_case(ev, st["how"]), now) for ev in st["events"]] for st in case["steps"]]
    refs, slow = _guarded(all_refs, REF_LIMIT)
    if slow:
        return {"skip": f"the engine alone needs more than {REF_LIMIT}s for these arguments", "slow_engine": True}
    obs = {"steps": [], "ref": refs}
    t0 = _time.time()
    for st in case["steps"]:
        RecRRule, RecRuleSet, state, enc_set = _make_recorders(delegate=True)
        so = {"events": [{} for _ in st["events"]]}
        with mock.patch.object(S, "rrule", RecRRule), mock.patch.object(S, "rruleset", RecRuleSet):
            if st["how"] == "recipe":
                lay = st.get("layout")
                try:
                    text = render_layout_recipe(st) if lay else render_session_recipe(st)
                    why = _probe_formulas([ev["kw"] for ev in st["events"]], st.get("version", 3))
                except ValueError as e:
                    return {"skip": f"case cannot be rendered: {e}"}
                if why:
                    return {"skip": why}
                so["recipe"] = text
                out = io.StringIO()
                try:
                    generate_data(io.StringIO(text), output_file=out, output_format="json")
                    txt = out.getvalue()
                    rows = json.loads(txt) if txt.strip() else []
                    so["ok"] = True
                    if lay:         # one schedule per (template, field): the rows of that table, that column
                        for t in layout_templates(lay):
                            for f, i in [(x[0], x[1]) for x in t["slots"]] + [(x[0], x[1]) for x in t["own"]]:
                                vals = [_parse_out(r.get(f)) for r in rows if r.get("_table") == t["name"]]
                                if t.get("slice"):      # one of several copies of a macro's friend: its block of rows
                                    whole = len(vals) == max(x["slice"][1] for x in layout_templates(lay) if x["name"] == t["name"])
                                    vals = vals[t["slice"][0]:t["slice"][1]] if whole else vals
                                so["events"][i].update(ok=True, n_rows=len(vals), values=vals[:FOR_EACH_CAP + 1])
                    for oi, idxs in enumerate(session_objects(st) if not lay else []):
                        for i in idxs:
                            vals = [_parse_out(r.get(f"d{i}")) for r in rows if r.get("_table") == f"E{oi}"]
                            so["events"][i].update(ok=True, n_rows=len(vals), values=vals[:FOR_EACH_CAP + 1])
                except BaseException as e:
                    if isinstance(e, (KeyboardInterrupt, SystemExit)) or type(e).__name__ == "_CaseTimeout":
                        raise
                    so["err"] = C.canon_exc(e)
                    so["msg"] = str(e)[:200]
            else:
                so["ok"] = True
                objs = []
                for ev, eo in zip(st["events"], so["events"]):
                    try:
                        objs.append(S.CalendarRule(**{k: _py_value(v, S) for k, v in ev["kw"]}))
                    except BaseException as e:
                        if isinstance(e, (KeyboardInterrupt, SystemExit)) or type(e).__name__ == "_CaseTimeout":
                            raise
                        eo.update(err=C.canon_exc(e), msg=str(e)[:200])
                        objs.append(None)
                    if not st.get("interleave"):
                        _take(objs[-1], ev["mode"]["count"], eo)
                if st.get("interleave"):            # all rules exist; advance them in turn
                    for r in range(max(ev["mode"]["count"] for ev in st["events"])):
                        for ev, eo, obj in zip(st["events"], so["events"], objs):
                            if r < ev["mode"]["count"]:
                                _take(obj, 1, eo)
                for eo in so["events"]:
                    if "err" not in eo:
                        eo.update(ok=True, n_rows=len(eo.get("values", [])))
                        eo.setdefault("values", [])
        so["engine_err"] = state["engine_err"]
        # which recorded rule set belongs to which event: rules are constructed in object order, the
        # nested ones of an event before the event's own (they are its arguments)
        want = [sum(1 for _ in walk_events(ev["kw"])) for ev in st["events"]]
        order = layout_order(st["layout"]) if st.get("layout") else list(range(len(st["events"])))
        if so.get("ok") and len(state["sets"]) == sum(want) and not state["engine_err"] and \
                sorted(order) == list(range(len(st["events"]))):
            k = 0
            found = []
            for i in order:
                eo, w = so["events"][i], want[i]
                k += w
                if eo.get("ok") or eo.get("err") == "StopIteration":
                    found.append((eo, state["sets"][k - 1]))
            if st.get("layout"):
                # the order of first evaluation is read off the layout; if the engine's output does not begin with
                # the rows attributed to it, the attribution is not trusted (the oracle does not depend on it)
                def same(eo, top):
                    vals = eo.get("values", [])
                    ys = top._sfv["yielded"][:len(vals)]
                    if len(ys) < len(vals) or not all(isinstance(y, datetime) for y in ys):
                        return False
                    return all((v[0] == "d" and y.toordinal() == v[1]) or
                               (v[0] == "dt" and y.utcoffset() is not None and _instant(["dt"] + enc_dt(y)) == _instant(v))
                               for v, y in zip(vals, ys))
                if not all(same(eo, top) for eo, top in found):
                    found = []
                    so["sets_not_attributed"] = True
            for eo, top in found:
                eo["tree"] = enc_set(top)
                eo["stream"] = [enc_dt(x) for x in top._sfv["yielded"][:FOR_EACH_CAP + 1]]
        obs["steps"].append(so)
    obs["impl_s"] = round(_time.time() - t0, 3)
    return obs


# ================================================================ the independent reference recurrence
class Reject(Exception):
    """the recipe is invalid: Schedule.Event must fail"""


class EngineReject(Exception):
    """dateutil itself refuses the arguments"""


_WD_RE = re.compile(r"^\s*([A-Za-z]{2})\s*(?:\(\s*([+-]?\d+)\s*\))?\s*$")


def _ref_ints(e):
    t = e["t"]
    if t == "none":
        return None
    if t == "int":
        return [e["v"]]
    if t == "bool":
        return [int(e["v"])]
    if t == "str":
        try:
            return [int(x) for x in e["v"].split(",")]
        except ValueError:
            raise Reject("not a list of integers")
    if t == "seq":
        out = []
        for x in e["v"]:
            if x["t"] in ("int", "bool"):
                out.append(int(x["v"]))
            elif x["t"] == "str":
                try:
                    out.append(int(x["v"]))
                except ValueError:
                    raise Reject("not an integer")
            else:
                raise Reject("not an integer")
        return out
    raise Reject("bad type for a list of integers")


def _ref_falsy(e):
    return e is None or e["t"] == "none" or (e["t"] in ("bool", "int", "str") and not e["v"]) or \
        (e["t"] == "seq" and not e["v"])


def _is_date_only(s):
    try:
        date.fromisoformat(s)
        return len(s) == 10
    except ValueError:
        return False


def _ref_parse(s):
    from dateutil import parser as duparser
    try:
        return duparser.parse(s)
    except Exception:
        raise Reject("unparseable date")


def ref_build(kw, quirks, now, memo):
    """-> (rruleset, precision, start).  Keywords are mapped to dateutil name by name."""
    from dateutil import rrule as du
    keys = [k for k, _ in kw]
    for k in keys:
        if k not in EVENT_KEYS:
            raise Reject("unknown keyword")
    if memo:
        for _, v in kw:
            if not _hashable(v):
                raise Reject("unhashable keyword value outside for_each")
    g = lambda k: kwget(kw, k)
    for k in ("bysetpos", "byeaster", "byweekno", "cache"):
        if not _ref_falsy(g(k)):
            raise Reject("undocumented feature")
    nested = {}
    # nested schedules are built first (they are arguments)
    for k, v in kw:
        _prebuild(v, quirks, now, memo, nested)
    # ---- start
    sd = g("start_date")
    if sd is None or _ref_falsy(sd) and sd["t"] != "str":
        start, prec = now, "datetime"
    elif sd["t"] == "date":
        d = to_py_date(sd["v"])
        start, prec = datetime(d.year, d.month, d.day, tzinfo=UTC), "date"
    elif sd["t"] == "dt":
        start, prec = to_py_dt(sd["v"]), "datetime"
    elif sd["t"] == "str":
        start = _ref_parse(sd["v"])
        prec = "date" if _is_date_only(sd["v"]) else "datetime"
    else:
        raise Reject("bad start_date")
    if start.tzinfo is None:
        start = start.replace(tzinfo=UTC)
    # ---- frequency
    fq = g("freq")
    if fq is None or fq["t"] != "str" or fq["v"].upper() not in FREQS:
        raise Reject("bad freq")
    freq = FREQS.index(fq["v"].upper())
    if freq >= 4 and prec == "date":
        raise Reject("time frequency needs a datetime start")
    args = {}
    for k in DOC_INT_KEYS:
        args[k] = _ref_ints(g(k)) if g(k) is not None else None
    for k in ("bysetpos", "byeaster", "byweekno"):
        args[k] = _ref_ints(g(k)) if g(k) is not None else None
    # ---- weekdays
    bw = g("byweekday")
    if _ref_falsy(bw):
        args["byweekday"] = None
    elif bw["t"] != "str":
        raise Reject("bad byweekday")
    else:
        lst = []
        for part in bw["v"].split(","):
            m = _WD_RE.match(part)
            if not m or m.group(1).upper() not in WD:
                raise Reject("bad weekday")
            w = du.weekday(WD.index(m.group(1).upper()))
            n = int(m.group(2)) if m.group(2) else 0
            lst.append(w(n) if n else w)
        args["byweekday"] = lst
    # ---- until
    un = g("until")
    if _ref_falsy(un):
        until = None
    else:
        until = _ref_until(un, start, quirks)
    iv, ct = g("interval"), g("count")
    interval = 1 if iv is None else _plain(iv)
    if not interval:
        raise Reject("interval must not be zero or empty (the engine would never advance)")
    count = None if ct is None else _plain(ct)
    cache = False if g("cache") is None else _plain(g("cache"))
    try:
        rs = du.rruleset(cache)
        rs.rrule(du.rrule(freq=freq, dtstart=start, interval=interval, wkst=du.SU, count=count, until=until,
                          cache=cache, **args))
    except Reject:
        raise
    except Exception as e:
        raise EngineReject(type(e).__name__)
    for key, add_rule, add_date in (("exclude", rs.exrule, rs.exdate), ("include", rs.rrule, rs.rdate)):
        v = g(key)
        if _ref_falsy(v):
            continue
        for leaf in _flatten(v):
            t = leaf["t"]
            if t == "event":
                add_rule(nested[id(leaf)])
            elif t == "dt":
                d = to_py_dt(leaf["v"])
                if d.tzinfo is None:
                    d = d.replace(tzinfo=UTC)      # a naive value means UTC everywhere in Snowfakery
                add_date(d)
            elif t == "date" or (t == "str" and _is_date_only(leaf["v"])):
                d = to_py_date(leaf["v"]) if t == "date" else date.fromisoformat(leaf["v"])
                add_date(datetime.combine(d, start.time().replace(tzinfo=None), tzinfo=start.tzinfo))
            elif t == "str":
                d = _ref_parse(leaf["v"]).date()    # documented: "simple dates"; a time in the string is not used
                add_date(datetime.combine(d, start.time().replace(tzinfo=None), tzinfo=start.tzinfo))
            else:
                raise Reject("bad include/exclude value")
    return rs, prec, start


def _plain(e):
    if e["t"] in ("none",):
        return None
    if e["t"] in ("bool", "int", "str"):
        return e["v"]
    raise Reject("bad scalar")


def _hashable(e):
    if e["t"] == "seq":
        return bool(e.get("tuple")) and all(_hashable(x) for x in e["v"])
    return e["t"] != "dict"


def _flatten(e):
    if e["t"] == "seq":
        for x in e["v"]:
            yield from _flatten(x)
    else:
        yield e


def _prebuild(e, quirks, now, memo, nested):
    if e["t"] == "event":
        nested[id(e)] = ref_build(e["kw"], quirks, now, memo)[0]
    elif e["t"] == "seq":
        for x in e["v"]:
            _prebuild(x, quirks, now, memo, nested)


def _ref_until(un, start, quirks):
    """a date: that day at the start's wall time in the start's zone; a datetime: the instant it denotes"""
    t = un["t"]
    st = start.time().replace(tzinfo=None)
    if t == "date" or (t == "str" and _is_date_only(un["v"])):
        d = to_py_date(un["v"]) if t == "date" else date.fromisoformat(un["v"])
        return datetime.combine(d, st, tzinfo=start.tzinfo)
    if t == "str":
        u = _ref_parse(un["v"])
        return u if u.tzinfo is not None else u.replace(tzinfo=UTC)
    if t == "dt":
        u = to_py_dt(un["v"])
        return u if u.tzinfo is not None else u.replace(tzinfo=UTC)
    raise Reject("bad until")


FOR_EACH_CAP = 600


def reference(case, quirks, now):
    """expected rows for the case under the given set of (known-defect) quirks"""
    memo = case.get("memo", case["mode"] != "for_each")
    try:
        rs, prec, start = ref_build(case["kw"], quirks, now, memo)
    except Reject as e:
        return {"reject": str(e)}
    except EngineReject as e:
        return {"engine_reject": str(e)}
    try:
        more = False
        if case["mode"] == "for_each":
            vals = list(itertools.islice(rs, FOR_EACH_CAP + 1))
            if len(vals) > FOR_EACH_CAP:
                vals, more = vals[:FOR_EACH_CAP], True
            as_date = prec == "date" and "for_each_dt" not in quirks
        else:
            n = case["mode"]["count"]
            vals = list(itertools.islice(rs, n))
            if len(vals) < n:
                return {"not_enough": len(vals)}
            as_date = prec == "date"
    except Exception as e:
        return {"engine_reject": "iteration: " + type(e).__name__}
    out = {"values": [["d", v.date().toordinal()] if as_date else ["dt"] + enc_dt(v) for v in vals], "precision": prec}
    if more:
        out["more"] = True      # only the first FOR_EACH_CAP occurrences were computed
    return out


def applicable_quirks(case):
    if case.get("kind") == "session":
        return ["for_each_dt"] if any(ev["mode"] == "for_each" for _, _, _, ev in session_events(case)) else []
    return ["for_each_dt"] if case["mode"] == "for_each" else []


def reference_all(case, now):
    """reference under no quirk, and under every subset of the applicable quirks (only those
    that change the result are kept)"""
    base = reference(case, frozenset(), now)
    out = {"": base}
    app = applicable_quirks(case)
    for r in range(1, len(app) + 1):
        for sub in itertools.combinations(app, r):
            res = reference(case, frozenset(sub), now)
            if res != base:
                out["+".join(sub)] = res
    return out


# ================================================================ model side
def c_dt(d):
    return f"(mkDT {C.cz(d[0])} {C.cz(d[1])} {C.copt(d[2], C.cz)})"


def c_scalar(s):
    k = s[0]
    if k == "none":
        return "SNone"
    if k == "bool":
        return f"(SBool {C.cbool(s[1])})"
    if k == "int":
        return f"(SInt {C.cz(s[1])})"
    if k == "str":
        return f"(SStr {C.cstr(s[1])})"
    return "SOther"


def c_wd(w):
    if w == "odd" or w is None:
        return "(WD (-1) None)"
    return f"(WD {C.cz(w[0])} {C.copt(w[1], C.cz)})"


def c_zl(v):
    if v == "odd":
        return "(Some [(-999999)])"
    return C.copt(v, lambda l: C.clist(C.cz(x) for x in l))


def c_rr(a):
    dtstart = c_dt(a["dtstart"]) if a["dtstart"] is not None else "(mkDT (-1) (-1) None)"
    until = "(Some (mkDT (-1) (-1) None))" if a["until"] == "odd" else C.copt(a["until"], c_dt)
    if a["byweekday"] == "odd":
        bwd = "(Some [WD (-1) None])"
    else:
        bwd = C.copt(a["byweekday"], lambda l: C.clist(c_wd(w) for w in l))
    wk = "None" if a["wkst"] is None else f"(Some {c_wd(a['wkst'])})"
    return (f"(mkRR {C.cz(a['freq'])} {dtstart} {c_scalar(a['interval'])} {wk} {c_scalar(a['count'])} {until} "
            f"{c_zl(a['bysetpos'])} {c_zl(a['bymonth'])} {c_zl(a['bymonthday'])} {c_zl(a['byyearday'])} "
            f"{c_zl(a['byeaster'])} {c_zl(a['byweekno'])} {bwd} {c_zl(a['byhour'])} {c_zl(a['byminute'])} "
            f"{c_zl(a['bysecond'])} {c_scalar(a['cache'])})")


_METHOD = {"rrule": "MRRule", "exrule": "MExRule", "rdate": "MRDate", "exdate": "MExDate"}


def c_tree(t):
    calls = []
    for m, p in t["calls"]:
        mm = _METHOD[m]
        if "rr" in p:
            calls.append(f"CRule {mm} {c_rr(p['rr'])}")
        elif "set" in p:
            calls.append(f"CSet {mm} {c_tree(p['set'])}")
        elif "dt" in p:
            calls.append(f"CDate {mm} {c_dt(p['dt'])}")
        else:
            calls.append(f"CDate {mm} (mkDT (-1) (-1) None)")
    return f"(RS {c_scalar(t['cache'])} {C.clist(calls)})"


def c_expr(e):
    t = e["t"]
    if t == "seq":
        return f"(ESeq {C.cbool(bool(e.get('tuple')))} {C.clist(c_expr(x) for x in e['v'])})"
    if t == "event":
        return f"(EEvent {c_kw(e['kw'])})"
    return f"(ELit {c_arg(e)})"


def c_arg(e):
    t = e["t"]
    if t == "none":
        return "ANone"
    if t == "bool":
        return f"(ABool {C.cbool(e['v'])})"
    if t == "int":
        return f"(AInt {C.cz(e['v'])})"
    if t == "str":
        return f"(AStr {C.cstr(e['v'])})"
    if t == "date":
        return f"(ADate {C.cz(to_py_date(e['v']).toordinal())})"
    if t == "dt":
        return f"(ADateTime {c_dt(enc_dt(to_py_dt(e['v'])))})"
    if t == "dict":
        return "AOther"
    raise ValueError(t)


def c_kw(kw):
    return C.clist(C.cpair(C.cstr(k), c_expr(v)) for k, v in kw)


def c_value(v):
    if v[0] == "d":
        return f"VDate {C.cz(v[1])}"
    if v[0] == "dt":
        return f"VDateTime {c_dt(v[1:])}"
    return "VDate (-1)"


def parse_table(case):
    """dateutil.parser.parse on every string in a date position (evaluated by the harness)"""
    from dateutil import parser as duparser
    strings = []

    def strs(e):
        if e["t"] == "str":
            strings.append(e["v"])
        elif e["t"] == "seq":
            for x in e["v"]:
                strs(x)
    for kw in walk_events(case["kw"]):
        for k, v in kw:
            if k in DATE_KEYS:
                strs(v)
    entries = []
    for s in dict.fromkeys(strings):
        try:
            d = duparser.parse(s)
            entries.append(C.cpair(C.cstr(s), f"Ok {c_dt(enc_dt(d))}"))
        except Exception as e:
            entries.append(C.cpair(C.cstr(s), f"Err (Internal {C.cstr(type(e).__name__)})"))
    return C.clist(entries)


def _has_control(case):
    def bad(e):
        if e["t"] == "str":
            return any(ord(ch) < 32 or ord(ch) >= 127 for ch in e["v"])
        if e["t"] == "seq":
            return any(bad(x) for x in e["v"])
        if e["t"] == "event":
            return any(bad(v) for _, v in e["kw"])
        return False
    return any(bad(v) for _, v in case["kw"])


def coq_case(case, obs):
    if not isinstance(obs, dict) or obs.get("skip"):
        return None
    if case["kind"] == "session":
        return _coq_session(case, obs)
    if _has_control(case):
        return None          # outside the ASCII fragment of the string model
    direct = case["kind"] == "direct"
    now = obs.get("now")
    if direct and obs.get("ok"):
        try:
            now = obs["tree"]["calls"][0][1]["rr"]["dtstart"]
        except Exception:
            now = None
    args = _coq_event(case, obs, direct, now)
    return None if args is None else "CEvent " + args


def _coq_event(case, obs, direct, now, real_engine=None, refs=None):
    """the arguments of CEvent / ECase for one schedule, or None.  real_engine: the stream was produced
    by dateutil itself (not by a stand-in) and is compared with the model's recurrence engine"""
    if real_engine is None:
        real_engine = not direct
    refs = refs if refs is not None else (obs.get("ref") or {})
    eng = "None"
    if real_engine and not obs.get("engine_err"):
        if obs.get("ok"):
            # for_each consumes the rule until it stops; `count: n` / n calls of next() ask for n values
            eng = "(Some true)" if case.get("mode") == "for_each" else "(Some false)"
        elif "not_enough" in refs.get("", {}):
            eng = "(Some true)"          # "Could not generate enough values": the rule was exhausted
    now_t = c_dt([now[0], now[1], None]) if now else "(mkDT 0 0 None)"
    if direct:
        mode = f"(MDirect {C.cnat(case['mode']['count'] if 'mode' in case else case.get('n', 2))})"
        via, memo = "false", "false"
    else:
        mode = "MForEach" if case["mode"] == "for_each" else f"(MCount {C.cnat(case['mode']['count'])})"
        via, memo = "true", C.cbool(case["mode"] != "for_each")
    if obs.get("ok"):
        if "tree" not in obs:
            return None
        if direct and "next_err" in obs:
            return None
        if not direct and "sets_expected" in obs and obs.get("n_sets") != obs.get("sets_expected"):
            return None      # rules were constructed more than once (caching is another property's subject)
        if obs.get("n_rows", 0) > 250:
            return None      # keep the Coq terms small; the oracle still covers the case
        stream = C.clist(c_dt(d) for d in obs.get("stream", []))
        exp = f"(XOk {c_tree(obs['tree'])} {C.clist(c_value(v) for v in obs['values'])})"
    else:
        # (a run that fails after the rule was built: the engine's short output is what makes the
        #  model answer "Could not generate enough values")
        stream = C.clist(c_dt(d) for d in obs.get("stream", []))
        if direct:
            exp = f"(XErr {C.cerr(obs['err'])})"
        elif obs.get("engine_err"):
            exp = "XEngine"
        else:
            exp = "XErrAny"
    return (f"{via} {memo} {parse_table(case)} {now_t} {c_kw(case['kw'])} {mode} {stream} {eng} {exp}")


def _coq_session(case, obs):
    """every schedule of the session is checked against the (history-free) model on its own"""
    terms = []
    for si, (st, so) in enumerate(zip(case["steps"], obs["steps"])):
        if so.get("engine_err"):
            continue
        for ei, (ev, eo) in enumerate(zip(st["events"], so["events"])):
            ec = _event_case(ev, st["how"])
            if _has_control(ec):
                continue
            direct = st["how"] == "direct"
            if st["how"] == "recipe" and not so.get("ok"):
                continue                       # which schedule made the recipe fail is not observed
            if direct and not eo.get("ok") and "tree" not in eo and eo.get("err") == "StopIteration":
                continue
            if not eo.get("ok") and "err" not in eo:
                continue
            args = _coq_event(ec, eo, direct, None, real_engine=True, refs=obs["ref"][si][ei])
            if args is not None:
                terms.append(f"ECase {args}")
    if not terms:
        return None
    return f"CSession {C.clist(terms)}"


# ================================================================ property oracle (implementation only)
def _instant(v):
    # ["dt", ordinal, us, off]
    return (v[1] * 86400 * 10 ** 6 + v[2]) - (v[3] or 0) * 10 ** 6


def _fmt(v):
    if v[0] == "d":
        return date.fromordinal(v[1]).isoformat()
    if v[0] == "dt":
        d = datetime.fromordinal(v[1]) + timedelta(microseconds=v[2])
        return d.isoformat() + ("" if v[3] is None else fmt_off(v[3]))
    return str(v)


def _outcome(obs):
    if obs.get("ok"):
        return {"values": obs["values"]}
    return {"error": obs.get("err")}


def _agrees(ref, obs):
    if obs.get("ok"):
        if "values" not in ref:
            return False
        if ref.get("more"):
            return obs.get("n_rows", 0) > FOR_EACH_CAP and obs["values"][:FOR_EACH_CAP] == ref["values"]
        return ref["values"] == obs["values"] and obs.get("n_rows") == len(ref["values"])
    return any(k in ref for k in ("reject", "engine_reject", "not_enough"))


def _py_ints(e):
    try:
        return ("ok", _ref_ints(e))
    except Reject:
        return ("reject", None)


def oracle(case, obs):
    if obs.get("skip"):
        return None
    if case["kind"] == "direct":
        return _oracle_direct(case, obs)
    if case["kind"] == "session":
        return _oracle_session(case, obs)
    return _oracle_event(obs, obs.get("ref") or {}, case["kw"])


def _included_datetimes(kw):
    """does `include` (also of a nested schedule) name datetimes?  Their local date need not follow the
    order of the instants (2022-03-23 21:30 -03:30 is later than 2022-03-24 00:00 UTC)"""
    def has_dt(e):
        if e["t"] == "event":
            # an included SCHEDULE with a datetime-precision start contributes datetimes of its start's zone
            sd = kwget(e["kw"], "start_date")
            if sd is not None and (sd["t"] == "dt" or (sd["t"] == "str" and sd["v"] and not _is_date_only(sd["v"]))):
                return True
            return any(k == "include" and has_dt(v) for k, v in e["kw"])
        return e["t"] == "dt" or (e["t"] == "seq" and any(has_dt(x) for x in e["v"]))
    return any(k == "include" and has_dt(v) for ev_kw in walk_events(kw) for k, v in ev_kw)


def _oracle_event(obs, refs, kw):
    """rows of ONE schedule against the reference recurrence of its own keywords"""
    base = refs.get("", {})
    if obs.get("ok"):
        vals = obs["values"]
        if any(v[0] == "odd" for v in vals):
            return f"type: a row value is neither a date nor a datetime: {vals[:3]}"
    if _agrees(base, obs):
        if obs.get("ok"):
            vals = obs["values"]
            if vals and vals[0][0] == "dt":
                if any(v[3] is None for v in vals):
                    return "zone: a naive datetime was emitted"
                ins = [_instant(v) for v in vals]
                if any(a > b for a, b in zip(ins, ins[1:])):
                    return f"order: values are not in chronological order: {[_fmt(v) for v in vals[:6]]}"
            elif vals and not _included_datetimes(kw):
                if any(a[1] > b[1] for a, b in zip(vals, vals[1:])):
                    return f"order: dates are not in chronological order: {[_fmt(v) for v in vals[:6]]}"
        return None
    for key, ref in refs.items():
        if key and _agrees(ref, obs):
            return (f"quirk[{key}]: output equals the recurrence only under the known defect {key} "
                    f"(for_each yields datetimes for a date-precision start); expected {_show(base)} "
                    f"got {_show(_outcome(obs))}")
    return (f"mismatch: Schedule.Event output differs from the independently built recurrence: expected {_show(base)} "
            f"got {_show(_outcome(obs))} (engine_err={obs.get('engine_err')}, msg={obs.get('msg')})")


def _oracle_session(case, obs):
    """every schedule of the history against the reference recurrence of ITS OWN keywords; the first
    event that deviates is reported (a `quirk[..]` message only if nothing else deviates)"""
    quirk = None
    for si, (st, so) in enumerate(zip(case["steps"], obs["steps"])):
        refs = obs["ref"][si]
        if st["how"] == "recipe" and not so.get("ok"):
            if any(any(k in r.get("", {}) for k in ("reject", "engine_reject", "not_enough")) for r in refs):
                continue
            return (f"mismatch: step {si} (a recipe with {len(st['events'])} schedules, each valid on its own) failed: "
                    f"{so.get('err')} {so.get('msg')}")
        for ei, (ev, eo) in enumerate(zip(st["events"], so["events"])):
            if st["how"] == "direct" and eo.get("err") == "StopIteration":
                eo = dict(eo, err="DGE")       # "not enough values", said the direct way
            msg = _oracle_event(eo, refs[ei], ev["kw"])
            if msg is None:
                continue
            where = (f"step {si} event {ei} of a session of {sum(len(x['events']) for x in case['steps'])} schedules "
                     f"(keywords {json.dumps(ev['kw'])[:300]})")
            if msg.startswith("quirk["):
                quirk = quirk or msg
                continue
            head, rest = msg.split(":", 1)
            return f"session-{head} [{where}]:{rest}"
    return quirk


def _show(r):
    if "values" in r:
        return "[" + ", ".join(_fmt(v) for v in r["values"][:8]) + (", ...]" if len(r["values"]) > 8 else "]")
    return json.dumps({k: v for k, v in r.items() if k != "precision"})


def _oracle_direct(case, obs):
    """each engine keyword must carry the normalisation of the recipe keyword OF THE SAME NAME"""
    if not obs.get("ok"):
        return None
    try:
        rr = obs["tree"]["calls"][0][1]["rr"]
    except Exception:
        return "wiring: the first call on the rule set is not rrule(<the main rule>)"
    for k in INT_KEYS:
        e = kwget(case["kw"], k)
        st, want = _py_ints(e) if e is not None else ("ok", None)
        if st != "ok":
            continue
        if rr.get(k) != want:
            return (f"wiring: engine keyword {k}={rr.get(k)} but the recipe keyword {k} normalises to {want} "
                    f"(keywords given: {[kk for kk, _ in case['kw']]})")
    for k, dflt in (("interval", ["int", 1]), ("count", ["none"]), ("cache", ["bool", False])):
        e = kwget(case["kw"], k)
        want = dflt if e is None else (enc_scalar(_plain(e)) if e["t"] in ("none", "bool", "int", "str") else ["other"])
        if rr.get(k) != want:
            return f"wiring: engine keyword {k}={rr.get(k)} but the recipe keyword {k} is {want}"
    bw = kwget(case["kw"], "byweekday")
    if bw is not None and bw["t"] == "str" and bw["v"]:
        want = []
        for part in bw["v"].split(","):
            m = _WD_RE.match(part)
            if not m or m.group(1).upper() not in WD:
                want = None
                break
            n = int(m.group(2)) if m.group(2) else 0
            want.append([WD.index(m.group(1).upper()), n if n else None])
        if want is not None and rr.get("byweekday") != want:
            return (f"wiring: byweekday {bw['v']!r} reached the engine as {rr.get('byweekday')} "
                    f"(expected {want}: every listed day with its own ordinal, in order)")
    iv = kwget(case["kw"], "interval")
    if iv is not None and _ref_falsy(iv):
        return f"wiring: the rule was built with the falsy interval {iv} (the engine never advances with it)"
    if rr.get("wkst") != [6, None]:
        return f"wiring: wkst={rr.get('wkst')} (expected SU)"
    # precision rule on the stand-in engine's two values
    sd = kwget(case["kw"], "start_date")
    vals = obs.get("values") or []
    fq = kwget(case["kw"], "freq")
    if sd is not None and (sd["t"] == "date" or (sd["t"] == "str" and _is_date_only(sd["v"]))) and \
            fq is not None and fq["t"] == "str" and fq["v"].upper() in FREQS[4:]:
        return f"precision: frequency {fq['v']} was accepted with the date-precision start {sd}"
    if sd is not None and len(vals) == 2:
        want_date = sd["t"] == "date" or (sd["t"] == "str" and _is_date_only(sd["v"]))
        if sd["t"] in ("date", "dt") or (sd["t"] == "str" and sd["v"]):
            kinds = {v[0] for v in vals}
            if kinds != ({"d"} if want_date else {"dt"}):
                return f"precision: start_date {sd} but next() returned {vals}"
    return None


def nontrivial(case, obs):
    if not isinstance(obs, dict):
        return False
    if case["kind"] == "session":
        # at least two schedules produced rows and two of the session's date values denote the same instant
        done = sum(1 for so in obs.get("steps", []) for eo in so.get("events", []) if eo.get("ok"))
        if case.get("cls") == "macro":
            # a schedule of a macro produced rows in at least two templates
            for st, so in zip(case["steps"], obs.get("steps", [])):
                if st.get("layout") and so.get("ok"):
                    per = Counter((src, f) for t in layout_templates(st["layout"]) for f, i, src in t["slots"]
                                  if so["events"][i].get("n_rows"))
                    per.update(("friend-of-macro", t["name"]) for t in layout_templates(st["layout"])
                               if t.get("slice") and so["events"][t["own"][0][1]].get("n_rows"))
                    if any(n >= 2 for n in per.values()):
                        return True
            return False
        return done >= 2 and _session_shared_instants(case) > 0
    if not obs.get("ok"):
        return False
    keys = {k for k, _ in case["kw"]}
    return bool(keys & (set(INT_KEYS) | {"byweekday", "until", "include", "exclude", "interval"}))



def _date_values(case):
    """(instant in seconds UTC, spelling class) of every date-valued keyword of a session"""
    from dateutil import parser as duparser
    out = []

    def leaf(e, where):
        t = e["t"]
        try:
            if t == "date":
                d = to_py_date(e["v"])
                out.append((int(datetime(d.year, d.month, d.day, tzinfo=UTC).timestamp()), "date", where))
            elif t == "dt":
                d = to_py_dt(e["v"])
                cls = "native-naive" if d.tzinfo is None else ("native-utc" if d.utcoffset() == timedelta(0) else
                                                               f"native-offset{fmt_off(int(d.utcoffset().total_seconds()))}")
                out.append((int((d if d.tzinfo else d.replace(tzinfo=UTC)).timestamp()), cls, where))
            elif t == "str" and e["v"]:
                d = duparser.parse(e["v"])
                cls = "str-date" if _is_date_only(e["v"]) else ("str-offset" if d.utcoffset() not in (None, timedelta(0)) else "str-utc")
                out.append((int((d if d.tzinfo else d.replace(tzinfo=UTC)).timestamp()), cls, where))
            elif t == "seq":
                for x in e["v"]:
                    leaf(x, where)
            elif t == "event":
                for k, v in e["kw"]:
                    if k in DATE_KEYS:
                        leaf(v, k)
        except Exception:
            pass
    for _, _, _, ev in session_events(case):
        for k, v in ev["kw"]:
            if k in DATE_KEYS:
                leaf(v, k)
    return out


def _session_shared_instants(case):
    """number of pairs of date values (in different spellings) that denote the same instant"""
    by = {}
    for inst, cls, where in _date_values(case):
        by.setdefault(inst, []).append((cls, where))
    return sum(1 for v in by.values() if len({c for c, _ in v}) >= 2)


def _text_entries(kws):
    """text include / exclude entries (also of nested schedules) that carry a time: (written day == UTC day?, offset?, via)"""
    from dateutil import parser as duparser
    out = []

    def leaf(e):
        if e["t"] == "seq":
            for x in e["v"]:
                leaf(x)
        elif e["t"] == "str" and e["v"] and not _is_date_only(e["v"]):
            try:
                d = duparser.parse(e["v"])
            except Exception:
                return
            off = d.utcoffset()
            moved = off is not None and d.astimezone(UTC).date() != d.date()
            out.append(("utc-day-differs" if moved else "same-utc-day", "offset" if off else "utc/none",
                        "formula-text" if e.get("via") == "formula" else "quoted"))
    for kw0 in kws:
        for kw in walk_events(kw0):
            for k, v in kw:
                if k in ("include", "exclude"):
                    leaf(v)
    return out


def _offset_text_stats(cases, obss):
    c1 = Counter()
    for c, o in zip(cases, obss):
        c1["cases"] += 1
        c1[f"version_{c.get('version', 3)}"] += 1
        ents = _text_entries([c["kw"]])
        for a, b, v in ents:
            c1[f"text_entry:{a}/{b}/{v}/v{c.get('version', 3)}"] += 1
        if any(a == "utc-day-differs" for a, _, _ in ents):
            c1["cases_with_an_entry_whose_utc_day_differs"] += 1
        if any(e["t"] == "dt" for e in _formula_leaves([c["kw"]])):
            c1["cases_with_a_formula_datetime_object"] += 1
        if isinstance(o, dict):
            c1["outcome:" + ("skip" if o.get("skip") else "ok" if o.get("ok") else str(o.get("err")))] += 1
    return dict(c1)


def _macro_stats(cases, obss):
    c1 = Counter()
    for c, o in zip(cases, obss):
        c1["sessions"] += 1
        for st, so in zip(c["steps"], (o.get("steps", []) if isinstance(o, dict) else [])):
            lay = st.get("layout")
            if not lay:
                c1["ordinary_steps_in_the_same_process"] += 1
                continue
            c1[f"version_{st.get('version', 3)}"] += 1
            c1["step:" + ("ok" if so.get("ok") else str(so.get("err")))] += 1
            if so.get("sets_not_attributed"):
                c1["engine_calls_not_attributed"] += 1
            ts = layout_templates(lay)
            per = Counter((src, f) for t in ts for f, i, src in t["slots"])
            c1[f"templates_sharing_one_macro_field:{min(max(per.values(), default=0), 5)}"] += 1
            c1["includers:top-level"] += sum(1 for t in ts if t["slots"] and t["name"][0] == "E")
            c1["includers:friend"] += sum(1 for t in ts if t["slots"] and t["name"][0] == "F")
            c1["includers:nested"] += sum(1 for t in ts if t["slots"] and t["name"][0] == "K")
            c1["macro_including_a_macro"] += sum(1 for m in lay["macros"] if m["include"])
            c1[f"copies_of_a_macro's_friend_template:{sum(1 for t in ts if t.get('slice'))}"] += 1
            c1["written_out_schedules_next_to_included_ones"] += sum(len(t["own"]) for t in ts)
            c1["schedules(template,field)"] += len(st["events"])
            c1["text_include_exclude_entries"] += len(_text_entries([ev["kw"] for ev in st["events"]]))
            c1["formula_datetimes"] += len(_formula_leaves([ev["kw"] for ev in st["events"]]))
    return dict(c1)


def _session_stats(cases, obss):
    n_ev = Counter()
    hows = Counter()
    modes = Counter()
    spell_pairs = Counter()
    shared = Counter()
    outcomes = Counter()
    for c, o in zip(cases, obss):
        evs = list(session_events(c))
        n_ev[len(evs)] += 1
        hows["+".join(st["how"] for st in c["steps"])] += 1
        for _, _, how, ev in evs:
            modes[how + "/" + ("for_each" if ev["mode"] == "for_each" else "count")] += 1
        by = {}
        for inst, cls, where in _date_values(c):
            by.setdefault(inst, set()).add((cls, where))
        k = 0
        for v in by.values():
            classes = sorted({x for x, _ in v})
            if len(classes) >= 2:
                k += 1
                for a, b in itertools.combinations(classes, 2):
                    a, b = re.sub(r"[+-]\d\d:\d\d$", "", a), re.sub(r"[+-]\d\d:\d\d$", "", b)
                    spell_pairs[a + "~" + b + ("(another zone)" if a == b else "")] += 1
            wheres = sorted({w for _, w in v})
            if len(v) >= 2 and len(wheres) >= 2:
                spell_pairs["where:" + "~".join(wheres)] += 1
        shared[min(k, 4)] += 1
        if isinstance(o, dict):
            if o.get("skip"):
                outcomes["skip"] += 1
            for so in o.get("steps", []):
                for eo in so.get("events", []):
                    outcomes["event:" + ("ok" if eo.get("ok") else str(eo.get("err", "step-failed")))] += 1
    inter = sum(1 for c in cases for st in c["steps"] if st.get("interleave") and len(st["events"]) > 1)
    return {"sessions": len(cases), "schedules_per_session": dict(n_ev), "step_kinds": dict(hows), "event_modes": dict(modes),
            "steps_with_interleaved_schedules": inter,
            "instants_shared_by_differently_spelled_values_per_session": dict(shared),
            "same_instant_spelling_pairs": dict(spell_pairs), "event_outcomes": dict(outcomes)}


def stats(cases, obss):
    kinds = Counter()
    outcomes = Counter()
    keys = Counter()
    freqs = Counter()
    starts = Counter()
    zones = Counter()
    depth = Counter()
    nvals = Counter()
    quirks = Counter()
    slow = 0
    sess = [(c, o) for c, o in zip(cases, obss) if c["kind"] == "session" and c.get("cls") != "macro"]
    macro = [(c, o) for c, o in zip(cases, obss) if c["kind"] == "session" and c.get("cls") == "macro"]
    otext = [(c, o) for c, o in zip(cases, obss) if c.get("cls") == "offset_text"]
    for c, o in zip(cases, obss):
        kind = c["kind"] + ("/" + ("for_each" if c.get("mode") == "for_each" else "count") if c["kind"] == "recipe" else "")
        if c.get("cls"):
            kind += "[" + c["cls"] + "]"
        kinds[kind] += 1
        if c["kind"] == "session":
            continue
        if not isinstance(o, dict):
            continue
        if o.get("ok"):
            outcomes[c["kind"] + ":ok"] += 1
            n = len(o.get("values", []))
            nvals["0" if n == 0 else "1-3" if n <= 3 else "4-10" if n <= 10 else "11-50" if n <= 50 else ">50"] += 1
        elif "err" in o:
            outcomes[c["kind"] + ":" + str(o["err"]) + ("(engine)" if o.get("engine_err") else "")] += 1
        else:
            outcomes[c["kind"] + ":" + (("skip(slow engine)" if o.get("slow_engine") else "skip") if o.get("skip") else "other")] += 1
        for k, _ in c["kw"]:
            keys[k] += 1
        fq = kwget(c["kw"], "freq")
        if fq is not None and fq["t"] == "str":
            freqs[fq["v"].upper() if fq["v"].upper() in FREQS else "invalid"] += 1
        sd = kwget(c["kw"], "start_date")
        starts["absent" if sd is None else sd["t"]] += 1
        if sd is not None and sd["t"] == "dt":
            zones["naive" if sd["v"][7] is None else ("utc" if sd["v"][7] == 0 else "offset")] += 1
        elif sd is not None and sd["t"] == "str":
            zones["str:" + ("offset" if re.search(r"[+-]\d\d:\d\d$", sd["v"]) and not sd["v"].endswith("+00:00") else "utc/none")] += 1
        d = 0
        for kw in walk_events(c["kw"]):
            d += 1
        depth[min(d - 1, 3)] += 1
        if c["kind"] == "recipe":
            r = o.get("ref") or {}
            for k in r:
                if k:
                    quirks[k] += 1
            if o.get("impl_s", 0) + o.get("ref_s", 0) > 5:
                slow += 1
    return {"kinds": dict(kinds), "outcomes": dict(outcomes), "keyword_counts": dict(keys), "freq": dict(freqs),
            "start_date_type": dict(starts), "start_zone": dict(zones), "nested_events": dict(depth),
            "rows_per_ok_case": dict(nvals), "cases_where_a_known_defect_changes_the_reference": dict(quirks),
            "slow_cases_over_5s": slow,
            "histories": _session_stats([c for c, _ in sess], [o for _, o in sess]),
            "include_exclude_text_with_offsets": _offset_text_stats([c for c, _ in otext], [o for _, o in otext]),
            "schedules_through_macros": _macro_stats([c for c, _ in macro], [o for _, o in macro])}


def shrink(case):
    if case["kind"] == "session":
        yield from _shrink_session(case)
        return
    kw = case["kw"]
    keep = ("freq", "start_date") + (("count", "until") if case.get("mode") == "for_each" else ())
    for i, (k, v) in enumerate(kw):
        if k in keep:
            continue        # (an unbounded for_each never finishes: not a smaller witness)
        yield dict(case, kw=kw[:i] + kw[i + 1:])
    for i, (k, v) in enumerate(kw):
        if v["t"] == "seq" and v["v"]:
            for j in range(len(v["v"])):
                yield dict(case, kw=kw[:i] + [[k, dict(v, v=v["v"][:j] + v["v"][j + 1:])]] + kw[i + 1:])
            if len(v["v"]) == 1 and v["v"][0]["t"] != "seq":
                yield dict(case, kw=kw[:i] + [[k, v["v"][0]]] + kw[i + 1:])
    if case["kind"] == "recipe" and case["mode"] != "for_each" and case["mode"]["count"] > 1:
        yield dict(case, mode={"count": case["mode"]["count"] - 1})
        yield dict(case, mode={"count": 1})



def _shrink_session(case):
    steps = case["steps"]
    if any(st.get("layout") for st in steps):
        # a layout fixes which schedule stands where: steps without a layout may go, and a keyword is dropped from
        # every instance of the same macro field together (they are one piece of recipe text)
        for si, st in enumerate(steps):
            if not st.get("layout") and len(steps) > 1:
                yield dict(case, steps=steps[:si] + steps[si + 1:])
        for si, st in enumerate(steps):
            if not st.get("layout"):
                continue
            groups = {}
            for t in layout_templates(st["layout"]):
                for f, i, src in t["slots"]:
                    groups.setdefault((src, f), []).append(i)
                for f, i in t["own"]:
                    groups.setdefault(("own", t["name"], f), []).append(i)
            for idxs in groups.values():
                kw0 = st["events"][idxs[0]]["kw"]
                for j, (k, v) in enumerate(kw0):
                    if k in ("freq", "start_date"):
                        continue
                    evs = list(st["events"])
                    for i in idxs:
                        evs[i] = dict(evs[i], kw=[x for x in evs[i]["kw"] if x[0] != k])
                    yield dict(case, steps=steps[:si] + [dict(st, events=evs)] + steps[si + 1:])
        return
    n = sum(len(st["events"]) for st in steps)
    if n > 1:
        for si, st in enumerate(steps):           # drop one schedule (never the last one left)
            for ei in range(len(st["events"])):
                evs = st["events"][:ei] + st["events"][ei + 1:]
                new = steps[:si] + ([dict(st, events=evs)] if evs else []) + steps[si + 1:]
                yield dict(case, steps=new)
    for si, st in enumerate(steps):               # drop one keyword of one schedule
        for ei, ev in enumerate(st["events"]):
            keep = ("freq", "start_date") + (("count", "until") if ev["mode"] == "for_each" else ())
            for i, (k, v) in enumerate(ev["kw"]):
                if k in keep:
                    continue
                ev2 = dict(ev, kw=ev["kw"][:i] + ev["kw"][i + 1:])
                yield dict(case, steps=steps[:si] + [dict(st, events=st["events"][:ei] + [ev2] + st["events"][ei + 1:])] + steps[si + 1:])


def directed_search(rng, disagreeing):
    out = []
    for key in DOC_INT_KEYS:
        for _ in range(60):
            out.append(gen_recipe_single(rng, key))
    for _ in range(1500):
        out.append(gen_recipe_case(rng))
    for _ in range(60):
        out.append(gen_nested_exclusion(rng))
    for _ in range(200):
        out.append(gen_ordinal_weekdays_case(rng))
    for _ in range(300):
        out.append(gen_session(rng, general=rng.random() < 0.2))
    for _ in range(400):
        out.append(gen_offset_text_case(rng))
    for _ in range(200):
        out.append(gen_macro_session(rng))
    for key in INT_KEYS + ["byweekday", "interval", "count", "cache", "until"]:
        for _ in range(25):
            out.append(gen_direct_single(rng, key))
    return out


def violation_class(case, obs, msg):
    return msg.split(":")[0].split("[")[0]


def match_finding(case, obs, msg, findings):
    """A failing case belongs to a recorded finding only if its output equals the reference recurrence
    computed under exactly that finding's defect (oracle message `quirk[<codes>]`)."""
    m = re.match(r"quirk\[([a-z_+]+)\]", msg or "")
    if not m:
        return None
    ids = {f["id"] for f in findings}
    app = set(applicable_quirks(case))
    for code in m.group(1).split("+"):
        fid = QUIRKS.get(code)
        if fid in ids and code in app:
            return fid
    return None
