"""C12 — the randomised range is a permutation, also when extended.
Implementation: snowfakery/utils/randomized_range.py; model: coq/theories/RandRange.v."""
import itertools

from . import common as C
from .oracle_random import injected_randbelow

PROP = "C12"
MODEL = "RandRange"
SHARD = 400
RULE = ("cases: (i) random_range(start,stop) with both randint draws injected, output list compared; "
        "exhaustive over size<=N and all (v0,o0) plus random larger sizes; (ii) generator frame "
        "parameters at sizes 2^k, 2^k+-1; (iii) UpdatableRandomRange op scripts (next / extend / "
        "move / invalid), draws injected.  non-trivial: a range of size>=2 or a script with >=1 "
        "set_new_range; distinct by case hash")
TRUSTED = ["harness/oracle_random.py: random.Random._randbelow patched to inject the two randint draws"]
ASSUMPTIONS = ["random.randint(0,n) returns an integer in [0,n] (the theorems quantify over all such draws)",
               "Python int arithmetic = Z arithmetic"]
EXHAUSTIVE = {"quick": False, "thorough": False}


# ---------------------------------------------------------------- generation
def generate(rng, tier):
    cases = []
    nmax = 9 if tier == "quick" else 26
    for size in range(1, nmax + 1):
        start = rng.choice([0, 1, -3, 7, 100])
        for v0 in range(size + 1):
            for o0 in range(size + 1):
                cases.append({"kind": "range", "start": start, "stop": start + size, "v0": v0, "o0": o0})
    for _ in range(60 if tier == "quick" else 1500):
        size = rng.choice([rng.randint(10, 70), rng.randint(60, 300), 2 ** rng.randint(1, 9) + rng.choice([-1, 0, 1])])
        size = max(1, size)
        start = rng.randint(-50, 500)
        v0 = rng.choice([0, size, rng.randint(0, size)])
        o0 = rng.choice([0, size, rng.randint(0, size)])
        cases.append({"kind": "range", "start": start, "stop": start + size, "v0": v0, "o0": o0})
    # degenerate / rejected ranges
    for a, b in [(0, 0), (5, 5), (3, 2), (0, -4)]:
        cases.append({"kind": "range", "start": a, "stop": b, "v0": 0, "o0": 0})
    for k in range(1, 64 if tier == "quick" else 200):
        for d in (-1, 0, 1):
            size = 2 ** k + d
            if size >= 1:
                cases.append({"kind": "params", "start": rng.randint(-5, 5), "size": size})
    nscripts = 400 if tier == "quick" else 12000
    for _ in range(nscripts):
        cases.append(gen_script(rng))
    for _ in range(80 if tier == "quick" else 1500):
        cases.append(gen_pending_move(rng))
    if tier == "thorough":
        cases.extend(exhaustive_scripts())
    return cases


def gen_script(rng):
    start = rng.randint(-2, 6)
    stop = start + rng.randint(1, 5)
    ops = []
    cur_start, cur_max = start, stop
    n = rng.randint(1, 14)
    for _ in range(n):
        r = rng.random()
        if r < 0.58:
            ops.append(["next"])
        elif r < 0.84:
            cur_max += rng.randint(0, 3)
            ops.append(["set", cur_start, cur_max])
        elif r < 0.90:
            cur_start = cur_max + rng.randint(0, 2)
            cur_max = cur_start + rng.randint(1, 4)
            ops.append(["set", cur_start, cur_max])
        elif r < 0.95:
            # a move below the pending (not yet consumed) extension: legal whenever the new
            # minimum is not below what the current generator covers
            a = rng.randint(cur_start + 1, cur_max + 1)
            b = a + rng.randint(1, 6)
            ops.append(["set", a, b])
            cur_start, cur_max = a, b
        else:  # probably invalid: lower the max, overlapping move, empty range
            a = rng.randint(start - 1, cur_max + 1)
            b = a + rng.randint(-1, 3)
            ops.append(["set", a, b])
            if a != cur_start and b > a and a >= cur_max:
                cur_start, cur_max = a, b
    # drain at the end half of the time
    if rng.random() < 0.5:
        ops.extend([["next"]] * (cur_max - start + 2))
    return {"kind": "script", "start": start, "stop": stop, "ops": ops,
            "raw": [rng.randint(0, 10 ** 6) for _ in range(2 * (len(ops) + 2))]}


def gen_pending_move(rng):
    """extend while the first generator is still running (the extension stays pending), then
    move to a range that lies inside / below the pending extension, then drain"""
    start = rng.randint(-2, 4)
    n = rng.randint(1, 4)
    stop = start + n
    big = stop + rng.randint(2, 8)
    ops = [["next"]] * rng.randint(0, n)
    ops = ops + [["set", start, big]] + [["next"]] * rng.randint(0, 2)
    a = rng.randint(stop, big)
    b = a + rng.randint(1, max(1, big - a))
    ops = ops + [["set", a, b]] + [["next"]] * (b - a + 3)
    if rng.random() < 0.4:
        ops = ops + [["set", a, b + 2]] + [["next"]] * 4
    return {"kind": "script", "start": start, "stop": stop, "ops": [list(o) for o in ops],
            "raw": [rng.randint(0, 10 ** 6) for _ in range(2 * (len(ops) + 2))]}


def exhaustive_scripts():
    out = []
    for size in (1, 2):
        for length in range(1, 7):
            for ops in itertools.product(["n", "e1", "e2", "m"], repeat=length):
                cur_start, cur_max = 0, size
                script = []
                for o in ops:
                    if o == "n":
                        script.append(["next"])
                    elif o[0] == "e":
                        cur_max += int(o[1])
                        script.append(["set", cur_start, cur_max])
                    else:
                        cur_start, cur_max = cur_max + 1, cur_max + 3
                        script.append(["set", cur_start, cur_max])
                out.append({"kind": "script", "start": 0, "stop": size, "ops": script,
                            "raw": [(7 * i + len(ops)) % 11 for i in range(2 * (length + 2))]})
    return out


# ---------------------------------------------------------------- implementation
def run_impl(case):
    from snowfakery.utils import randomized_range as rr
    kind = case["kind"]
    if kind == "range":
        with injected_randbelow(explicit=[case["v0"], case["o0"]]) as rec:
            try:
                out = list(itertools.islice(rr.random_range(case["start"], case["stop"]),
                                            0, 4 * abs(case["stop"] - case["start"]) + 64))
                return {"ok": out, "widths": rec.widths}
            except BaseException as e:
                return {"err": C.canon_exc(e), "widths": rec.widths}
    if kind == "params":
        with injected_randbelow(explicit=[0, 0]):
            g = rr.random_range(case["start"], case["start"] + case["size"])
            next(g)
            loc = g.gi_frame.f_locals if g.gi_frame is not None else {}
            return {"modulus": loc.get("modulus"), "multiplier": loc.get("multiplier")}
    if kind == "script":
        with injected_randbelow(raw=case["raw"]) as rec:
            trace = []
            try:
                u = rr.UpdatableRandomRange(case["start"], case["stop"])
                for op in case["ops"]:
                    if op[0] == "next":
                        try:
                            trace.append(next(u))
                        except StopIteration:
                            trace.append(None)
                    else:
                        u.set_new_range(op[1], op[2])
                return {"ok": trace, "draws": rec.values}
            except BaseException as e:
                return {"err": C.canon_exc(e), "partial": trace, "draws": rec.values}
    raise ValueError(kind)


# ---------------------------------------------------------------- model side
def _ops(ops):
    return C.clist("UNext" if o[0] == "next" else f"(USet {C.cz(o[1])} {C.cz(o[2])})" for o in ops)


def coq_case(case, obs):
    kind = case["kind"]
    if kind == "range":
        exp = C.cresult(obs, lambda l: C.clist(C.cz(v) for v in l))
        return f"CRange {C.cz(case['start'])} {C.cz(case['stop'])} {C.cz(case['v0'])} {C.cz(case['o0'])} {exp}"
    if kind == "params":
        if obs.get("modulus") is None or obs.get("multiplier") is None:
            return None  # locals renamed: nothing to compare (not a property violation)
        return (f"CParams {C.cz(case['start'])} {C.cz(case['start'] + case['size'])} "
                f"{C.cz(obs['multiplier'])} {C.cz(obs['modulus'])}")
    if kind == "script":
        draws = obs.get("draws", [])
        pairs = [(draws[i], draws[i + 1]) for i in range(0, len(draws) - 1, 2)]
        oracle = C.clist(C.cpair(C.cz(a), C.cz(b)) for a, b in pairs)
        exp = C.cresult(obs, lambda l: C.clist(C.copt(v, C.cz) for v in l))
        return f"CScript {C.cz(case['start'])} {C.cz(case['stop'])} {oracle} {_ops(case['ops'])} {exp}"


# ---------------------------------------------------------------- property oracle (implementation only)
def oracle(case, obs):
    kind = case["kind"]
    if kind == "range":
        a, b = case["start"], case["stop"]
        if b > a:
            if "ok" not in obs:
                return f"range: random_range({a},{b}) raised {obs['err']}"
            if sorted(obs["ok"]) != list(range(a, b)):
                return f"range: random_range({a},{b}) with draws ({case['v0']},{case['o0']}) is not a permutation: {obs['ok'][:40]}"
        return None
    if kind == "params":
        m, mu, size = obs.get("modulus"), obs.get("multiplier"), case["size"]
        if m is None or mu is None:
            return None
        if m < size or (m & (m - 1)) != 0 or mu % 4 != 1:
            return f"params: size {size}: modulus {m} / multiplier {mu} violate the full-period conditions"
        return None
    if kind == "script":
        trace = obs["ok"] if "ok" in obs else obs.get("partial", [])
        prod = [v for v in trace if v is not None]
        if len(set(prod)) != len(prod):
            return f"script: a value was produced twice: {trace}"
        # replay the script's intent: track the accepted range chain
        start, cur_max = case["start"], case["stop"]
        chain_lo = start
        seen_in_chain = []
        ti = 0
        ok = "ok" in obs
        extend_only = True
        certain = True      # every operation so far is one the class must accept
        for op in case["ops"]:
            if ti >= len(trace) and op[0] == "next":
                break
            if op[0] == "next":
                v = trace[ti]
                ti += 1
                if v is None:
                    want = list(range(chain_lo, cur_max))
                    if extend_only and sorted(seen_in_chain) != want:
                        return (f"script: iterator stopped but values of [{chain_lo},{cur_max}) are missing: "
                                f"got {sorted(seen_in_chain)}")
                else:
                    if not (chain_lo <= v < cur_max):
                        return f"script: value {v} outside the current range [{chain_lo},{cur_max})"
                    seen_in_chain.append(v)
            else:
                a, b = op[1], op[2]
                if a == chain_lo:
                    if b >= cur_max:
                        cur_max = b
                    else:
                        break  # rejected by the class (assert) — nothing more is specified
                else:
                    certain = False
                    if b > a:
                        # if the class rejected the move the trace simply ends here; if it
                        # accepted it, only values of [a, b) (and later extensions) may follow
                        chain_lo, cur_max, seen_in_chain = a, b, []
                    else:
                        break
        else:
            if not ok and certain:
                return f"script: a script of valid operations failed with {obs['err']}"
        return None


def nontrivial(case, obs):
    if case["kind"] == "range":
        return case["stop"] - case["start"] >= 2
    if case["kind"] == "script":
        return any(o[0] == "set" for o in case["ops"])
    return case["size"] >= 3


def stats(cases, obss):
    from collections import Counter
    kinds = Counter(c["kind"] for c in cases)
    sizes = Counter()
    for c in cases:
        if c["kind"] == "range":
            s = c["stop"] - c["start"]
            sizes["<=0" if s <= 0 else "1-9" if s < 10 else "10-99" if s < 100 else ">=100"] += 1
    errs = Counter(o.get("err", "ok") for o in obss if isinstance(o, dict) and ("ok" in o or "err" in o))
    opc = Counter()
    for c in cases:
        if c["kind"] == "script":
            for o in c["ops"]:
                opc[o[0]] += 1
    return {"kinds": dict(kinds), "range_sizes": dict(sizes), "outcomes": dict(errs), "script_ops": dict(opc)}


def shrink(case):
    if case["kind"] == "script":
        ops = case["ops"]
        for i in range(len(ops)):
            yield dict(case, ops=ops[:i] + ops[i + 1:])
    elif case["kind"] == "range":
        size = case["stop"] - case["start"]
        if size > 1:
            for s in (size // 2, size - 1):
                if s >= 1:
                    yield dict(case, stop=case["start"] + s, v0=min(case["v0"], s), o0=min(case["o0"], s))


def directed_search(rng, disagreeing):
    out = []
    for size in range(1, 48):
        for v0 in (0, size // 2, size):
            for o0 in (0, 1, size):
                out.append({"kind": "range", "start": 0, "stop": size, "v0": v0, "o0": o0})
    out.extend(gen_script(rng) for _ in range(3000))
    out.extend({"kind": "params", "start": 0, "size": 2 ** k + d} for k in range(1, 120) for d in (-1, 0, 1) if 2 ** k + d >= 1)
    return out


def match_finding(case, obs, msg, findings):
    return None
