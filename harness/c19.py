"""C19 — runs in one process are independent of each other.

Implementation: snowfakery.generate_data / snowfakery.data_generator.generate called back to back in
ONE process; model: coq/theories/Isolation.v (the process-wide state `proc` and how a run reads and
writes it).

One case = one sequence of 2..6 recipes.  The sequence runs in a dedicated process that has imported
snowfakery and run nothing (the model's proc0); every recipe of the sequence also runs alone in its
own pristine process.  Three checks per case:
  * property oracle (implementation only): output of recipe i in the sequence == its output alone
    (deterministic recipes: identical rows and error class; unique-id / random / clock fields:
    structure, plus distinctness of unique ids over the whole sequence and freshness of `now`);
  * correspondence: the model predicts, run after run, the observations of the process-touching
    operations (ids, memoised counters, (context,index) of every unique id, date-parse results,
    version mode) AND the visible part of the process state after the run (context counter,
    cache_info of the two date caches, whether the RowHistory context variable was replaced, the
    application's options dict, which must come back unchanged);
  * state-diff audit: all snowfakery.* module objects are fingerprinted before and after each run;
    a changed location that is neither in the model's `proc` record nor in the whitelist (import
    caches, warnings registries) is "unmodelled process state" = a disagreement with the model.

Pristine processes: `fresh: "spawn"` starts a new interpreter per run (PYTHONPATH = common.REPO);
`fresh: "fork"` forks the pool worker, which has imported snowfakery and never runs a recipe itself
(checked with the same fingerprint before every fork; a worker that is not pristine falls back to
spawn).  Never compared: timestamps (only "inside the window of run j"), addresses, messages."""
import collections
import contextvars
import datetime
import decimal
import enum
import functools
import hashlib
import io
import itertools
import json
import os
import pathlib
import random
import re
import signal
import string
import subprocess
import sys
import tempfile
import types

from . import common as C
from . import sfcore

PROP = "C19"
MODEL = "Isolation"
SHARD = 60
CASE_TIMEOUT = 120
RULE = ("cases: sequences of 2..6 recipes run back to back in one pristine process through generate / "
        "generate_data, each recipe also alone in its own pristine process.  Recipes: (a) process-programs "
        "(templates whose fields are unique_id / UniqueId.unique_id / unique_alpha_code, date / datetime with "
        "string, native and clock keys, named and unnamed Counters.NumberCounter, Counters.DateCounter, "
        "random_reference + attribute load, version probe, failing formulas, parse failures, unknown stop "
        "table; 1-2 iterations), (b) SF-core recipes of sfcore.gen_recipe, (c) hand-written plugin recipes "
        "(Dataset.iterate/shuffle, random_reference unique, nicknames + variables, just_once, counters with "
        "parent, fake, random_number, broken YAML, unfilled reference); sequences repeat a recipe with "
        "probability 1/2; optional shared plugin_options dict.  non-trivial: >= 2 runs reached execution "
        "and the sequence exercises at least one stateful mechanism (unique id, date cache, memoised "
        "plugin value, row history, dataset, failing predecessor, repeated recipe); distinct by case hash")
TRUSTED = ["harness/c19.py: state walker (module globals, class attributes, function defaults / closure cells / "
           "attributes, lru_cache cache_info, ContextVar values of every snowfakery.* module) and its whitelist",
           "harness/c19.py: pristine-process plumbing (fork of an idle pool worker / subprocess spawn)",
           "harness/c19.py: decoding of unique ids to (context, index) with the implementation's own "
           "unscramble_number and baseconv",
           "harness/c19.py: the unrolling of a process-program into the model's operation list"]
ASSUMPTIONS = ["dateutil / the isinstance branches behind parse_date and parse_datetimespec are functions of the "
               "key for keys that do not read the clock (Section variables parse_d / parse_dt; instantiated per "
               "case with the values observed in the fresh processes)",
               "the clock is an input of a run (env); `now` values are only located in the time window of a run",
               "the model's proc record lists every location that survives a run: NOT proved, audited on every "
               "run by the state-diff walker over snowfakery.* (state kept inside third-party libraries - "
               "jinja2, faker, yaml, random - is outside the audit)",
               "C19_uid_values_distinct relies on C13's value pipeline (UniqueId.v)"]
EXHAUSTIVE = {"quick": False, "thorough": False}

F_ALPHA = "C19-K5-alpha-codes-repeat-across-runs"

CSV_TEXT = "a,b\n1,x\n2,y\n3,z\n4,w\n5,v\n"
PLUGIN_TEXT = ("from snowfakery import SnowfakeryPlugin\n\n\nclass Doubler(SnowfakeryPlugin):\n"
               "    class Functions:\n        def double(self, x):\n            return int(x) * 2\n")
PLUGIN_RECIPE = "- plugin: c19_plug.Doubler\n- object: T\n  count: 2\n  fields:\n    n: ${{Doubler.double(id + 20)}}\n"
CSV_OTHER = "a,b\n91,ox\n92,oy\n93,oz\n"        # data.csv of the OTHER directory
SHARED_OPTS = {"pid": 7}          # a non-empty options dict owned by the embedding application

# =============================================================================== state walker
_SCALARS = (type(None), bool, int, float, complex, str, bytes, datetime.date, datetime.time,
            datetime.timedelta, datetime.tzinfo, decimal.Decimal, pathlib.PurePath, re.Pattern, enum.Enum,
            range, frozenset)
_SKIP_MODULE_KEYS = {"__builtins__", "__cached__", "__spec__", "__loader__", "__doc__", "__file__", "__path__",
                     "__package__", "__name__"}
_SKIP_CLASS_KEYS = {"__dict__", "__weakref__", "__doc__", "__module__", "__qualname__", "__annotations__",
                    "__abstractmethods__", "_abc_impl", "__slots__", "__parameters__", "__orig_bases__",
                    "__match_args__", "__firstlineno__", "__static_attributes__"}
PREFIX = "snowfakery"


def _h(s):
    return hashlib.sha256(s.encode("utf-8", "replace")).hexdigest()[:12]


def _is_sf_class(cls):
    return isinstance(cls, type) and (getattr(cls, "__module__", "") or "").split(".")[0] == PREFIX


_LRU_TYPE = type(functools.lru_cache()(lambda: None))


def _is_lru(v):
    # by type, never by hasattr: objects of the package may answer any attribute (PluginResult)
    return isinstance(v, _LRU_TYPE)


class Walker:
    """Fingerprints of every location reachable from the snowfakery.* modules."""

    def fp(self, v, depth=0, stack=()):
        if isinstance(v, _SCALARS):
            r = repr(v)
            return type(v).__name__ + ":" + (r if len(r) < 60 else _h(r))
        if id(v) in stack or depth > 6:
            return "<cycle/deep>"
        stack = stack + (id(v),)
        if isinstance(v, (list, tuple, collections.deque)):
            return type(v).__name__ + "[" + ",".join(self.fp(x, depth + 1, stack) for x in v) + "]"
        if isinstance(v, set):
            return "set{" + ",".join(sorted(self.fp(x, depth + 1, stack) for x in v)) + "}"
        if isinstance(v, collections.ChainMap):
            return "ChainMap" + self.fp(v.maps, depth + 1, stack)
        if isinstance(v, dict):
            items = sorted((self.fp(k, depth + 1, stack), self.fp(x, depth + 1, stack)) for k, x in list(v.items()))
            return type(v).__name__ + "{" + ",".join(a + "=" + b for a, b in items) + "}"
        if isinstance(v, itertools.count):
            return repr(v)
        if isinstance(v, random.Random):
            return "Random:" + _h(repr(v.getstate()))
        if isinstance(v, contextvars.ContextVar):
            try:
                x = v.get()
                return "ContextVar(set:%s@%x)" % (type(x).__name__, id(x))
            except LookupError:
                return "ContextVar(unset)"
        if _is_lru(v):
            ci = v.cache_info()
            return "lru(currsize=%d,misses=%d)" % (ci.currsize, ci.misses)
        if isinstance(v, (types.FunctionType, types.BuiltinFunctionType, types.MethodType, type, types.ModuleType,
                          staticmethod, classmethod, property, functools.partial)):
            return "ref:" + type(v).__name__ + ":" + str(getattr(v, "__qualname__", getattr(v, "__name__", "?")))
        if _is_sf_class(type(v)):
            parts = []
            try:
                d = object.__getattribute__(v, "__dict__")
            except Exception:
                d = None
            if isinstance(d, dict):
                for k in sorted(d, key=str):
                    parts.append(str(k) + "=" + self.fp(d[k], depth + 1, stack))
            for cls in type(v).__mro__:
                for s in vars(cls).get("__slots__", ()) or ():
                    if isinstance(s, str) and s not in ("__dict__", "__weakref__"):
                        try:
                            x = object.__getattribute__(v, s)
                        except Exception:
                            continue
                        parts.append(s + "=" + self.fp(x, depth + 1, stack))
            return "obj:" + type(v).__qualname__ + "(" + ",".join(parts) + ")"
        return "foreign:%s.%s@%x" % (type(v).__module__, type(v).__qualname__, id(v))

    def add(self, loc, v):
        try:
            f = self.fp(v)
        except Exception as e:      # an object that cannot be inspected still has an identity
            f = "uninspectable:%s:%s@%x" % (type(e).__name__, type(v).__name__, id(v))
        self.locs[loc] = f if len(f) <= 80 else _h(f)

    def walk_function(self, loc, f, seen):
        if id(f) in seen:
            return
        seen.add(id(f))
        if _is_lru(f):
            self.add(loc + ".<lru_cache>", f)
            f = f.__wrapped__
        f = getattr(f, "__func__", f)
        if not isinstance(f, types.FunctionType):
            return
        for i, d in enumerate(f.__defaults__ or ()):
            self.add(f"{loc}.__defaults__[{i}]", d)
        for k, d in (f.__kwdefaults__ or {}).items():
            self.add(f"{loc}.__kwdefaults__[{k}]", d)
        if f.__closure__:
            for name, cell in zip(f.__code__.co_freevars, f.__closure__):
                try:
                    c = cell.cell_contents
                except ValueError:
                    self.locs[f"{loc}.<closure:{name}>"] = "<empty>"
                    continue
                self.add(f"{loc}.<closure:{name}>", c)
                if isinstance(c, types.FunctionType) or _is_lru(c):
                    self.walk_function(f"{loc}.<closure:{name}>", c, seen)
        for k, x in sorted(f.__dict__.items()):
            if k == "__wrapped__":
                self.walk_function(loc + ".__wrapped__", x, seen)
            else:
                self.add(f"{loc}.<attr:{k}>", x)

    def walk_class(self, loc, cls, seen):
        if id(cls) in seen:
            return
        seen.add(id(cls))
        for k, v in sorted(vars(cls).items(), key=lambda kv: kv[0]):
            if k not in _SKIP_CLASS_KEYS:
                self.walk_value(f"{loc}.{k}", v, seen)

    def walk_value(self, loc, v, seen):
        if isinstance(v, types.ModuleType):
            return
        if isinstance(v, type):
            if _is_sf_class(v):
                self.walk_class(loc, v, seen)
            else:
                self.locs[loc] = "ref:type:" + v.__qualname__
            return
        if isinstance(v, property):
            for nm in ("fget", "fset", "fdel"):
                g = getattr(v, nm)
                if g is not None:
                    self.walk_function(f"{loc}.{nm}", g, seen)
            return
        if isinstance(v, (types.FunctionType, staticmethod, classmethod)) or _is_lru(v):
            self.add(loc, v)
            self.walk_function(loc, v, seen)
            return
        self.add(loc, v)

    def snapshot(self):
        self.locs = {}
        seen = set()
        mods = sorted(n for n in list(sys.modules) if n == PREFIX or n.startswith(PREFIX + "."))
        for mn in mods:
            m = sys.modules.get(mn)
            if m is None:
                continue
            for k, v in sorted(vars(m).items()):
                if k in _SKIP_MODULE_KEYS:
                    continue
                if isinstance(v, (types.FunctionType, type)) and getattr(v, "__module__", None) != mn:
                    continue        # defined elsewhere: walked at its home
                self.walk_value(f"{mn}:{k}", v, seen)
        # process-level locations outside the package that Snowfakery code touches
        self.locs["<process>:cwd"] = os.getcwd()
        self.locs["<process>:sys.path"] = _h(repr(sys.path))
        self.locs["<process>:os.environ"] = _h(repr(sorted(os.environ.items())))
        self.locs["<process>:recursionlimit"] = str(sys.getrecursionlimit())
        self.locs["<process>:decimal.context"] = _h(repr(decimal.getcontext()))
        try:
            import locale
            self.locs["<process>:locale"] = str(locale.setlocale(locale.LC_ALL))
        except Exception:
            self.locs["<process>:locale"] = "?"
        import warnings
        self.locs["<process>:warnings.filters"] = _h(repr([(f[0], str(f[1]), str(f[2]), str(f[3]), f[4])
                                                           for f in warnings.filters]))
        return {"mods": mods, "locs": dict(self.locs)}


# locations of the model's `proc` record (coq/theories/Isolation.v)
MODELLED = [
    (re.compile(r"^snowfakery\.standard_plugins\.UniqueId:UniqueNumericIdGenerator\.context_uniqifier$"), "p_uid"),
    (re.compile(r"^snowfakery\.template_funcs:parse_date(\.<lru_cache>)?$"), "p_dates"),
    (re.compile(r"^snowfakery\.template_funcs:_parse_datetimespec(\.<lru_cache>)?$"), "p_dts"),
    (re.compile(r"^snowfakery\.utils\.scrambled_numbers:(mask_for_key|randomizer)(\.<lru_cache>)?$"), "p_masks"),
    (re.compile(r"^snowfakery\.[A-Za-z_.]+:RowHistoryCV$"), "p_rowhist"),
]
# justified whitelist: not run state
WHITELIST = [
    (re.compile(r"__warningregistry__"), "warnings registry"),
    (re.compile(r"\.yaml_(multi_)?representers$"), "yaml representer registry (filled when a plugin module is imported)"),
    (re.compile(r"\.__slotnames__$"), "copyreg slot-name memo put on a class when an instance is first pickled "
                                      "(a function of the class definition)"),
]


def classify_changes(before, after):
    """-> (modelled {field: n}, whitelisted {reason: n}, unmodelled [[loc, before, after]])"""
    modelled, white, unmodelled = collections.Counter(), collections.Counter(), []
    old_mods = set(before["mods"])
    a, b = before["locs"], after["locs"]
    if before["mods"] != after["mods"]:
        white["import cache (sys.modules)"] += 1
    for loc in sorted(set(a) | set(b)):
        if a.get(loc) == b.get(loc):
            continue
        mn = loc.split(":", 1)[0]
        if mn not in old_mods and not mn.startswith("<"):
            white["module imported during the run"] += 1
            continue
        for rx, name in MODELLED:
            if rx.search(loc):
                modelled[name] += 1
                break
        else:
            for rx, why in WHITELIST:
                if rx.search(loc):
                    white[why] += 1
                    break
            else:
                unmodelled.append([loc, a.get(loc), b.get(loc)])
    return dict(modelled), dict(white), unmodelled


# =============================================================================== process-programs
DATE_KEYS = [("s", "2020-01-05", True), ("s", "2021-02-03", True), ("s", "March 4, 2019", True),
             ("d", "2020-01-05", True), ("d", "2022-12-31", True),
             ("s", "garbage", False), ("s", "2020-13-45", False)]
DT_KEYS = [("s", "2020-01-05T10:00:00", True), ("s", "2021-02-03 04:05:06+02:00", True),
           ("d", "2020-01-05T10:00:00", True), ("s", "2020-01-05", True),
           ("s", "now", True), ("s", "now", True), ("s", "today", True),
           ("s", "-30d", True), ("s", "+1y", True), ("s", "-1w+2h", True),
           ("s", "not a time", False)]
COUNTER_NAMES = {"foo": (5, 2), "bar": (1, 1), "baz": (10, 10)}
TABLES = ["A", "B", "C", "P"]


_REL = re.compile(r"([+-]\d+y)?([+-]\d+M)?([+-]\d+w)?([+-]\d+d)?([+-]\d+h)?([+-]\d+m)?([+-]\d+s)?", re.ASCII)


def clock_kind(tag, key):
    """keys parse_datetimespec answers from the clock (never cached): now | today | rel | None"""
    if tag != "s":
        return None
    if key in ("now", "today"):
        return key
    if key and _REL.fullmatch(key):
        return "rel"
    return None


def rel_offset(key):
    """offset of a relative spec as the code computes it (Faker's own _parse_timedelta)"""
    try:
        from faker.providers.date_time import Provider
        return datetime.timedelta(seconds=Provider._parse_timedelta(key))
    except Exception:
        return None


def model_key(tag, key):
    return key if tag == "s" else "d:" + key


def boundary_key(rid):
    return "2020-01-%02dT%02d:00:00" % (rid % 28 + 1, rid // 28)


def gen_prog(rng, fail_p=0.22, weights=None):
    w = dict(lit=2, idplus=2, uid=3, puid=1.5, alpha=1.5, date=3, datetime=3, dtbetween=1.2, counter=3,
             datecounter=1.2, lazy=1.2, version=1, )
    if weights:
        w.update(weights)
    kinds, ws = zip(*w.items())
    nt = rng.randint(1, 3)
    templates = []
    for ti in range(nt):
        table = rng.choice(TABLES)
        fields = []
        for fi in range(rng.randint(0, 4)):
            k = rng.choices(kinds, ws)[0]
            if k == "lit":
                fields.append(["lit", rng.choice([0, 1, 5, 42])])
            elif k == "idplus":
                fields.append(["idplus", rng.randint(1, 9)])
            elif k in ("uid", "puid", "alpha", "version"):
                fields.append([k])
            elif k == "date":
                tag, key, valid = rng.choice(DATE_KEYS[:5] if rng.random() < 0.9 else DATE_KEYS)
                fields.append(["date", tag, key, valid])
            elif k in ("datetime", "dtbetween"):
                tag, key, valid = rng.choice([x for x in DT_KEYS if x[2]] if rng.random() < 0.9 else DT_KEYS)
                fields.append([k, tag, key, valid])
            elif k == "counter":
                if rng.random() < 0.55:
                    name = rng.choice(sorted(COUNTER_NAMES))
                    fields.append(["counter", name, *COUNTER_NAMES[name]])
                else:
                    fields.append(["counter", None, rng.choice([1, 5, 100]), rng.choice([1, 2, 10])])
            elif k == "datecounter":
                tag, key, valid = rng.choice([x for x in DATE_KEYS if x[0] == "s" and x[2]])
                fields.append(["datecounter", key])
            elif k == "lazy":
                prev = [t for t in templates if t["count"] >= 1 and t["table"] != table]
                if prev:
                    tgt = rng.choice(prev)
                    if not any(f[0] == "tag" for f in tgt["fields"]):
                        tgt["fields"].append(["tag", rng.randint(100, 999)])
                    tag = next(f[1] for f in tgt["fields"] if f[0] == "tag")
                    # every template of that table must carry the same tag (a random row is loaded)
                    for t in templates:
                        if t["table"] == tgt["table"]:
                            t["fields"] = [f for f in t["fields"] if f[0] != "tag"] + [["tag", tag]]
                    fields.append(["lazy", tgt["table"], tag])
        templates.append({"table": table, "count": rng.choice([1, 1, 2, 2, 3, 0]), "fields": fields})
    # a template that repeats an earlier table must agree on its tag, else the lazy load is ambiguous
    tags = {}
    for t in templates:
        for f in t["fields"]:
            if f[0] == "tag":
                tags[t["table"]] = f[1]
    for t in templates:
        if t["table"] in tags and not any(f[0] == "tag" for f in t["fields"]):
            t["fields"].append(["tag", tags[t["table"]]])
    spec = {"k": "prog", "version": rng.choice([None, None, 2, 3]), "templates": templates,
            "reps": rng.choice([1, 1, 1, 2]), "broken": None, "stop": None}
    if rng.random() < fail_p:
        r = rng.random()
        if r < 0.25:
            spec["broken"] = "parse"
        elif r < 0.4:
            spec["stop"] = "Nope"
        else:
            t = rng.choice(templates)
            t["count"] = max(t["count"], 2)
            kind = rng.choice(["failat", "failat", "name", "baddate"])
            f = {"failat": ["failat", rng.randint(1, t["count"])], "name": ["fail", "name"],
                 "baddate": ["date", "s", "garbage", False]}[kind]
            t["fields"].insert(rng.randint(0, len(t["fields"])), f)
    return spec


def gen_boundary_prog(n=520):
    """one more distinct key than the cache holds ... and a second pass over the first keys"""
    return {"k": "prog", "version": None, "reps": 1, "broken": None, "stop": None,
            "templates": [{"table": "A", "count": n, "fields": [["dtf"]]},
                          {"table": "B", "count": 3, "fields": [["dtf"], ["datetime", "s", "now", True]]}]}


def _field_names(t):
    out = []
    for i, f in enumerate(t["fields"]):
        if f[0] == "tag":
            out.append(("tag", f))
        elif f[0] == "lazy":
            out.append((f"f{i}r", ["lazyref", f[1]]))
            out.append((f"f{i}", f))
        else:
            out.append((f"f{i}", f))
    return out


def prog_yaml(spec):
    L = []
    if spec.get("version"):
        L.append(f"- snowfakery_version: {spec['version']}")
    kinds = {f[0] for t in spec["templates"] for f in t["fields"]}
    if kinds & {"counter", "datecounter"}:
        L.append("- plugin: snowfakery.standard_plugins.Counters")
    if "puid" in kinds:
        L.append("- plugin: snowfakery.standard_plugins.UniqueId")
    for ti, t in enumerate(spec["templates"]):
        L.append(f"- object: {t['table']}")
        L.append(f"  count: {t['count']}")
        if spec.get("broken") == "parse" and ti == len(spec["templates"]) - 1:
            L.append("  bogus_key: 1")
        names = _field_names(t)
        if names:
            L.append("  fields:")
        for name, f in names:
            k = f[0]
            if k in ("lit", "tag"):
                L.append(f"    {name}: {f[1]}")
            elif k == "idplus":
                L.append(f"    {name}: ${{{{id + {f[1]}}}}}")
            elif k == "uid":
                L.append(f"    {name}: ${{{{unique_id}}}}")
            elif k == "puid":
                L.append(f"    {name}: ${{{{UniqueId.unique_id}}}}")
            elif k == "alpha":
                L.append(f"    {name}: ${{{{unique_alpha_code}}}}")
            elif k in ("date", "datetime"):
                q = '"' if f[1] == "s" else ""
                L.append(f"    {name}:")
                L.append(f"      {k}: {q}{f[2]}{q}")
            elif k == "dtbetween":          # both bounds are the same spec: two calls of parse_datetimespec
                q = '"' if f[1] == "s" else ""
                L.append(f"    {name}:")
                L.append("      datetime_between:")
                L.append(f"        start_date: {q}{f[2]}{q}")
                L.append(f"        end_date: {q}{f[2]}{q}")
            elif k == "dtf":
                L.append(f"    {name}:")
                L.append("      datetime: \"2020-01-${{'%02d' % (id % 28 + 1)}}T${{'%02d' % (id // 28)}}:00:00\"")
            elif k == "counter":
                L.append(f"    {name}:")
                L.append("      Counters.NumberCounter:")
                L.append(f"        start: {f[2]}")
                L.append(f"        step: {f[3]}")
                if f[1]:
                    L.append(f"        name: {f[1]}")
            elif k == "datecounter":
                L.append(f"    {name}:")
                L.append("      Counters.DateCounter:")
                L.append(f"        start_date: \"{f[1]}\"")
                L.append("        step: +1d")
            elif k == "lazyref":
                L.append(f"    {name}:")
                L.append(f"      random_reference: {f[1]}")
            elif k == "lazy":
                L.append(f"    {name}: ${{{{{name}r.tag}}}}")
            elif k == "version":
                L.append(f"    {name}: ${{{{ none }}}}")
            elif k == "failat":
                L.append(f"    {name}: ${{{{ 1 // ({f[1]} - id) }}}}")
            elif k == "fail":
                L.append(f"    {name}: ${{{{ nosuchname + 1 }}}}")
            else:
                raise ValueError(k)
    return "\n".join(L) + "\n"


def prog_trace(spec):
    """Unrolled evaluation: list of rows (table, [(field name, field spec, model op or None)])."""
    rows = []
    made = set()                      # memo sites already created in this run (DateCounter)
    last = collections.Counter()
    for _rep in range(spec.get("reps", 1)):
        for ti, t in enumerate(spec["templates"]):
            for _j in range(t["count"]):
                last[t["table"]] += 1
                rid = last[t["table"]]
                ops = []
                for name, f in _field_names(t):
                    k = f[0]
                    op = None
                    if k == "uid":
                        op = "(OUid SlotNum)"
                    elif k == "puid":
                        op = "(OUid SlotPluginNum)"
                    elif k == "alpha":
                        op = "(OUid SlotAlpha)"
                    elif k == "date":
                        op = f"(ODate {C.cstr(model_key(f[1], f[2]))})"
                    elif k == "datetime":
                        op = f"(ODatetime {C.cstr(model_key(f[1], f[2]))})"
                    elif k == "dtbetween":
                        op = f"(ODatetime {C.cstr(model_key(f[1], f[2]))}); (ODatetime {C.cstr(model_key(f[1], f[2]))})"
                    elif k == "dtf":
                        op = f"(ODatetime {C.cstr(boundary_key(rid))})"
                    elif k == "counter":
                        nm = f[1] or f"site_{ti}_{name}"
                        op = f"(OCounter {C.cstr(nm)} {C.cz(f[2])} {C.cz(f[3])})"
                    elif k == "datecounter":
                        if (ti, name) not in made:
                            made.add((ti, name))
                            op = f"(ODate {C.cstr(f[1])})"
                    elif k == "lazy":
                        op = f"(OLazy {C.cstr(f[1])})"
                    elif k == "version":
                        op = "OVersion"
                    elif k == "failat":
                        if rid == f[1]:
                            op = "(OFail (DGE \"\"))"
                    elif k == "fail":
                        op = "(OFail (DGE \"\"))"
                    ops.append((name, f, op))
                rows.append((t["table"], ops))
    return rows


def prog_features(spec):
    fs = {f[0] for t in spec["templates"] for f in t["fields"]}
    out = set(fs)
    for t in spec["templates"]:
        for f in t["fields"]:
            if f[0] == "counter" and f[1]:
                out.add("named_counter")
            if f[0] in ("datetime", "dtbetween") and clock_kind(f[1], f[2]):
                out.add("clock_" + clock_kind(f[1], f[2]))
            if f[0] in ("date", "datetime", "dtbetween") and not f[3]:
                out.add("bad_key")
    if spec.get("broken"):
        out.add("parse_failure")
    if spec.get("stop"):
        out.add("init_failure")
    if spec.get("reps", 1) > 1:
        out.add("two_iterations")
    return out


# =============================================================================== hand-written plugin recipes
def yaml_pool():
    P = []

    def add(name, text, random_fields=(), reps=1, feats=()):
        P.append({"k": "yaml", "name": name, "text": text, "random_fields": list(random_fields), "reps": reps,
                  "features": list(feats)})

    for nm in ("", "        name: ds\n"):
        add("dataset_iterate" + ("_named" if nm else ""),
            "- plugin: snowfakery.standard_plugins.datasets.Dataset\n- object: D\n  count: 3\n  fields:\n"
            "    __row:\n      Dataset.iterate:\n        dataset: \"@CSV@\"\n" + nm +
            "    a: ${{__row.a}}\n    b: ${{__row.b}}\n", feats=["dataset"])
    add("dataset_iterate_2reps",
        "- plugin: snowfakery.standard_plugins.datasets.Dataset\n- object: D\n  count: 2\n  fields:\n"
        "    __row:\n      Dataset.iterate:\n        dataset: \"@CSV@\"\n        name: ds\n"
        "    a: ${{__row.a}}\n", reps=2, feats=["dataset"])
    add("dataset_shuffle",
        "- plugin: snowfakery.standard_plugins.datasets.Dataset\n- object: D\n  count: 3\n  fields:\n"
        "    __row:\n      Dataset.shuffle:\n        dataset: \"@CSV@\"\n    a: ${{__row.a}}\n",
        random_fields=["a"], feats=["dataset", "random"])
    add("dataset_missing",
        "- plugin: snowfakery.standard_plugins.datasets.Dataset\n- object: D\n  fields:\n"
        "    __row:\n      Dataset.iterate:\n        dataset: \"@CSV@.missing.csv\"\n    a: ${{__row.a}}\n",
        feats=["dataset", "fails"])
    rel = ("- plugin: snowfakery.standard_plugins.datasets.Dataset\n- object: D\n  count: 2\n  fields:\n"
           "    __row:\n      Dataset.iterate:\n        dataset: %s\n    a: ${{__row.a}}\n    b: ${{__row.b}}\n")
    # relative dataset paths: a stream recipe resolves them against the working directory, a recipe FILE
    # against its own directory (datasets.chdir)
    add("dataset_rel_stream", rel % "data.csv", feats=["dataset", "relative_path"])
    add("dataset_rel_file_work", rel % "data.csv", feats=["dataset", "relative_path", "recipe_file"])
    P[-1]["dir"] = "work"
    add("dataset_rel_file_other", rel % "data.csv", feats=["dataset", "relative_path", "recipe_file"])
    P[-1]["dir"] = "other"
    add("dataset_missing_file_other", rel % "no_such_file.csv", feats=["dataset", "relative_path", "recipe_file", "fails"])
    P[-1]["dir"] = "other"
    add("dataset_bad_extension_file_other", rel % "data.txt", feats=["dataset", "relative_path", "recipe_file", "fails"])
    P[-1]["dir"] = "other"
    add("dataset_bad_table_file_other", rel % "\"sqlite:///nodb.db\"\n        table: nope",
        feats=["dataset", "relative_path", "recipe_file", "fails"])
    P[-1]["dir"] = "other"
    def settings(region, n):
        return (f"- var: region\n  value: {region}\n- var: n\n  value: {n}\n- macro: m\n  fields:\n"
                "    source: ${{region}}-import\n")
    job = ("- include_file: %s\n- object: Contact\n  count: ${{n}}\n  include: m\n  fields:\n    region: ${{region}}\n")
    for ver, (region, n) in (("v1", ("EMEA", 2)), ("v2", ("APAC", 3))):
        # one level: a recipe FILE in `other` includes other/settings.yml, which the application rewrites per job
        add("include_file_" + ver, job % "settings.yml", feats=["include_file", "recipe_file", "rewritten_file"])
        P[-1].update(dir="other", file_name="job.recipe.yml", files={"other/settings.yml": settings(region, n)})
        # a stream recipe includes work/settings.yml (relative to the working directory)
        add("include_stream_" + ver, job % "settings.yml", feats=["include_file", "rewritten_file"])
        P[-1].update(files={"work/settings.yml": settings(region, n)})
        # two levels: job -> level1.yml -> sub/level2.yml; only the innermost file is rewritten
        add("include_two_levels_" + ver, job % "level1.yml", feats=["include_file", "recipe_file", "rewritten_file"])
        P[-1].update(dir="other", file_name="job2.recipe.yml",
                     files={"other/level1.yml": "- include_file: sub/level2.yml\n- var: unused\n  value: 1\n",
                            "other/sub/level2.yml": settings(region, n)})
        # the dataset CSV is rewritten at the same path
        add("dataset_rewritten_" + ver, rel % "data.csv", feats=["dataset", "relative_path", "rewritten_file"])
        P[-1].update(files={"work/data.csv": "a,b\n%s1,p\n%s2,q\n" % (n, n)})
        # the main recipe itself, run by path, is rewritten at the same path
        add("main_by_path_" + ver, "- object: M\n  count: %d\n  fields:\n    region: %s\n" % (n, region),
            feats=["recipe_file", "rewritten_file"])
        P[-1].update(dir="other", file_name="main.recipe.yml")
    add("include_file_missing", job % "no_such_settings.yml", feats=["include_file", "fails"])
    add("random_reference_unique",
        "- object: P\n  count: 4\n  fields:\n    tag: ${{id * 10}}\n- object: Q\n  count: 4\n  fields:\n"
        "    r:\n      random_reference:\n        to: P\n        unique: true\n", random_fields=["r"],
        feats=["random_reference_unique", "random"])
    add("random_reference_unique_exhausted",
        "- object: P\n  count: 2\n- object: Q\n  count: 3\n  fields:\n"
        "    r:\n      random_reference:\n        to: P\n        unique: true\n", random_fields=["r"],
        feats=["random_reference_unique", "random", "fails"])
    add("random_reference_nick",
        "- object: P\n  nickname: pp\n  count: 3\n  fields:\n    tag: 7\n- object: Q\n  count: 2\n  fields:\n"
        "    r:\n      random_reference: pp\n    t: ${{r.tag}}\n", random_fields=["r"], feats=["row_history", "random"])
    add("nick_var",
        "- var: base\n  value: 100\n- object: A\n  nickname: first\n  fields:\n    x: ${{base + id}}\n"
        "- object: B\n  count: 2\n  fields:\n    a:\n      reference: first\n    y: ${{first.x + 1}}\n",
        feats=["nickname", "variable"])
    add("nick_var_other_meaning",
        "- var: base\n  value: 7\n- object: B\n  nickname: first\n  count: 2\n  fields:\n    x: ${{base * id}}\n"
        "- object: A\n  fields:\n    a:\n      reference: first\n    y: ${{first.x}}\n", feats=["nickname", "variable"])
    add("just_once_nick",
        "- object: A\n  just_once: true\n  nickname: first\n  fields:\n    x: 5\n- object: B\n  fields:\n"
        "    a:\n      reference: first\n", reps=2, feats=["nickname", "just_once"])
    add("uses_first_only", "- object: B\n  fields:\n    y: ${{first.x}}\n", feats=["nickname", "fails"])
    add("uses_table_A_only", "- object: B\n  fields:\n    y: ${{A.x}}\n    r:\n      reference: A\n",
        feats=["nickname", "fails"])
    add("uses_undefined_names",
        "- object: B\n  fields:\n    y: ${{first.x + base}}\n", feats=["nickname", "variable", "fails"])
    add("forward_ref",
        "- object: A\n  fields:\n    b:\n      reference: bb\n- object: B\n  nickname: bb\n  fields:\n    k: ${{id}}\n",
        feats=["nickname"])
    add("forward_ref_unfilled",
        "- object: A\n  fields:\n    b:\n      reference: bb\n- object: B\n  fields:\n    k: 1\n", feats=["fails"])
    add("just_once_2reps",
        "- object: J\n  just_once: true\n  fields:\n    k: 1\n- object: K\n  fields:\n    j:\n      reference: J\n",
        reps=2, feats=["just_once"])
    add("counter_parent",
        "- plugin: snowfakery.standard_plugins.Counters\n- object: Par\n  count: 2\n  friends:\n"
        "    - object: Ch\n      count: 2\n      fields:\n        n:\n          Counters.NumberCounter:\n"
        "            parent: Par\n", feats=["memoised_plugin_value"])
    add("counter_named_in_var",
        "- plugin: snowfakery.standard_plugins.Counters\n- var: cnt\n  value:\n    Counters.NumberCounter:\n"
        "      start: 3\n      name: foo\n- object: A\n  count: 3\n  fields:\n    n: ${{cnt.next}}\n",
        feats=["memoised_plugin_value"])
    add("fake", "- object: A\n  count: 2\n  fields:\n    n:\n      fake: first_name\n    s: ${{fake.state}}\n",
        random_fields=["n", "s"], feats=["random"])
    add("random_number",
        "- object: A\n  count: 3\n  fields:\n    n:\n      random_number:\n        min: 1\n        max: 100\n"
        "    c:\n      random_choice:\n        - x\n        - y\n", random_fields=["n", "c"], feats=["random"])
    add("macro_option",
        "- option: size\n  default: 3\n- macro: m\n  fields:\n    s: ${{size}}\n- object: A\n  include: m\n"
        "  fields:\n    t: ${{size * 2}}\n", feats=["option", "macro"])
    add("broken_yaml", "- object: [\n", feats=["fails"])
    add("not_a_recipe", "- bogus: 1\n", feats=["fails"])
    add("div_zero_second_row", "- object: A\n  count: 3\n  fields:\n    x: ${{ 10 // (2 - id) }}\n", feats=["fails"])
    add("hidden", "- object: __H\n  fields:\n    __x: 1\n    y: 2\n- object: V\n  fields:\n    r:\n      reference: __H\n")
    return P


# =============================================================================== generation
def _wrap_sfcore(rng):
    r, feats = sfcore.gen_recipe(rng)
    return {"k": "sfcore", "recipe": r, "features": feats, "reps": rng.choice([1, 1, 2])}


def gen_seq(rng, pool_yaml, idx=0, tier="quick"):
    n = rng.choice([2, 2, 3, 3, 4, 5, 6])
    style = rng.random()
    recipes = []
    for _ in range(n):
        r = rng.random()
        if style < 0.15:          # process-programs only: dense interaction through proc
            recipes.append(gen_prog(rng))
        elif r < 0.5:
            recipes.append(gen_prog(rng))
        elif r < 0.75:
            recipes.append(_wrap_sfcore(rng))
        else:
            recipes.append(dict(rng.choice(pool_yaml)))
    if rng.random() < 0.5 and n >= 2:      # the same recipe again later in the sequence
        i = rng.randrange(n)
        j = rng.randrange(n)
        if i != j:
            recipes[j] = json.loads(json.dumps(recipes[i]))
    shared = rng.random() < 0.12 and all(r["k"] in ("prog", "sfcore") for r in recipes)
    if shared and rng.random() < 0.3:
        shared = 3
    spawn_share = 0.25 if tier == "quick" else 0.03
    return {"kind": "seq", "recipes": recipes, "api": rng.choice(["generate", "generate_data"]),
            "fresh": "spawn" if rng.random() < spawn_share else "fork", "shared_opts": shared,
            "seed": rng.randint(1, 10 ** 6)}


def _directed(rng, pool_yaml):
    """boundaries that are always present"""
    out = []
    Y = {p["name"]: p for p in pool_yaml}

    def seq(recipes, **kw):
        c = {"kind": "seq", "recipes": [json.loads(json.dumps(r)) for r in recipes], "api": "generate",
             "fresh": "fork", "shared_opts": False, "seed": 11}
        c.update(kw)
        return c

    def prog(templates, **kw):
        s = {"k": "prog", "version": None, "templates": templates, "reps": 1, "broken": None, "stop": None}
        s.update(kw)
        return s

    uid_all = prog([{"table": "A", "count": 2, "fields": [["uid"], ["puid"], ["alpha"]]}])
    counters = prog([{"table": "A", "count": 2, "fields": [["counter", "foo", 5, 2], ["counter", None, 1, 1]]},
                     {"table": "B", "count": 2, "fields": [["counter", "foo", 5, 2], ["datecounter", "2020-01-05"]]}], reps=2)
    dates = prog([{"table": "A", "count": 2, "fields": [["date", "s", "2020-01-05", True], ["date", "d", "2020-01-05", True],
                                                        ["datetime", "s", "2020-01-05", True],
                                                        ["datetime", "d", "2020-01-05T10:00:00", True]]}])
    lazy = prog([{"table": "P", "count": 2, "fields": [["tag", 321]]},
                 {"table": "A", "count": 2, "fields": [["lazy", "P", 321]]}])
    lazy2 = prog([{"table": "P", "count": 3, "fields": [["tag", 654]]},
                  {"table": "B", "count": 1, "fields": [["lazy", "P", 654]]}])
    fail_mid = prog([{"table": "A", "count": 3, "fields": [["uid"], ["counter", "foo", 5, 2], ["failat", 2]]}])
    fail_date = prog([{"table": "A", "count": 2, "fields": [["date", "s", "2021-02-03", True], ["date", "s", "garbage", False]]}])
    fail_parse = prog([{"table": "A", "count": 1, "fields": [["uid"]]}], broken="parse")
    fail_init = prog([{"table": "A", "count": 1, "fields": [["uid"]]}], stop="Nope", version=3)
    plain = prog([{"table": "A", "count": 3, "fields": [["lit", 5], ["idplus", 1]]}])
    ver3 = prog([{"table": "A", "count": 1, "fields": [["version"], ["idplus", 2]]}], version=3)
    ver_none = prog([{"table": "A", "count": 1, "fields": [["version"], ["idplus", 2]]}])
    now = prog([{"table": "A", "count": 2, "fields": [["datetime", "s", "now", True]]}])
    today = prog([{"table": "A", "count": 1, "fields": [["datetime", "s", "today", True]]}])
    rel = prog([{"table": "A", "count": 2, "fields": [["datetime", "s", "-30d", True], ["dtbetween", "s", "-30d", True],
                                                      ["datetime", "s", "+1y", True]]}])
    rel2 = prog([{"table": "B", "count": 1, "fields": [["dtbetween", "s", "-1w+2h", True], ["dtbetween", "s", "now", True],
                                                       ["dtbetween", "s", "2020-01-05T10:00:00", True],
                                                       ["datetime", "s", "-30d", True]]}])

    out.append(seq([uid_all, uid_all]))                                     # shortest, same recipe twice
    out.append(seq([uid_all, plain, uid_all, fail_mid, uid_all, uid_all], api="generate_data"))   # longest
    out.append(seq([counters, counters, counters]))
    out.append(seq([dates, dates, fail_date, dates], api="generate_data"))
    out.append(seq([lazy, lazy2, lazy], fresh="spawn"))
    out.append(seq([fail_parse, fail_init, fail_mid, fail_date]))           # every run fails
    out.append(seq([fail_mid, plain]))                                      # first fails
    out.append(seq([plain, fail_mid, plain, fail_parse, plain], fresh="spawn", api="generate_data"))
    out.append(seq([ver3, ver_none, ver3]))                                 # versions without a shared dict
    out.append(seq([ver_none, fail_init, ver_none], shared_opts=True))      # repaired d5304ed: a failing v3 run wrote the dict
    out.append(seq([ver3, ver_none], shared_opts=True, api="generate_data"))  # repaired d5304ed
    out.append(seq([ver_none, ver_none], shared_opts=True))                 # shared dict, nothing written
    out.append(seq([ver_none, ver3, ver_none], shared_opts=3))              # the application itself asks for version 3
    out.append(seq([now, plain, now]))                                      # repaired fc3a5e8: stale clock
    out.append(seq([today, today]))
    out.append(seq([rel, plain, rel, rel2, rel], api="generate_data"))       # bfa3786: relative specs are clock readings
    out.append(seq([rel2, fail_mid, rel2, rel]))
    out.append(seq([Y["dataset_iterate_named"], Y["dataset_iterate_named"], Y["dataset_missing"], Y["dataset_iterate"]]))
    # a run that fails while opening a dataset of a recipe FILE in another directory, then relative paths
    out.append(seq([Y["dataset_rel_stream"], Y["dataset_missing_file_other"], Y["dataset_rel_stream"]], api="generate_data"))
    out.append(seq([Y["dataset_rel_file_other"], Y["dataset_bad_extension_file_other"], Y["dataset_rel_stream"],
                    Y["dataset_rel_file_work"], Y["dataset_rel_file_other"]]))
    out.append(seq([Y["dataset_missing_file_other"], Y["dataset_rel_stream"]], fresh="spawn"))
    # a plugin that cannot be found from the working directory (the run fails), then the same dotted name
    # from a recipe FILE that has it in its plugins/ directory (directed only: the opposite order depends on
    # Python's own sys.modules cache)
    plug_missing = {"k": "yaml", "name": "local_plugin_not_found_stream", "text": PLUGIN_RECIPE, "random_fields": [],
                    "reps": 1, "features": ["local_plugin", "fails"]}
    plug_found = {"k": "yaml", "name": "local_plugin_file_other", "text": PLUGIN_RECIPE, "random_fields": [],
                  "reps": 1, "features": ["local_plugin", "recipe_file"], "dir": "other"}
    out.append(seq([plug_missing, plug_missing, plug_found], api="generate_data"))
    out.append(seq([plug_missing, plain, plug_found]))
    out.append(seq([Y["dataset_rel_file_other"], Y["dataset_rel_stream"], Y["dataset_rel_file_work"]], api="generate_data"))
    # files rewritten at the same path between two runs (include targets one and two levels deep, the dataset,
    # the main recipe run by path): the later run must see the files as they are then
    out.append(seq([Y["include_file_v1"], Y["include_file_v2"]], api="generate_data"))
    out.append(seq([Y["include_file_v1"], plain, Y["include_file_v2"], Y["include_file_missing"], Y["include_file_v1"]]))
    out.append(seq([Y["include_two_levels_v1"], Y["include_two_levels_v2"], Y["include_two_levels_v1"]]))
    out.append(seq([Y["include_stream_v1"], Y["include_stream_v2"]], fresh="spawn"))
    out.append(seq([Y["dataset_rewritten_v1"], Y["dataset_rewritten_v2"], Y["dataset_rel_stream"]], api="generate_data"))
    out.append(seq([Y["main_by_path_v1"], Y["main_by_path_v2"], Y["main_by_path_v1"]]))
    out.append(seq([Y["nick_var"], Y["uses_undefined_names"], Y["nick_var_other_meaning"], Y["uses_undefined_names"]]))
    out.append(seq([Y["just_once_nick"], Y["uses_first_only"], Y["uses_table_A_only"], Y["nick_var"], Y["uses_first_only"]]))
    out.append(seq([Y["counter_named_in_var"], counters, Y["counter_named_in_var"]]))
    out.append(seq([Y["random_reference_unique"], Y["random_reference_unique_exhausted"], Y["random_reference_unique"]],
                   api="generate_data"))
    out.append(seq([Y["just_once_2reps"], Y["just_once_2reps"]]))
    out.append(seq([Y["forward_ref_unfilled"], Y["forward_ref"], Y["hidden"], Y["macro_option"]]))
    out.append(seq([Y["broken_yaml"], Y["not_a_recipe"], plain]))
    out.append(seq([gen_boundary_prog(520), dates, gen_boundary_prog(30)]))  # lru eviction at 512
    return out


def generate(rng, tier):
    pool_yaml = yaml_pool()
    cases = _directed(rng, pool_yaml)
    n = 70 if tier == "quick" else 3600
    for i in range(n):
        cases.append(gen_seq(rng, pool_yaml, i, tier))
    return cases


# =============================================================================== implementation side
_WALKER = Walker()
_PRISTINE = None


def recipe_text(spec, csv_path):
    if spec["k"] == "prog":
        return prog_yaml(spec)
    if spec["k"] == "sfcore":
        return sfcore.recipe_yaml(spec["recipe"])
    return spec["text"].replace("@CSV@", csv_path)


def _canon_value(v):
    from snowfakery.object_rows import ObjectRow, ObjectReference
    if isinstance(v, (ObjectRow, ObjectReference)):
        return ["ref", v._tablename, v.id if isinstance(v.id, int) else str(v.id)]
    if isinstance(v, bool):
        return ["bool", v]
    if isinstance(v, int):
        return ["int", v]
    if isinstance(v, str):
        return ["str", v]
    if v is None:
        return ["none"]
    if isinstance(v, datetime.datetime):
        return ["dt", v.isoformat()]
    if isinstance(v, datetime.date):
        return ["date", v.isoformat()]
    if isinstance(v, float):
        return ["float", repr(v)]
    return ["other", type(v).__name__, str(v)[:60]]


def _make_capture():
    from snowfakery.output_streams import OutputStream

    class Capture(OutputStream):
        def __init__(self):
            self.rows = []

        def write_row(self, tablename, row_with_references):
            self.rows.append([tablename, [[k, _canon_value(v)] for k, v in row_with_references.items()]])

        def write_single_row(self, *a):
            pass

        def close(self, **kw):
            return []

    return Capture()


def _json_rows(text):
    rows = []
    try:
        data = json.loads(text) if text.strip() else []
    except ValueError:
        # the run failed in the middle: the JSON array is not closed
        t = text.rstrip().rstrip(",")
        try:
            data = json.loads(t + "]") if t else []
        except ValueError:
            return [["<unparsable json output>", []]]
    for d in data:
        fs = []
        for k, v in d.items():
            if k == "_table":
                continue
            if isinstance(v, bool):
                fs.append([k, ["bool", v]])
            elif isinstance(v, int):
                fs.append([k, ["int", v]])
            elif isinstance(v, str):
                fs.append([k, ["str", v]])
            elif v is None:
                fs.append([k, ["none"]])
            elif isinstance(v, float):
                fs.append([k, ["float", repr(v)]])
            else:
                fs.append([k, ["other", type(v).__name__, str(v)[:60]]])
        rows.append([d.get("_table"), fs])
    return rows


class _RunTimeout(BaseException):
    pass


def base_files():
    """the files every case starts with, relative to its temporary root"""
    fs = {"other/plugins/c19_plug.py": PLUGIN_TEXT}
    for d, txt in (("work", CSV_TEXT), ("other", CSV_OTHER)):
        for fn in ("data.csv", "data.txt"):
            fs[f"{d}/{fn}"] = txt
    return fs


def _write_files(root, files):
    for rel, txt in (files or {}).items():
        path = os.path.join(root, rel)
        os.makedirs(os.path.dirname(path), exist_ok=True)
        with open(path, "w") as f:
            f.write(txt)


def _reset_files(root, all_rel):
    """back to the initial files of the case: base files restored, files written by recipes removed"""
    base = base_files()
    for rel in all_rel:
        if rel not in base:
            try:
                os.remove(os.path.join(root, rel))
            except OSError:
                pass
    _write_files(root, base)


def _recipe_file_rel(spec):
    return f"{spec['dir']}/{spec.get('file_name') or spec.get('name', 'r') + '.recipe.yml'}"


def _recipe_source(spec, text, root):
    """None for a stream recipe, else the path of the recipe FILE (written into its directory).
    Before the run the files the application (re)writes for this job are put in place: spec["files"]."""
    if root:
        _write_files(root, spec.get("files"))
    if not spec.get("dir") or not root:
        return None
    path = os.path.join(root, _recipe_file_rel(spec))
    with open(path, "w") as f:
        f.write(text)
    return path


def _one_run(spec, api, opts, seed, csv_path, root=None):
    """-> rows, err, random generator untouched?"""
    from snowfakery.api import SnowfakeryApplication, generate_data
    from snowfakery.data_generator import generate
    from snowfakery.data_generator_runtime import StoppingCriteria
    text = recipe_text(spec, csv_path)
    if spec.get("stop"):
        crit = StoppingCriteria(spec["stop"], 1)
    else:
        crit = StoppingCriteria("__REPS__", spec.get("reps", 1))
    app = SnowfakeryApplication(crit)
    app.echo = lambda *a, **k: None
    path = _recipe_source(spec, text, root)
    random.seed(seed)
    r0 = _h(repr(random.getstate()))
    err = None
    if api == "generate":
        cap = _make_capture()
        src = open(path) if path else io.StringIO(text)
        try:
            generate(src, {}, cap, app, plugin_options=opts)
        except _RunTimeout:
            err = "HANG"
        except BaseException as e:
            err = C.canon_exc(e)
        finally:
            src.close()
        return cap.rows, err, _h(repr(random.getstate())) == r0
    out = io.StringIO()
    try:
        generate_data(path or io.StringIO(text), parent_application=app, output_format="json", output_file=out,
                      plugin_options=opts)
    except _RunTimeout:
        err = "HANG"
    except BaseException as e:
        err = C.canon_exc(e)
    return _json_rows(out.getvalue()), err, _h(repr(random.getstate())) == r0


def _view(opts):
    import snowfakery.template_funcs as tf
    from snowfakery.standard_plugins.UniqueId import UniqueNumericIdGenerator as G
    from snowfakery.object_rows import RowHistoryCV
    v = {}
    try:
        m = re.fullmatch(r"count\((\d+)\)", repr(G.context_uniqifier))
        v["uid"] = int(m.group(1)) if m else None
    except Exception:
        v["uid"] = None
    for nm, fn in (("dates", "parse_date"), ("dts", "_parse_datetimespec")):
        try:
            ci = getattr(tf, fn).cache_info()
            v[nm] = [ci.currsize, ci.misses]
        except Exception:
            v[nm] = None
    try:
        x = RowHistoryCV.get(None)
        v["cv_set"] = x is not None
        v["cv_id"] = id(x) if x is not None else 0
    except Exception:
        v["cv_set"] = None
        v["cv_id"] = 0
    v["app_ver"] = (opts or {}).get("snowfakery_version") if isinstance(opts, dict) else None
    return v


def _uses_random(spec):
    if spec["k"] == "prog":
        return any(f[0] in ("lazy", "dtbetween") for t in spec["templates"] for f in t["fields"])
    if spec["k"] == "yaml":
        return "random" in spec.get("features", []) or bool(spec.get("random_fields"))
    return False


def run_many(payload):
    """Runs in a pristine process.  payload: specs, api, shared, seed, csv, audit."""
    def on_alarm(signum, frame):
        raise _RunTimeout()
    signal.signal(signal.SIGALRM, on_alarm)
    if payload.get("root"):
        # files as they were when this (part of the) sequence starts: the initial files, then what the
        # application wrote for the earlier jobs (`prewrite`: those jobs are NOT run in this process)
        _reset_files(payload["root"], payload.get("all_files", []))
        for sp in payload.get("prewrite", []):
            _write_files(payload["root"], sp.get("files"))
            if sp.get("dir"):
                _write_files(payload["root"], {_recipe_file_rel(sp): recipe_text(sp, payload["csv"])})
        os.chdir(os.path.join(payload["root"], "work"))     # the application's working directory
    opts = None
    if payload["shared"]:
        opts = dict(SHARED_OPTS)
        if payload["shared"] == 3:
            opts["snowfakery_version"] = 3      # the application itself asks for native types
    out = []
    w = Walker()
    prev_cv = _view(opts)["cv_id"]
    after = None
    for spec in payload["specs"]:
        before = (after or w.snapshot()) if payload["audit"] else None
        t0 = datetime.datetime.now(datetime.timezone.utc).isoformat()
        signal.alarm(30)
        try:
            rows, err, rnd_same = _one_run(spec, payload["api"], opts, payload["seed"], payload["csv"],
                                           payload.get("root"))
        except _RunTimeout:
            rows, err, rnd_same = [], "HANG", True
        finally:
            signal.alarm(0)
        t1 = datetime.datetime.now(datetime.timezone.utc).isoformat()
        o = {"rows": rows, "err": err, "t0": t0, "t1": t1, "random_state_untouched": rnd_same}
        v = _view(opts)
        v["cv_changed"] = v["cv_id"] != prev_cv
        prev_cv = v.pop("cv_id")
        o["view"] = v
        if payload["audit"]:
            after = w.snapshot()
            m, wl, un = classify_changes(before, after)
            if not rnd_same:
                # the global random generator is re-seeded by the harness before every run; a recipe
                # without random functions must not draw from it
                if _uses_random(spec):
                    wl["global random generator advanced by a recipe that calls random functions"] = 1
                else:
                    un.append(["<process>:random.getstate()", "as seeded", "advanced by a recipe without random functions"])
            o["audit"] = {"modelled": m, "whitelisted": wl, "unmodelled": un[:12], "locations": len(after["locs"])}
        out.append(o)
    return out


def _spawn_main():
    """entry point of a spawned pristine interpreter: payload on stdin, result on the original stdout"""
    real = os.dup(1)
    os.dup2(2, 1)
    C.impl_env()
    payload = json.loads(sys.stdin.read())
    try:
        res = {"ok": run_many(payload)}
    except BaseException as e:      # surfaced as a harness error by the caller
        import traceback
        res = {"child_error": f"{type(e).__name__}: {e}", "tb": traceback.format_exc()[-1200:]}
    with os.fdopen(real, "w") as f:
        f.write(json.dumps(res))


def _spawn(payload):
    env = dict(os.environ)
    env["PYTHONPATH"] = f"{C.REPO}:{C.VERIF}"
    env["PYTHONHASHSEED"] = "0"
    env[C.GUARD] = "1"
    env["SFV_REPO"] = str(C.REPO)
    p = subprocess.run([sys.executable, "-c", "from harness import c19; c19._spawn_main()"],
                       input=json.dumps(payload), capture_output=True, text=True, env=env, cwd=str(C.VERIF))
    if p.returncode != 0 or not p.stdout.strip():
        raise RuntimeError(f"spawned run failed rc={p.returncode}: {p.stderr[-800:]}")
    res = json.loads(p.stdout)
    if "child_error" in res:
        raise RuntimeError("spawned run: " + res["child_error"] + "\n" + res.get("tb", ""))
    return res["ok"]


def _fork(payload):
    r, w = os.pipe()
    pid = os.fork()
    if pid == 0:
        code = 0
        try:
            os.close(r)
            signal.alarm(0)
            try:
                res = {"ok": run_many(payload)}
            except BaseException as e:
                import traceback
                res = {"child_error": f"{type(e).__name__}: {e}", "tb": traceback.format_exc()[-1200:]}
            with os.fdopen(w, "wb") as f:
                f.write(json.dumps(res).encode())
        except BaseException:
            code = 3
        finally:
            os._exit(code)
    os.close(w)
    try:
        with os.fdopen(r, "rb") as f:
            data = f.read()
    finally:
        try:
            os.kill(pid, signal.SIGKILL)
        except ProcessLookupError:
            pass
        try:
            os.waitpid(pid, 0)
        except ChildProcessError:
            pass
    if not data:
        raise RuntimeError("forked run died without a result")
    res = json.loads(data)
    if "child_error" in res:
        raise RuntimeError("forked run: " + res["child_error"] + "\n" + res.get("tb", ""))
    return res["ok"]


def _pristine_ok():
    """The pool worker may serve as the template of pristine processes only while it has never
    changed since import (it never runs a recipe itself)."""
    global _PRISTINE
    snap = _WALKER.snapshot()
    if _PRISTINE is None:
        v = _view(None)
        if v["uid"] != 1 or v["dates"] != [0, 0] or v["dts"] != [0, 0] or v["cv_set"]:
            return False
        _PRISTINE = snap
        return True
    return snap == _PRISTINE


def run_impl(case):
    mode = case.get("fresh", "fork")
    if mode == "fork" and not _pristine_ok():
        mode = "spawn"
    launch = _fork if mode == "fork" else _spawn
    tmp = tempfile.mkdtemp(prefix="sfv_c19_", dir="/var/tmp")
    try:
        # <tmp>/work = the application's working directory, <tmp>/other = where recipe FILES of the
        # "other" kind live; both hold a data.csv with different content
        _write_files(tmp, base_files())     # incl. a local plugin next to the recipe files of `other`
        all_files = sorted({rel for sp in case["recipes"] for rel in (sp.get("files") or {})} |
                           {_recipe_file_rel(sp) for sp in case["recipes"] if sp.get("dir")})
        csv_path = os.path.join(tmp, "work", "data.csv")
        base = {"api": case.get("api", "generate"), "shared": case.get("shared_opts") or False,
                "seed": case.get("seed", 1), "csv": csv_path, "root": tmp, "all_files": all_files}
        seq = launch(dict(base, specs=case["recipes"], audit=True))
        fresh = []
        for i, spec in enumerate(case["recipes"]):
            # alone in a fresh process, on the files as they are when run i starts
            fresh.append(launch(dict(base, specs=[spec], prewrite=case["recipes"][:i], audit=False))[0])
        return {"seq": seq, "fresh": fresh, "mode": mode}
    finally:
        import shutil
        shutil.rmtree(tmp, ignore_errors=True)


# =============================================================================== decoding
def _decode_num(v):
    from snowfakery.utils.scrambled_numbers import unscramble_number
    s = str(unscramble_number(int(v)))
    parts = [int(x, 8) for x in s.split("9")]
    return parts if len(parts) in (1, 2) else None     # [context, index], or [index] (template `index`)


def _decode_alpha(code):
    from baseconv import BaseConverter
    n = int(BaseConverter(string.digits + string.ascii_uppercase).decode(code))
    return _decode_num(n)


def decode_uid(kind, val):
    """-> [ctx, idx], [idx] (the text carries no context) or None"""
    try:
        if kind in ("uid", "puid") and val[0] == "int":
            return _decode_num(val[1])
        if kind == "alpha" and val[0] == "str":
            return _decode_alpha(val[1])
        if kind == "alpha" and val[0] == "int":       # native types may turn an all-digit code into a number
            return _decode_alpha(str(val[1]))
    except Exception:
        return None
    return None


def _parse_dt(val):
    try:
        if val[0] in ("dt", "str"):
            return datetime.datetime.fromisoformat(val[1])
    except Exception:
        return None
    return None


def _window(val, windows, offset=None):
    """1-based index of the run whose time window contains the datetime value (minus the offset of
    a relative spec), 0 = none"""
    d = _parse_dt(val)
    if d is None:
        return 0
    if offset is not None:
        d = d - offset
    for j, (a, b) in enumerate(windows):
        if a <= d <= b:
            return j + 1
    return 0


def _windows(runs):
    return [(datetime.datetime.fromisoformat(r["t0"]), datetime.datetime.fromisoformat(r["t1"])) for r in runs]


# =============================================================================== model side
def _row_fields(spec, row, trow):
    """align an observed row with the unrolled trace row; None if it is another row"""
    table, fs = row
    if table != trow[0]:
        return None
    d = dict((k, v) for k, v in fs)
    return d


class _Codes:
    def __init__(self):
        self.by_value = {}

    def code(self, v):
        k = json.dumps(v, sort_keys=True)
        if k not in self.by_value:
            self.by_value[k] = 100 + len(self.by_value)
        return self.by_value[k]

    def lookup(self, v):
        return self.by_value.get(json.dumps(v, sort_keys=True), 0)


def _obs_terms(spec, rows, codes, windows, learn, dtab, dttab):
    """Coq obs list for the complete rows delivered by a process-program run.
    learn=True (fresh run): assign value codes and fill the parse tables."""
    trace = prog_trace(spec)
    out = []
    for k, row in enumerate(rows):
        if k >= len(trace):
            out.append("(BVal (-7))")           # more rows than the program has: forces a mismatch
            continue
        trow = trace[k]
        d = _row_fields(spec, row, trow)
        if d is None or not (d.get("id") and d["id"][0] == "int"):
            out.append("(BVal (-8))")
            continue
        out.append(f"(BId {C.cstr(trow[0])} {C.cz(d['id'][1])})")
        for name, f, op in trow[1]:
            if op is None:
                continue
            kind = f[0]
            v = d.get(name)
            if v is None:
                out.append("(BVal (-9))")
                continue
            if kind in ("uid", "puid", "alpha"):
                ci = decode_uid(kind, v)
                slot = {"uid": "SlotNum", "puid": "SlotPluginNum", "alpha": "SlotAlpha"}[kind]
                if ci and len(ci) == 2:
                    out.append(f"(BUid {slot} {C.cz(ci[0])} {C.cz(ci[1])})")
                elif ci and kind == "alpha":
                    out.append(f"(BUidIdx {slot} {C.cz(ci[0])})")
                else:
                    out.append(f"(BUid {slot} (-1) (-1))")
            elif kind in ("date", "datecounter"):
                key = model_key(f[1], f[2]) if kind == "date" else f[1]
                if learn:
                    dtab.setdefault(key, codes.code(["date", v]))
                    out.append(f"(BVal {dtab[key]})")
                else:
                    out.append(f"(BVal {codes.lookup(['date', v])})")
            elif kind in ("datetime", "dtf", "dtbetween"):
                ck = clock_kind(f[1], f[2]) if kind != "dtf" else None
                if ck in ("now", "rel"):
                    t = f"(BVal {_window(v, windows, rel_offset(f[2]) if ck == 'rel' else None)})"
                elif ck == "today":
                    t = "(BVal 0)"
                else:
                    key = boundary_key(d["id"][1]) if kind == "dtf" else model_key(f[1], f[2])
                    if learn:
                        dttab.setdefault(key, codes.code(["dt", v]))
                        t = f"(BVal {dttab[key]})"
                    else:
                        t = f"(BVal {codes.lookup(['dt', v])})"
                out.extend([t, t] if kind == "dtbetween" else [t])
            elif kind == "counter":
                nm = f[1] or op.split('"')[1]
                out.append(f"(BCount {C.cstr(nm)} {C.cz(v[1])})" if v[0] == "int" else "(BVal (-10))")
            elif kind == "lazy":
                out.append("BLazy" if v == ["int", f[2]] else "(BVal (-11))")
            elif kind == "version":
                out.append("(BVersion 3)" if v == ["none"] else "(BVersion 2)" if v == ["str", "None"] else "(BVal (-12))")
            else:
                out.append("(BVal (-13))")
    return out


def _recipe_term(spec, fresh):
    if spec["k"] == "prog":
        stage = "SParseFail" if spec.get("broken") == "parse" else "SInitFail" if spec.get("stop") else "SExec"
        ops = []
        for table, fields in prog_trace(spec):
            ops.append(f"(ORow {C.cstr(table)})")
            ops.extend(op for _, _, op in fields if op)
        ver = spec.get("version")
        return f"(mkRecipe {stage} {C.copt(ver, C.cz)} {C.clist(ops)})"
    # opaque: whether it reaches Interpreter.execute is read from the fresh process
    stage = "SExec" if fresh["view"].get("cv_changed") else "SParseFail"
    ver = spec["recipe"]["version"] if spec["k"] == "sfcore" else None
    return f"(mkRecipe {stage} {C.copt(ver, C.cz)} [])"


def _view_term(v):
    if v.get("uid") is None or v.get("dates") is None or v.get("dts") is None or v.get("cv_set") is None:
        return None
    av = v.get("app_ver")
    if av is not None and not isinstance(av, int):
        return None
    return (f"(mkView {C.cz(v['uid'])} {C.cz(v['dates'][0])} {C.cz(v['dates'][1])} {C.cz(v['dts'][0])} "
            f"{C.cz(v['dts'][1])} {C.cbool(v['cv_set'])} {C.cbool(v['cv_changed'])} {C.copt(av, C.cz)})")


def coq_case(case, obs):
    if not isinstance(obs, dict) or "seq" not in obs:
        return None
    seq, fresh = obs["seq"], obs["fresh"]
    codes = _Codes()
    dtab, dttab = {}, {}
    # 1. learn parse results from the fresh processes
    for spec, fr in zip(case["recipes"], fresh):
        if spec["k"] == "prog":
            _obs_terms(spec, fr["rows"], codes, _windows([fr]), True, dtab, dttab)
    # keys never evaluated successfully: valid ones get a placeholder, invalid ones raise
    extra = 900
    for spec in case["recipes"]:
        if spec["k"] != "prog":
            continue
        last = collections.Counter()
        for _rep in range(spec.get("reps", 1)):
            for t in spec["templates"]:
                for _j in range(t["count"]):
                    last[t["table"]] += 1
                    for f in t["fields"]:
                        if f[0] == "date":
                            key, tab, valid = model_key(f[1], f[2]), dtab, f[3]
                        elif f[0] == "datecounter":
                            key, tab, valid = f[1], dtab, True
                        elif f[0] in ("datetime", "dtbetween") and not clock_kind(f[1], f[2]):
                            key, tab, valid = model_key(f[1], f[2]), dttab, f[3]
                        elif f[0] == "dtf":
                            key, tab, valid = boundary_key(last[t["table"]]), dttab, True
                        else:
                            continue
                        if not valid:
                            tab[key] = None
                        elif key not in tab:
                            extra += 1
                            tab[key] = extra
    windows = _windows(seq)
    runs = []
    for i, (spec, sq, fr) in enumerate(zip(case["recipes"], seq, fresh)):
        vt = _view_term(sq["view"])
        if vt is None:
            return None         # private names the view reads are gone: nothing to compare
        env = f"(mkEnv {i + 1} 0 {'(Some 3)' if case.get('shared_opts') == 3 else 'None'})"
        opaque = spec["k"] != "prog"
        if opaque:
            ob = "[]"
        else:
            ob = C.clist(_obs_terms(spec, sq["rows"], codes, windows, False, dtab, dttab))
        err = "None" if sq["err"] is None else f"(Some {C.cerr(sq['err'])})"
        runs.append(f"(mkRunCase {env} {_recipe_term(spec, fr)} {C.cbool(opaque)} {ob} {err} {vt})")
    unmodelled = sorted({u[0] for sq in seq for u in sq.get("audit", {}).get("unmodelled", [])})

    def tab_term(tab):
        return C.clist(C.cpair(C.cstr(k), C.copt(v, C.cz)) for k, v in sorted(tab.items()))

    return (f"CSeq {tab_term(dtab)} {tab_term(dttab)} {C.clist(C.cstr(u[:200]) for u in unmodelled)} "
            f"{C.clist(runs)}")


# =============================================================================== property oracle
def _kind_class(f):
    k = f[0]
    if k in ("uid", "puid", "alpha"):
        return k
    if k == "lazyref":
        return "random"
    if k in ("datetime", "dtbetween") and clock_kind(f[1], f[2]) in ("now", "rel"):
        return "now"
    if k in ("datetime", "dtbetween") and clock_kind(f[1], f[2]) == "today":
        return "today"
    return "exact"


def _row_classes(spec):
    """per delivered row (index k): {field name: (class, field spec)}.  Process-programs: from the
    unrolled trace (delivered rows are a prefix of it); other recipes: by field name."""
    if spec["k"] == "prog":
        return [(table, {name: (_kind_class(f), f) for name, f, _ in fields}) for table, fields in prog_trace(spec)]
    return None


def _class_of(spec, rowcls, k, table, name):
    if rowcls is not None:
        if k < len(rowcls) and rowcls[k][0] == table and name in rowcls[k][1]:
            return rowcls[k][1][name]
        return ("exact", None)
    if spec["k"] == "yaml" and name in spec.get("random_fields", []):
        return ("random", None)
    return ("exact", None)


def _shape(v):
    return [v[0], v[1]] if v and v[0] == "ref" else [v[0]] if v else None


def analyse(case, obs):
    """-> dict(leaks=[msg], stale=[msg], opts=[msg], alpha=[msg])"""
    res = {"leaks": [], "stale": [], "opts": [], "alpha": []}
    seq, fresh = obs["seq"], obs["fresh"]
    windows = _windows(seq)
    uids = {}
    max_ctx_before = 0
    for i, (spec, sq, fr) in enumerate(zip(case["recipes"], seq, fresh)):
        rowcls = _row_classes(spec)
        tag = f"run {i + 1}/{len(seq)} ({spec.get('name') or spec['k']})"
        # a shared options dict that an earlier run wrote a version into
        preset = 3 if case.get("shared_opts") == 3 else None
        tainted = bool(case.get("shared_opts") and spec["k"] == "prog" and not spec.get("version") and i > 0
                       and seq[i - 1]["view"].get("app_ver") != preset)
        bucket_default = "leaks"
        if sq["err"] != fr["err"]:
            (res["opts"] if tainted else res["leaks"]).append(
                f"{tag}: outcome {sq['err'] or 'ok'} in the sequence, {fr['err'] or 'ok'} alone in a fresh process")
        if len(sq["rows"]) != len(fr["rows"]):
            (res["opts"] if tainted else res["leaks"]).append(
                f"{tag}: {len(sq['rows'])} rows in the sequence, {len(fr['rows'])} alone")
        run_ctx = []
        for k, (a, b) in enumerate(zip(sq["rows"], fr["rows"])):
            if a[0] != b[0] or [n for n, _ in a[1]] != [n for n, _ in b[1]]:
                res[bucket_default].append(f"{tag}: row {k + 1} is {a[0]}{[n for n, _ in a[1]]} in the sequence, "
                                           f"{b[0]}{[n for n, _ in b[1]]} alone")
                continue
            for (n, va), (_, vb) in zip(a[1], b[1]):
                c, fspec = _class_of(spec, rowcls, k, a[0], n)
                if c == "exact":
                    if va != vb:
                        if tainted and fspec is not None and fspec[0] in ("version", "failat"):
                            res["opts"].append(f"{tag}: row {k + 1} field {n} = {va} after an earlier run wrote "
                                               f"snowfakery_version into the shared plugin_options, {vb} alone")
                        else:
                            res["leaks"].append(f"{tag}: row {k + 1} ({a[0]}) field {n} = {va} in the sequence, "
                                                f"{vb} alone in a fresh process")
                elif c in ("uid", "puid", "alpha"):
                    if va[0] != vb[0]:
                        res["leaks"].append(f"{tag}: row {k + 1} field {n}: unique id of type {va[0]} / {vb[0]}")
                    key = ("alpha" if c == "alpha" else "num", json.dumps(va))
                    ci = decode_uid(c, va)
                    if key in uids:
                        if c == "alpha" and ci and len(ci) == 1:
                            res["alpha"].append(f"{tag} row {k + 1} field {n}: alpha code {va[1]} (no generator context in "
                                                f"the code, index {ci[0]}) was already produced in {uids[key]}")
                        else:
                            res["leaks"].append(f"uid-repeat: {tag} row {k + 1} field {n}: unique id {va[1]} was already "
                                                f"produced in {uids[key]}")
                    uids[key] = f"{tag} row {k + 1}"
                    if ci and len(ci) == 2:
                        run_ctx.append(ci[0])
                        if ci[0] <= max_ctx_before:
                            res["leaks"].append(f"uid-context: {tag} row {k + 1} field {n}: generator context {ci[0]} "
                                                f"is not newer than the contexts of earlier runs ({max_ctx_before})")
                elif c == "random":
                    if _shape(va) != _shape(vb):
                        res["leaks"].append(f"{tag}: row {k + 1} field {n}: {_shape(va)} in the sequence, {_shape(vb)} alone")
                elif c == "now":
                    d = _parse_dt(va)
                    off = rel_offset(fspec[2]) if fspec is not None and clock_kind(fspec[1], fspec[2]) == "rel" else None
                    if d is None or _parse_dt(vb) is None:
                        if va[0] != vb[0]:
                            res["leaks"].append(f"{tag}: row {k + 1} field {n}: {va[0]} / {vb[0]}")
                    elif (d - off if off is not None else d) < windows[i][0]:
                        j = _window(va, windows, off)
                        res["stale"].append(f"{tag}: row {k + 1} field {n}: clock spec `{fspec[2] if fspec else 'now'}` was read "
                                            f"against a time before this run started (the time of run {j or '?'})")
        if run_ctx:
            max_ctx_before = max(max_ctx_before, max(run_ctx))
        # ids start at 1
        if sq["err"] is None:
            ids = {}
            for t, fs in sq["rows"]:
                for n, v in fs:
                    if n == "id" and v[0] == "int":
                        ids.setdefault(t, []).append(v[1])
            for t, l in ids.items():
                if min(l) != 1:
                    res["leaks"].append(f"ids: {tag}: ids of {t} start at {min(l)}")
    return res


def oracle(case, obs):
    if not isinstance(obs, dict) or "seq" not in obs:
        return None
    res = analyse(case, obs)
    if res["leaks"]:
        m = res["leaks"][0]
        return m if m.split(":")[0] in ("uid-repeat", "uid-context", "ids") else "leak: " + m
    if res["opts"]:
        return "shared-options: " + res["opts"][0]
    if res["stale"]:
        return "stale-clock: " + res["stale"][0]
    if res["alpha"]:
        return "alpha-repeat: " + res["alpha"][0]
    return None


def match_finding(case, obs, msg, findings):
    ids = {f.get("id") for f in findings}
    if not isinstance(msg, str) or not isinstance(obs, dict) or "seq" not in obs:
        return None
    try:
        res = analyse(case, obs)
    except Exception:
        return None
    if res["leaks"]:
        return None                  # something else is wrong as well: never masked
    # the two other classes (stale-clock: fc3a5e8, shared-options: d5304ed) are repaired defects:
    # they are violations again if they come back
    if msg.startswith("alpha-repeat") and F_ALPHA in ids and res["alpha"] and not res["opts"] and not res["stale"]:
        return F_ALPHA
    return None


# =============================================================================== evidence
def _seq_features(case):
    fs = set()
    for r in case["recipes"]:
        if r["k"] == "prog":
            fs |= prog_features(r)
        elif r["k"] == "sfcore":
            fs.add("sfcore")
        else:
            fs |= set(r.get("features", [])) | {"yaml:" + r["name"]}
    texts = [json.dumps(r, sort_keys=True) for r in case["recipes"]]
    if len(set(texts)) < len(texts):
        fs.add("repeated_recipe")
    return fs


STATEFUL = {"include_file", "rewritten_file", "uid", "puid", "alpha", "date", "datetime", "dtf", "dtbetween", "counter", "named_counter", "datecounter", "lazy",
            "dataset", "row_history", "memoised_plugin_value", "repeated_recipe", "random_reference_unique",
            "just_once", "nickname"}


def nontrivial(case, obs):
    if not isinstance(obs, dict) or "seq" not in obs:
        return False
    reached = sum(1 for r in obs["seq"] if r["view"].get("cv_changed"))
    failed_before = any(r["err"] for r in obs["seq"][:-1])
    return reached >= 2 and (bool(_seq_features(case) & STATEFUL) or failed_before)


def stats(cases, obss):
    Cn = collections.Counter
    lens, kinds, feats, errs, api, mode = Cn(), Cn(), Cn(), Cn(), Cn(), Cn()
    modelled, white, unm = Cn(), Cn(), Cn()
    after_failed = shared = locations = 0
    rows = Cn()
    for c, o in zip(cases, obss):
        lens[len(c["recipes"])] += 1
        api[c.get("api")] += 1
        shared += bool(c.get("shared_opts"))
        for r in c["recipes"]:
            kinds[r["k"]] += 1
        for f in _seq_features(c):
            feats[f] += 1
        if not isinstance(o, dict) or "seq" not in o:
            continue
        mode[o.get("mode")] += 1
        prev_failed = False
        for r in o["seq"]:
            errs[r["err"] or "ok"] += 1
            rows[min(len(r["rows"]), 20) // 5 * 5] += 1
            after_failed += prev_failed
            prev_failed = bool(r["err"])
            a = r.get("audit", {})
            locations = max(locations, a.get("locations", 0))
            for k, v in a.get("modelled", {}).items():
                modelled[k] += v
            for k, v in a.get("whitelisted", {}).items():
                white[k] += v
            for u in a.get("unmodelled", []):
                unm[u[0]] += 1
    return {"sequence_lengths": dict(lens), "recipe_kinds": dict(kinds), "features": dict(feats),
            "run_outcomes": dict(errs), "rows_per_run_bucket": {str(k): v for k, v in sorted(rows.items())},
            "api": dict(api), "pristine_process_mode": dict(mode), "shared_options_sequences": shared,
            "runs_right_after_a_failed_run": after_failed,
            "audit_locations_fingerprinted": locations, "audit_changed_modelled": dict(modelled),
            "audit_changed_whitelisted": dict(white), "audit_changed_unmodelled": dict(unm)}


def violation_class(case, obs, msg):
    return msg.split(":")[0]


def shrink(case):
    rs = case["recipes"]
    if len(rs) > 2:
        for i in range(len(rs)):
            yield dict(case, recipes=rs[:i] + rs[i + 1:])
    for i, r in enumerate(rs):
        if r["k"] == "prog":
            ts = r["templates"]
            for j in range(len(ts)):
                if len(ts) > 1:
                    yield dict(case, recipes=rs[:i] + [dict(r, templates=ts[:j] + ts[j + 1:])] + rs[i + 1:])
            for j, t in enumerate(ts):
                for k in range(len(t["fields"])):
                    if t["fields"][k][0] == "tag":
                        continue
                    t2 = dict(t, fields=t["fields"][:k] + t["fields"][k + 1:])
                    yield dict(case, recipes=rs[:i] + [dict(r, templates=ts[:j] + [t2] + ts[j + 1:])] + rs[i + 1:])
        elif r["k"] == "sfcore":
            for c2 in sfcore.shrink_recipe_case({"recipe": r["recipe"], "reps": r.get("reps", 1)}):
                yield dict(case, recipes=rs[:i] + [dict(r, recipe=c2["recipe"], reps=c2.get("reps", 1))] + rs[i + 1:])


def directed_search(rng, disagreeing):
    """After a broken correspondence (typically: unmodelled process state): look for a sequence whose
    OUTPUT differs.  Repeats and pairs of the disagreeing recipes, then name-sharing stress sequences."""
    out = []
    pool = yaml_pool()
    for c in disagreeing[:6]:
        rs = c["recipes"]
        for r in rs[:6]:
            out.append(dict(c, recipes=[r, r], fresh="fork"))
            out.append(dict(c, recipes=[r, r, r], fresh="fork"))
        for a in rs[:4]:
            for b in rs[:4]:
                if a is not b:
                    out.append(dict(c, recipes=[a, b, a], fresh="fork"))
    for case in _directed(rng, pool):
        out.append(case)
    for i in range(150):
        out.append(gen_seq(rng, pool, i, "thorough"))
    return out[:400]
